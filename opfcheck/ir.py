"""E1: normalised kernel IR.

A syntax-directed abstract walk of one entry function (with bounded inlining of
repository helpers) that produces
  * normalised *terms* (nested tuples) for every expression: local aliases and
    single-definition temporaries are substituted, comparisons are
    canonicalised, max/min idioms unified, `if flag: t = A else: t = B` merges
    into one `sel` term (the arc-weight selector W(a, b));
  * an ordered list of *events* (store / call / bind / return / raise / break)
    each carrying its dominating guards and enclosing loops;
  * loop records with their carried variables (value before the loop, value at
    the end of the body).

This is dataflow normalisation, not execution: loops are walked once, values
that change in a loop are `phi` terms, nothing is evaluated.
"""

from __future__ import annotations

import ast
from dataclasses import dataclass, field
from typing import Callable, Dict, List, Optional, Set, Tuple

from .core import AnalysisError, FunctionInfo, Repo, unparse

Term = tuple

CONST_MOD = "opfython.utils.constants"
BUILTINS = {
    "range", "len", "int", "float", "max", "min", "abs", "enumerate", "zip", "list", "tuple",
    "isinstance", "callable", "open", "sum", "sorted", "reversed", "print", "super", "str",
    "bool", "dict", "set", "any", "all", "round", "map", "filter", "id", "hash", "type",
    "getattr", "setattr", "hasattr", "iter", "next", "NotImplementedError", "Exception",
    "TypeError", "ValueError", "OSError", "vars",
}

MAX_FUNCS = {"numpy.maximum", "numpy.fmax", "builtin.max"}
MIN_FUNCS = {"numpy.minimum", "numpy.fmin", "builtin.min"}

ALLOC_FUNCS = {
    "numpy.zeros", "numpy.ones", "numpy.empty", "numpy.full", "numpy.array", "numpy.zeros_like",
    "numpy.ones_like", "numpy.empty_like", "copy.deepcopy", "copy.copy", "builtin.list",
    "builtin.dict", "builtin.set",
}

FLIP = {"<": ">", ">": "<", "<=": ">=", ">=": "<="}
NEG = {"<": ">=", ">": "<=", "<=": ">", ">=": "<", "==": "!=", "!=": "==", "is": "is not",
       "is not": "is", "in": "not in", "not in": "in"}
OPS = {
    ast.Add: "+", ast.Sub: "-", ast.Mult: "*", ast.Div: "/", ast.FloorDiv: "//", ast.Mod: "%",
    ast.Pow: "**", ast.LShift: "<<", ast.RShift: ">>", ast.BitOr: "|", ast.BitAnd: "&",
    ast.BitXor: "^", ast.MatMult: "@",
}
CMPS = {
    ast.Lt: "<", ast.Gt: ">", ast.LtE: "<=", ast.GtE: ">=", ast.Eq: "==", ast.NotEq: "!=",
    ast.Is: "is", ast.IsNot: "is not", ast.In: "in", ast.NotIn: "not in",
}


def tkey(t) -> str:
    return repr(t)


def mk_cmp(op: str, l: Term, r: Term) -> Term:
    """Canonical comparison: only <, <=, ==, != (sorted operands for ==/!=), is/in kept."""
    if l[0] == "const" and r[0] == "const" and op in ("==", "!="):
        return ("const", (l[1] == r[1]) if op == "==" else (l[1] != r[1]))
    if l[0] == "const" and r[0] == "const" and op in ("is", "is not") and (l[1] is None or r[1] is None):
        return ("const", ((l[1] is None) == (r[1] is None)) == (op == "is"))  # a constant tested against None
    if op == ">":
        return mk_cmp("<", r, l)
    if op == ">=":
        return mk_cmp("<=", r, l)
    if op == "<=" and r == ("K", "FLOAT_MAX") and l[0] != "const":
        return ("const", True)   # x <= FLOAT_MAX: nothing a rule speaks about (costs, distances of finite data) exceeds it
    if op == "<" and l == ("K", "FLOAT_MAX") and r[0] != "const":
        return ("const", False)  # FLOAT_MAX < x
    if op in ("==", "!="):
        if l == r and l[0] in ("K", "param", "self", "phi", "iter", "iterproj"):
            return ("const", op == "==")  # the same name compared with itself
        a, b = sorted([l, r], key=tkey)
        return ("cmp", op, a, b)
    return ("cmp", op, l, r)


def mk_not(t: Term) -> Term:
    if t[0] == "cmp":
        op, l, r = t[1], t[2], t[3]
        if op == "<":
            return ("cmp", "<=", r, l)
        if op == "<=":
            return ("cmp", "<", r, l)
        if op in NEG:
            return mk_cmp(NEG[op], l, r)
    if t[0] == "not":
        return t[1]
    if t[0] == "const" and isinstance(t[1], bool):
        return ("const", not t[1])
    return ("not", t)


def norm_cond(c: Term) -> Term:
    """Negation normal form with flattened, order-preserving `and` / `or` (De Morgan, double negation)."""
    if c[0] == "not":
        x = c[1]
        if x[0] == "or":
            return norm_cond(("and", tuple(("not", y) for y in x[1])))
        if x[0] == "and":
            return norm_cond(("or", tuple(("not", y) for y in x[1])))
        if x[0] == "not":
            return norm_cond(x[1])
        return mk_not(norm_cond(x)) if x[0] == "cmp" else ("not", norm_cond(x))
    if c[0] in ("and", "or"):
        out = []
        for y in c[1]:
            y = norm_cond(y)
            if y[0] == c[0]:
                out.extend(y[1])
            else:
                out.append(y)
        return (c[0], tuple(out))
    return c


def norm_sels(t: Term) -> Term:
    """Canonical conditional values: conditions in negation normal form, and `a ? (b ? x : y) : y` written as
    `(a and b) ? x : y` (nested ifs and `and` are the same program)."""
    if not isinstance(t, tuple) or not t or not isinstance(t[0], str) or t[0] not in TAGS:
        return t
    if t[0] == "sel":
        c, a, b = norm_cond(norm_sels(t[1])), norm_sels(t[2]), norm_sels(t[3])
        if a[0] == "sel" and a[3] == b:
            c = norm_cond(("and", (c, a[1])))
            a = a[2]
        return ("sel", c, a, b)
    return tuple(norm_sels(x) if isinstance(x, tuple) and x and isinstance(x[0], str) and x[0] in TAGS
                 else (tuple(norm_sels(y) if isinstance(y, tuple) else y for y in x) if isinstance(x, tuple) else x)
                 for x in t)


def mk_ext(kind: str, args: List[Term]) -> Term:
    """Commutative, associative max/min with sorted, flattened operands."""
    flat = []
    for a in args:
        if a[0] == kind:
            flat.extend(a[1])
        else:
            flat.append(a)
    LIMITS = (("K", "FLOAT_MAX"), ("call", ("mod", "numpy.nextafter"), (("K", "FLOAT_MAX"), ("const", 0)), ()),
              ("attr", ("call", ("mod", "numpy.finfo"), (("builtin", "float"),), ()), "max"), ("attr", ("mod", "sys.float_info"), "max"))
    if kind == "min" and len(flat) > 1 and any(a in LIMITS for a in flat):
        # min(v, FLOAT_MAX) is v for every finite v (FLOAT_MAX is the largest float; the float next to it differs only for
        # v = FLOAT_MAX itself, which no distance of finite data attains): clipping at the float limit is a no-op
        flat = [a for a in flat if a not in LIMITS] or [("K", "FLOAT_MAX")]
        if len(flat) == 1:
            return flat[0]
    if kind == "max" and len(flat) > 1 and any(is_neg_float_max(a) for a in flat):
        # ... and so is max(v, -FLOAT_MAX)
        flat = [a for a in flat if not is_neg_float_max(a)] or [("neg", ("K", "FLOAT_MAX"))]
        if len(flat) == 1:
            return flat[0]
    return (kind, tuple(sorted(flat, key=tkey)))


OPERATOR_CMP = {"operator.lt": "<", "operator.le": "<=", "operator.gt": ">", "operator.ge": ">=", "operator.eq": "==",
                "operator.ne": "!=", "_operator.lt": "<", "_operator.gt": ">"}


TAGS = {
    "const", "K", "self", "param", "free", "builtin", "mod", "attr", "idx", "slice", "call", "new",
    "bin", "neg", "un", "not", "cmp", "and", "or", "max", "min", "iter", "iterproj", "phi", "sel",
    "hremove", "tuple", "list", "alloc", "proj", "old", "undef", "listcomp", "ret", "opaque", "star", "dict",
    "closure",
}


def subterms(t):
    """All sub-terms of a term (pre-order), including itself."""
    if isinstance(t, tuple):
        if t and isinstance(t[0], str) and t[0] in TAGS:
            yield t
            if t[0] in ("call", "new", "alloc") and len(t) >= 4 and isinstance(t[3], tuple) \
                    and all(isinstance(kv, tuple) and len(kv) == 2 and isinstance(kv[0], str) for kv in t[3]):
                # keyword arguments are (name, value) pairs: a name such as `idx` or `max` is not a term tag
                for x in t[1:3]:
                    if isinstance(x, tuple):
                        yield from subterms(x)
                for _, v in t[3]:
                    if isinstance(v, tuple):
                        yield from subterms(v)
                for x in t[4:]:
                    if isinstance(x, tuple):
                        yield from subterms(x)
                return
        for x in t:
            if isinstance(x, tuple):
                yield from subterms(x)


STABLE_TAGS = {"new", "hremove", "alloc", "iter", "iterproj", "param", "const", "K", "phi", "old",
               "self", "mod", "builtin", "free", "closure", "undef", "opaque"}


def owner_kind(t: Term) -> Optional[str]:
    """Coarse class of the object a path denotes: 'heap', 'node', 'graph' or None (unknown)."""
    while t[0] == "old":
        t = t[1]
    if t[0] == "new":
        return {"Heap": "heap", "Node": "node", "Subgraph": "graph", "KNNSubgraph": "graph"}.get(t[1])
    if t[0] == "idx" and t[1][0] == "attr" and t[1][2] == "nodes":
        return "node"
    if t[0] in ("iter", "iterproj") and t[1][0] == "attr" and t[1][2] == "nodes":
        return "node"
    if t[0] == "attr" and t[2] == "subgraph":
        return "graph"
    return None


def graph_of_node(t: Term) -> Optional[Term]:
    """The graph term G when t denotes a node of G (G.nodes[i], an element of an iteration over G.nodes)."""
    while t[0] == "old":
        t = t[1]
    if t[0] == "idx" and t[1][0] == "attr" and t[1][2] == "nodes":
        return t[1][1]
    if t[0] in ("iter", "iterproj") and t[1][0] == "attr" and t[1][2] == "nodes":
        return t[1][1]
    return None


_GRAPH_CTX: List[Optional[Term]] = [None]


def reads_field(t: Term, fields, owner: Optional[str] = None) -> bool:
    """Does the value of term t depend on a read of one of the attribute names in `fields`?
    owner: class of the object that was written; reads on objects of another known class do not count
    (Heap.cost and Node.cost are different fields)."""
    tag = t[0]
    if tag in STABLE_TAGS:
        return False
    if tag == "attr":
        if t[2] in fields:
            ok = owner_kind(t[1])
            g_w = _GRAPH_CTX[0]
            if g_w is not None and ok == "node":
                g_r = graph_of_node(t[1])
                if g_r is not None and g_r != g_w and g_r[0] == "new" or (g_r is not None and g_w[0] == "new" and g_r != g_w):
                    # the store went to a node of another graph object (a freshly built query graph vs the model's graph)
                    return reads_field(t[1], fields, owner)
            if owner == "!heap":
                if ok != "heap":
                    return True
            elif owner is None or ok is None or ok == owner:
                return True
        return reads_field(t[1], fields, owner)
    if tag == "call":
        f = t[1]
        if f[0] == "attr" and reads_field(f[1], fields, owner):
            return True
        return any(reads_field(a, fields, owner) for a in t[2]) or any(reads_field(v, fields, owner) for _, v in t[3])
    for x in t[1:]:
        if isinstance(x, tuple):
            if x and isinstance(x[0], str) and x[0] in TAGS:
                if reads_field(x, fields, owner):
                    return True
            else:
                for y in x:
                    if isinstance(y, tuple) and y and isinstance(y[0], str) and y[0] in TAGS and reads_field(y, fields, owner):
                        return True
    return False


def contains(t: Term, sub: Term) -> bool:
    return any(s == sub for s in subterms(t))


def show(t) -> str:
    """Readable rendering of a term."""
    if not isinstance(t, tuple) or not t:
        return repr(t)
    k = t[0]
    if k == "const":
        return repr(t[1])
    if k == "K":
        return f"c.{t[1]}"
    if k == "self":
        return "self"
    if k in ("param", "free", "builtin", "local"):
        return t[1]
    if k == "mod":
        return t[1]
    if k == "attr":
        return f"{show(t[1])}.{t[2]}"
    if k == "idx":
        return f"{show(t[1])}[{show(t[2])}]"
    if k == "slice":
        return ":".join("" if x is None else show(x) for x in t[1:])
    if k == "call":
        args = [show(a) for a in t[2]] + [f"{n}={show(v)}" for n, v in t[3]]
        return f"{show(t[1])}({', '.join(args)})"
    if k == "new":
        return f"{t[1]}#{t[4]}"
    if k == "bin":
        return f"({show(t[2])} {t[1]} {show(t[3])})"
    if k == "neg":
        return f"-{show(t[1])}"
    if k == "un":
        return f"{t[1]}{show(t[2])}"
    if k == "not":
        return f"not {show(t[1])}"
    if k == "cmp":
        return f"{show(t[2])} {t[1]} {show(t[3])}"
    if k in ("and", "or"):
        return "(" + f" {k} ".join(show(x) for x in t[1]) + ")"
    if k in ("max", "min"):
        return f"{k}(" + ", ".join(show(x) for x in t[1]) + ")"
    if k == "iter":
        return f"each({show(t[1])})#{t[2]}"
    if k == "iterproj":
        return f"each({show(t[1])})#{t[2]}{list(t[3])}"
    if k == "phi":
        return f"{t[2]}@loop{t[1]}"
    if k == "sel":
        return f"({show(t[2])} if {show(t[1])} else {show(t[3])})"
    if k == "hremove":
        return f"{show(t[1])}.remove()"
    if k in ("tuple", "list"):
        o, c = ("(", ")") if k == "tuple" else ("[", "]")
        return o + ", ".join(show(x) for x in t[1]) + c
    if k == "alloc":
        args = [show(a) for a in t[2]] + [f"{n}={show(v)}" for n, v in t[3]]
        if t[1] == "list":
            return "[" + ", ".join(args) + f"]#{t[4]}"
        return f"{t[1]}({', '.join(args)})#{t[4]}"
    if k == "proj":
        return f"{show(t[1])}<{t[2]}>"
    if k == "undef":
        return "<undef>"
    if k == "old":
        return f"old{t[2]}({show(t[1])})"
    if k == "listcomp":
        return f"[{show(t[1])} for ...]"
    if k == "ret":
        return f"<ret {t[1]}>"
    if k == "opaque":
        return t[1]
    if k == "star":
        return "*" + show(t[1])
    if k == "dict":
        return "{" + ", ".join(f"{show(a)}: {show(b)}" for a, b in t[1]) + "}"
    return repr(t)


@dataclass
class Event:
    kind: str  # store | call | bind | return | raise | break | continue | opaque
    seq: int
    fn: FunctionInfo
    node: ast.AST
    guards: Tuple[Tuple[Term, bool], ...]
    loops: Tuple[int, ...]
    target: Optional[Term] = None  # store target / bind name term / call callee
    value: Optional[Term] = None  # stored or bound value / return value / call term
    aug: Optional[str] = None
    name: Optional[str] = None  # bind: local name; call: method name
    args: Tuple[Term, ...] = ()
    kwargs: Tuple[Tuple[str, Term], ...] = ()
    stmt: Optional[ast.AST] = None

    @property
    def line(self) -> int:
        return getattr(self.node, "lineno", 0)

    def text(self) -> str:
        return unparse(self.stmt if self.stmt is not None else self.node)

    def where(self) -> str:
        return self.fn.qual


@dataclass
class LoopInfo:
    lid: int
    kind: str  # for | while
    fn: FunctionInfo
    node: ast.AST
    guards: Tuple[Tuple[Term, bool], ...]
    loops: Tuple[int, ...]
    domain: Optional[Term] = None
    cond: Optional[Term] = None
    targets: Dict[str, Term] = field(default_factory=dict)
    carried: Dict[str, Tuple[Term, Term]] = field(default_factory=dict)
    first_seq: int = 0
    last_seq: int = 0

    @property
    def line(self) -> int:
        return self.node.lineno


def module_literal(mi, name: str) -> Optional[Term]:
    """A module-level name bound exactly once to a literal (number, string, tuple/list of those)."""
    cache = getattr(mi, "_literals", None)
    if cache is None:
        cache = {}
        counts: Dict[str, int] = {}
        for node in mi.tree.body:
            if isinstance(node, ast.Assign):
                for t in node.targets:
                    if isinstance(t, ast.Name):
                        counts[t.id] = counts.get(t.id, 0) + 1
                        cache[t.id] = node.value
                    elif isinstance(t, ast.Tuple) and isinstance(node.value, ast.Tuple) and len(t.elts) == len(node.value.elts):
                        # A, B = 0, 1
                        for tn, tv in zip(t.elts, node.value.elts):
                            if isinstance(tn, ast.Name):
                                counts[tn.id] = counts.get(tn.id, 0) + 1
                                cache[tn.id] = tv
            elif isinstance(node, ast.AnnAssign) and isinstance(node.target, ast.Name) and node.value is not None:
                # ORDERS: Dict[str, Order] = {...}
                counts[node.target.id] = counts.get(node.target.id, 0) + 1
                cache[node.target.id] = node.value
        for k in list(cache):
            if counts.get(k, 0) != 1:
                del cache[k]
        mi._literals = cache
    v = cache.get(name)
    if v is None:
        return None

    def conv(n):
        if isinstance(n, ast.Constant):
            return ("const", n.value)
        if isinstance(n, ast.UnaryOp) and isinstance(n.op, ast.USub) and isinstance(n.operand, ast.Constant) \
                and isinstance(n.operand.value, (int, float)) and not isinstance(n.operand.value, bool):
            return ("const", -n.operand.value)  # NO_POSITION = -1
        if isinstance(n, ast.Call) and isinstance(n.func, ast.Name) and n.func.id == "float" and len(n.args) == 1 and not n.keywords:
            v = conv(n.args[0])
            if v is not None and (v[0] == "K" or (v[0] == "const" and isinstance(v[1], (int, float)) and not isinstance(v[1], bool))):
                return v if v[0] == "K" else ("const", float(v[1]))  # _UNREACHED = float(c.FLOAT_MAX)
        if isinstance(n, ast.UnaryOp) and isinstance(n.op, ast.USub):
            v = conv(n.operand)
            if v is not None and v[0] == "K":
                return ("neg", v)
        if isinstance(n, ast.BinOp) and type(n.op) in OPS and OPS[type(n.op)] in ("+", "-", "*", "/"):
            l, r = conv(n.left), conv(n.right)
            num = lambda v: v is not None and (v[0] == "K" or (v[0] == "const" and isinstance(v[1], (int, float)) and not isinstance(v[1], bool)))
            if num(l) and num(r) and "K" in (l[0], r[0]):
                op = OPS[type(n.op)]
                if op in ("+", "*"):
                    l, r = sorted([l, r], key=tkey)
                return ("bin", op, l, r)  # _DENSITY_RANGE = c.MAX_DENSITY - 1
        if isinstance(n, (ast.Tuple, ast.List)):
            items = [conv(x) for x in n.elts]
            if all(i is not None for i in items):
                return ("tuple", tuple(items))
        if isinstance(n, ast.Name) and n.id in mi.imports:
            return ("mod", mi.imports[n.id])
        if isinstance(n, ast.Name) and n.id in mi.functions:
            return ("mod", f"{mi.name}.{n.id}")
        if isinstance(n, ast.Attribute) and isinstance(n.value, ast.Name) and n.value.id in mi.imports:
            if mi.imports[n.value.id] == CONST_MOD:
                return ("K", n.attr)  # a module-level alias of a library constant (UNREACHED = c.FLOAT_MAX)
            return ("mod", f"{mi.imports[n.value.id]}.{n.attr}")
        if isinstance(n, ast.Call) and not n.keywords and len(n.args) == 1 and isinstance(n.args[0], ast.Constant) \
                and conv(n.func) == ("mod", "struct.Struct"):
            # a precompiled record layout: an immutable value determined by its format string
            return ("call", ("mod", "struct.Struct"), (("const", n.args[0].value),), ())
        if isinstance(n, ast.Call) and isinstance(n.func, ast.Name) and n.func.id in mi.classes \
                and not any(isinstance(a, ast.Starred) for a in n.args) and all(k.arg for k in n.keywords):
            # a record of a NamedTuple class of this module built from constants: {field: value} (read by attribute)
            cnode = mi.classes[n.func.id].node
            if any(unparse(b).split(".")[-1] == "NamedTuple" for b in cnode.bases):
                fields = [st.target.id for st in cnode.body if isinstance(st, ast.AnnAssign) and isinstance(st.target, ast.Name)]
                vals = dict(zip(fields, n.args))
                vals.update({k.arg: k.value for k in n.keywords})
                if set(vals) == set(fields) and len(n.args) <= len(fields):
                    items = [(("const", f), conv(vals[f])) for f in fields]
                    if all(v is not None for _, v in items):
                        return ("dict", tuple(items))
        if isinstance(n, ast.Dict) and len(n.keys) <= 8 and all(k is not None for k in n.keys):
            # a module-level dispatch table {literal: imported function / literal}
            items = [(conv(k), conv(v)) for k, v in zip(n.keys, n.values)]
            if all(k is not None and k[0] == "const" and v is not None for k, v in items):
                return ("dict", tuple(items))
        return None

    return conv(v)


def assigned_names(stmts: List[ast.stmt]) -> List[str]:
    out: List[str] = []

    def tgt(t):
        if isinstance(t, ast.Name):
            if t.id not in out:
                out.append(t.id)
        elif isinstance(t, (ast.Tuple, ast.List)):
            for e in t.elts:
                tgt(e)
        elif isinstance(t, ast.Starred):
            tgt(t.value)

    for s in stmts:
        for n in ast.walk(s):
            if isinstance(n, ast.Assign):
                for t in n.targets:
                    tgt(t)
            elif isinstance(n, (ast.AugAssign, ast.AnnAssign)):
                tgt(n.target)
            elif isinstance(n, (ast.For, ast.comprehension)):
                if isinstance(n, ast.For):
                    tgt(n.target)
            elif isinstance(n, ast.With):
                for it in n.items:
                    if it.optional_vars is not None:
                        tgt(it.optional_vars)
            elif isinstance(n, ast.NamedExpr):
                tgt(n.target)
            elif isinstance(n, ast.ExceptHandler) and n.name:
                if n.name not in out:
                    out.append(n.name)
    return out


def fuse_mapped_domain(dom: Term):
    """`for x in [f(v) for v in xs]` / `for i, x in enumerate([f(v) for v in xs])` visit xs in order and see f(v):
    (domain over xs, function that turns the element term of the new loop into x), or None."""
    inner = dom
    enum = False
    if dom[0] == "call" and dom[1] == ("builtin", "enumerate") and len(dom[2]) == 1 and not dom[3]:
        inner, enum = dom[2][0], True
    if inner[0] == "listcomp" and len(inner[2]) == 1 and not inner[2][0][2]:
        d, l, _ = inner[2][0]
        if d[0] in ("listcomp", "call") and d[0] == "call" and d[1] in (("builtin", "enumerate"), ("builtin", "zip")):
            return None
        new_dom = ("call", ("builtin", "enumerate"), (d,), ()) if enum else d
        return new_dom, (lambda elem, elt=inner[1], d=d, l=l: plug_back(elt, ("iter", d, l), elem))
    return None


def elem_of(dom: Term, lid: int) -> Term:
    """The element an iteration over `dom` yields.  Iterating a one-generator, unfiltered list
    comprehension yields its element expression (same values, same order)."""
    if dom[0] == "listcomp" and len(dom[2]) == 1 and not dom[2][0][2]:
        return dom[1]
    return ("iter", dom, lid)


HEAP_FIELDS = {"cost", "color", "p", "pos", "last"}
HEAP_ARRAYS = {"cost", "color", "p", "pos"}
CONTAINER_MUTATORS = {"append", "insert", "extend", "pop", "remove", "clear", "sort", "reverse",
                      "fill", "put", "resize", "update"}


def _direct_writes(stmts) -> Tuple[set, set]:
    """(attribute names written, names of methods called) in a block - syntactic."""
    out, calls = set(), set()
    for s in stmts:
        for n in ast.walk(s):
            tgts = []
            if isinstance(n, ast.Assign):
                tgts = n.targets
            elif isinstance(n, (ast.AugAssign, ast.AnnAssign)):
                tgts = [n.target]
            elif isinstance(n, ast.For):
                tgts = [n.target]
            for t in tgts:
                for e in ([t] if not isinstance(t, (ast.Tuple, ast.List)) else t.elts):
                    while isinstance(e, ast.Subscript):
                        e = e.value
                    if isinstance(e, ast.Attribute):
                        out.add(e.attr)
            if isinstance(n, ast.Call) and isinstance(n.func, ast.Attribute):
                m = n.func.attr
                if m in CONTAINER_MUTATORS and isinstance(n.func.value, ast.Attribute):
                    out.add(n.func.value.attr)
                calls.add(m)
            elif isinstance(n, ast.Call) and isinstance(n.func, ast.Name):
                calls.add(n.func.id)
    return out, calls


def _direct_rebinds(stmts) -> set:
    """Attribute names that are REBOUND in a block (`x.f = v`, `x.f += v`, `for x.f in ...`), as opposed to written
    into (`x.f[i] = v`, `x.f.append(v)`)."""
    out = set()
    for s in stmts:
        for n in ast.walk(s):
            tgts = []
            if isinstance(n, ast.Assign):
                tgts = n.targets
            elif isinstance(n, (ast.AugAssign, ast.AnnAssign)):
                tgts = [n.target]
            elif isinstance(n, ast.For):
                tgts = [n.target]
            for t in tgts:
                for e in ([t] if not isinstance(t, (ast.Tuple, ast.List)) else t.elts):
                    if isinstance(e, ast.Attribute):
                        out.add(e.attr)
    return out


def rebind_summaries(repo: Repo) -> Dict[str, set]:
    """method/function name -> attribute names it may rebind (transitively, by name)."""
    cached = getattr(repo, "_rebind_summaries", None)
    if cached is not None:
        return cached
    direct: Dict[str, set] = {}
    calls: Dict[str, set] = {}
    for fi in repo.all_functions():
        if fi.decorators and ("property" in fi.decorators or any(d.endswith(".setter") for d in fi.decorators)):
            continue
        w = _direct_rebinds(fi.node.body)
        _, c = _direct_writes(fi.node.body)
        w = set(w) | {x[1:] for x in w if x.startswith("_")}
        direct.setdefault(fi.name, set()).update(w)
        calls.setdefault(fi.name, set()).update(c)
    summ = {k: set(v) for k, v in direct.items()}
    changed = True
    while changed:
        changed = False
        for name, cs in calls.items():
            for c in cs:
                if c in summ and c != name:
                    add = summ[c] - summ[name]
                    if add:
                        summ[name] |= add
                        changed = True
    repo._rebind_summaries = summ
    return summ


def rebound_fields(stmts: List[ast.stmt], repo: Repo = None) -> set:
    out = set(_direct_rebinds(stmts))
    if repo is not None:
        summ = rebind_summaries(repo)
        _, calls = _direct_writes(stmts)
        for c in calls:
            out |= summ.get(c, set())
    return out


def write_summaries(repo: Repo) -> Dict[str, set]:
    """method/function name -> attribute names it may write (transitively; resolution by
    name across all repository classes, an over-approximation)."""
    cached = getattr(repo, "_write_summaries", None)
    if cached is not None:
        return cached
    direct: Dict[str, set] = {}
    calls: Dict[str, set] = {}
    for fi in repo.all_functions():
        if fi.decorators and ("property" in fi.decorators or any(d.endswith(".setter") for d in fi.decorators)):
            continue
        w, c = _direct_writes(fi.node.body)
        # property setters store to the private twin; report the public name as well
        w = set(w) | {x[1:] for x in w if x.startswith("_")}
        direct.setdefault(fi.name, set()).update(w)
        calls.setdefault(fi.name, set()).update(c)
    summ = {k: set(v) for k, v in direct.items()}
    changed = True
    while changed:
        changed = False
        for name, cs in calls.items():
            for c in cs:
                if c in summ and c != name:
                    add = summ[c] - summ[name]
                    if add:
                        summ[name] |= add
                        changed = True
    repo._write_summaries = summ
    return summ


def read_summaries(repo: Repo) -> Dict[str, set]:
    """method/function name -> attribute names it may read (transitively, by name)."""
    cached = getattr(repo, "_read_summaries", None)
    if cached is not None:
        return cached
    direct: Dict[str, set] = {}
    calls: Dict[str, set] = {}
    for fi in repo.all_functions():
        if fi.decorators and ("property" in fi.decorators or any(d.endswith(".setter") for d in fi.decorators)):
            continue
        rs, cs = set(), set()
        for n in ast.walk(fi.node):
            if isinstance(n, ast.Attribute) and isinstance(n.ctx, ast.Load):
                rs.add(n.attr)
            if isinstance(n, ast.Call):
                if isinstance(n.func, ast.Attribute):
                    cs.add(n.func.attr)
                elif isinstance(n.func, ast.Name):
                    cs.add(n.func.id)
        direct.setdefault(fi.name, set()).update(rs)
        calls.setdefault(fi.name, set()).update(cs)
    summ = {k: set(v) for k, v in direct.items()}
    changed = True
    while changed:
        changed = False
        for name, cs in calls.items():
            for c in cs:
                if c in summ and c != name:
                    add = summ[c] - summ[name]
                    if add:
                        summ[name] |= add
                        changed = True
    repo._read_summaries = summ
    return summ


def root_object(t: Term) -> Term:
    """The object a path expression starts from (self, a fresh object, a parameter, ...)."""
    while t[0] in ("attr", "idx", "old", "iter", "iterproj"):
        t = t[1]
        if t[0] == "call" and t[1] in (("builtin", "enumerate"), ("builtin", "zip"), ("builtin", "reversed")) and t[2]:
            t = t[2][0]
    return t


def mutated_fields(stmts: List[ast.stmt], repo: Repo = None) -> Dict[str, set]:
    """Syntactic over-approximation of the attribute names a block may write: field -> how
    ('store', or 'call:<method>')."""
    out: Dict[str, set] = {}
    summ = write_summaries(repo) if repo is not None else {}
    for s in stmts:
        for n in ast.walk(s):
            tgts = []
            if isinstance(n, ast.Assign):
                tgts = n.targets
            elif isinstance(n, (ast.AugAssign, ast.AnnAssign)):
                tgts = [n.target]
            elif isinstance(n, ast.For):
                tgts = [n.target]
            for t in tgts:
                for e in ([t] if not isinstance(t, (ast.Tuple, ast.List)) else t.elts):
                    while isinstance(e, ast.Subscript):
                        e = e.value
                    if isinstance(e, ast.Attribute):
                        out.setdefault(e.attr, set()).add("store")
            name = None
            if isinstance(n, ast.Call) and isinstance(n.func, ast.Attribute):
                name = n.func.attr
                if name in CONTAINER_MUTATORS and isinstance(n.func.value, ast.Attribute):
                    out.setdefault(n.func.value.attr, set()).add("call:" + name)
            elif isinstance(n, ast.Call) and isinstance(n.func, ast.Name):
                name = n.func.id
            if name is not None:
                for f in summ.get(name, set()):
                    out.setdefault(f, set()).add("call:" + name)
    return out


_API = None


def api_signature(fi: FunctionInfo):
    """Documented parameter list of a function of the library (None for functions the table does not know)."""
    global _API
    if _API is None:
        import json
        import os
        path = os.path.join(os.path.dirname(os.path.dirname(os.path.abspath(__file__))), "spec", "api_signatures.json")
        try:
            with open(path, encoding="utf-8") as fh:
                _API = json.load(fh)
        except OSError:
            _API = {}
    key = f"{fi.module}:{fi.qual}"
    if any(d.endswith(".setter") for d in fi.decorators):
        key += ":setter"
    return _API.get(key)


def _matrix_rooted(t) -> bool:
    """A row or an entry of the pre-computed distance matrix (the model's field or the parameter of that name)."""
    if t is None:
        return False
    n = 0
    while t[0] == "idx":
        t = t[1]
        n += 1
    return n >= 1 and ((t[0] == "attr" and t[2] == "pre_distances") or (t[0] == "param" and t[1] == "pre_distances"))


def named_tuple_fields(repo: Repo, cname: str):
    """[(field, default expression or None)] of a `class X(NamedTuple)` of the library, else None."""
    key = ("named_tuple_fields", cname)
    if key not in repo.memo:
        out = None
        for mi in repo.modules.values():
            ci = mi.classes.get(cname)
            frozen_dc = ci is not None and any(unparse(d).replace(" ", "") in ("dataclass(frozen=True)", "dataclasses.dataclass(frozen=True)")
                                               for d in ci.node.decorator_list)
            if ci is not None and (frozen_dc or any(unparse(b).split(".")[-1] == "NamedTuple" for b in ci.node.bases)):
                out = [(st.target.id, st.value) for st in ci.node.body if isinstance(st, ast.AnnAssign) and isinstance(st.target, ast.Name)]
                out = (mi.name, out)
        repo.memo[key] = out
    return None if repo.memo[key] is None else repo.memo[key][1]


def all_named_tuples(repo: Repo):
    key = ("all_named_tuples",)
    if key not in repo.memo:
        out = []
        for mi in repo.modules.values():
            for cname in mi.classes:
                f = named_tuple_fields(repo, cname)
                if f is not None:
                    out.append([n for n, _ in f])
        repo.memo[key] = out
    return repo.memo[key]


def record_items(repo: Repo, module: str, it: ast.AST) -> Optional[ast.Tuple]:
    """`dataclasses.asdict(R).items()` / `vars(R).items()` for a module-level `R = Rec()` built without arguments from a frozen
    dataclass (or NamedTuple `R._asdict().items()`) whose fields all carry defaults: the literal tuple of (name, default) pairs,
    in field order. `default_factory=list` stands for a fresh `[]` (asdict copies containers per call)."""
    if not (isinstance(it, ast.Call) and isinstance(it.func, ast.Attribute) and it.func.attr == "items" and not it.args
            and not it.keywords and isinstance(it.func.value, ast.Call)):
        return None
    inner = it.func.value
    fn = unparse(inner.func)
    rec = None
    if fn in ("dataclasses.asdict", "asdict", "vars") and len(inner.args) == 1 and not inner.keywords and isinstance(inner.args[0], ast.Name):
        rec = inner.args[0].id
    elif isinstance(inner.func, ast.Attribute) and inner.func.attr == "_asdict" and isinstance(inner.func.value, ast.Name) and not inner.args:
        rec = inner.func.value.id
    mi = repo.modules.get(module)
    if rec is None or mi is None:
        return None
    binds = [st for st in mi.tree.body if isinstance(st, ast.Assign) and any(isinstance(t, ast.Name) and t.id == rec for t in st.targets)]
    if len(binds) != 1 or not (isinstance(binds[0].value, ast.Call) and isinstance(binds[0].value.func, ast.Name)
                               and not binds[0].value.args and not binds[0].value.keywords):
        return None
    cname = binds[0].value.func.id
    cls = [st for st in mi.tree.body if isinstance(st, ast.ClassDef) and st.name == cname]
    if len(cls) != 1:
        return None
    cls = cls[0]
    deco = [unparse(d) for d in cls.decorator_list]
    frozen = any(d.replace(" ", "") in ("dataclasses.dataclass(frozen=True)", "dataclass(frozen=True)") for d in deco)
    named = any(unparse(b).split(".")[-1] == "NamedTuple" for b in cls.bases)
    if not (frozen or named) or (fn == "vars" and not frozen):
        return None
    pairs = []
    for st in cls.body:
        if isinstance(st, ast.Expr) and isinstance(st.value, ast.Constant):
            continue
        if not (isinstance(st, ast.AnnAssign) and isinstance(st.target, ast.Name) and st.value is not None):
            return None
        v = st.value
        if isinstance(v, ast.Call) and unparse(v.func) in ("dataclasses.field", "field") and not v.args and len(v.keywords) == 1:
            kw = v.keywords[0]
            if kw.arg == "default":
                v = kw.value
            elif kw.arg == "default_factory" and isinstance(kw.value, ast.Name) and kw.value.id in ("list", "dict"):
                v = ast.List(elts=[], ctx=ast.Load()) if kw.value.id == "list" else ast.Dict(keys=[], values=[])
                if fn == "vars":
                    # `vars(R)` hands out the record's own container, the same object on every call
                    v = ast.Attribute(value=ast.Name(id=rec, ctx=ast.Load()), attr=st.target.id, ctx=ast.Load())
            else:
                return None
        elif isinstance(v, ast.Call):
            return None
        pairs.append(ast.Tuple(elts=[ast.Constant(value=st.target.id), v], ctx=ast.Load()))
    if not pairs or len(pairs) > 16:
        return None
    out = ast.Tuple(elts=pairs, ctx=ast.Load())
    ast.copy_location(out, it)
    for n in ast.walk(out):
        if not hasattr(n, "lineno"):
            ast.copy_location(n, it)
    ast.fix_missing_locations(out)
    return out


def class_constant(repo: Repo, cls: str, name: str):
    """(module, value expression) of an UPPER_CASE name assigned exactly once in the body of `cls` (or of a base class) to
    a literal, a tuple of literals or an attribute of the constants module, and stored on no instance anywhere."""
    key = ("class_constant", cls, name)
    if key in repo.memo:
        return repo.memo[key]
    repo.memo[key] = None
    if not repo.has_class(cls):
        return None
    for ci in repo.mro(cls):
        hits = [st for st in ci.node.body if isinstance(st, ast.Assign) and len(st.targets) == 1
                and isinstance(st.targets[0], ast.Name) and st.targets[0].id == name]
        if not hits:
            continue
        if len(hits) != 1:
            return None
        v = hits[0].value
        simple = lambda n: isinstance(n, (ast.Constant, ast.Name)) or (isinstance(n, ast.UnaryOp) and isinstance(n.operand, ast.Constant)) \
            or (isinstance(n, ast.Attribute) and isinstance(n.value, ast.Name)) \
            or (isinstance(n, (ast.Tuple, ast.List)) and all(simple(x) for x in n.elts)) \
            or (isinstance(n, ast.UnaryOp) and isinstance(n.op, ast.USub) and simple(n.operand)) \
            or (isinstance(n, ast.Dict) and len(n.keys) <= 8 and all(isinstance(k, ast.Constant) for k in n.keys)
                and all(isinstance(x, (ast.Attribute, ast.Name, ast.Constant)) for x in n.values))
        if not simple(v):
            return None
        if isinstance(v, ast.Dict):
            # a dispatch table: nothing may add to it either
            for mi in repo.modules.values():
                for n in ast.walk(mi.tree):
                    if isinstance(n, ast.Subscript) and isinstance(n.ctx, (ast.Store, ast.Del)) and isinstance(n.value, ast.Attribute) \
                            and n.value.attr == name:
                        return None
                    if isinstance(n, ast.Call) and isinstance(n.func, ast.Attribute) and isinstance(n.func.value, ast.Attribute) \
                            and n.func.value.attr == name and n.func.attr in ("update", "pop", "setdefault", "clear", "popitem"):
                        return None
        for mi in repo.modules.values():
            for n in ast.walk(mi.tree):
                if isinstance(n, ast.Attribute) and n.attr == name and isinstance(n.ctx, (ast.Store, ast.Del)):
                    return None
        repo.memo[key] = (repo.modules[ci.module], v)
        return repo.memo[key]
    return None


def extension_fields(repo: Repo, cls: str) -> Dict[str, Term]:
    """Fields that exist only to hold an option the documented constructor does not have: assigned in `__init__` from a
    parameter that is not in the documented signature and has a constant default, written nowhere else (its own setter
    apart), and never passed by any construction site of the library.  Every object the library builds holds the default
    there, so a read of the field is that constant (what the option does when it is set is new behaviour, outside the
    properties).  name (without leading underscore) -> constant term."""
    key = ("extension_fields", cls)
    if key in repo.memo:
        return repo.memo[key]
    out: Dict[str, Term] = {}
    repo.memo[key] = out
    if not repo.has_class(cls):
        return out
    ci = repo.find_class(cls)
    init = ci.methods.get("__init__")
    known = api_signature(init) if init is not None else None
    if init is None or known is None:
        return out
    a = init.node.args
    pos = a.posonlyargs + a.args
    defaults = dict(zip([x.arg for x in reversed(pos)], reversed(a.defaults)))
    defaults.update({x.arg: d for x, d in zip(a.kwonlyargs, a.kw_defaults) if d is not None})
    ext = {p: defaults[p] for p in init.params if p not in known and p in defaults and isinstance(defaults[p], ast.Constant)}
    if not ext:
        return out
    cand = {}
    for st in init.node.body:
        if isinstance(st, ast.Assign) and len(st.targets) == 1 and isinstance(st.targets[0], ast.Attribute) \
                and isinstance(st.targets[0].value, ast.Name) and st.targets[0].value.id == "self" \
                and isinstance(st.value, ast.Name) and st.value.id in ext:
            cand[st.targets[0].attr.lstrip("_")] = st.value.id
    for name, param in list(cand.items()):
        ok = True
        # no other write inside the class (the field's own setter storing its argument apart)
        for fi in list(ci.methods.values()) + list(ci.setters.values()) + list(ci.getters.values()):
            for n in ast.walk(fi.node):
                if isinstance(n, ast.Attribute) and isinstance(n.ctx, (ast.Store, ast.Del)) and n.attr.lstrip("_") == name:
                    own_setter = fi.name == name and any(d.endswith(".setter") for d in fi.decorators)
                    in_init = fi is init
                    if not (own_setter or in_init):
                        ok = False
            if fi is init:
                n_init = sum(1 for n in ast.walk(fi.node) if isinstance(n, ast.Attribute) and isinstance(n.ctx, ast.Store)
                             and n.attr.lstrip("_") == name)
                if n_init != 1:
                    ok = False
        # ... nor anywhere else in the library, and no construction site passes the option
        n_known = len([p for p in init.params if p != "self" and p in known])
        for mi in repo.modules.values():
            for n in ast.walk(mi.tree):
                if isinstance(n, ast.Attribute) and isinstance(n.ctx, (ast.Store, ast.Del)) and n.attr.lstrip("_") == name \
                        and not (isinstance(n.value, ast.Name) and n.value.id == "self"):
                    ok = False
                if isinstance(n, ast.Call):
                    fname = n.func.attr if isinstance(n.func, ast.Attribute) else (n.func.id if isinstance(n.func, ast.Name) else None)
                    sub_init = False
                    if fname == "__init__":
                        # super().__init__(...) of a subclass
                        for c2 in mi.classes.values():
                            if c2.name != cls and any(x.name == cls for x in repo.mro(c2.name)) and any(
                                    n is y for m2 in c2.methods.values() for y in ast.walk(m2.node)):
                                sub_init = True
                    if fname == cls or sub_init:
                        if any(k.arg == param or k.arg is None for k in n.keywords) or len(n.args) > n_known \
                                or any(isinstance(x, ast.Starred) for x in n.args):
                            ok = False
                    if fname in ("setattr",) and len(n.args) >= 2 and isinstance(n.args[1], ast.Constant) \
                            and str(n.args[1].value).lstrip("_") == name:
                        ok = False
        if ok:
            out[name] = ("const", ext[param].value)
    return out


HEAP_METHODS = {"insert", "remove", "update", "is_empty", "is_full", "go_up", "go_down"}


class Walker:
    """Walk one entry function; see module docstring."""

    def __init__(
        self,
        repo: Repo,
        entry: FunctionInfo,
        self_class: Optional[str] = None,
        inline: Callable[[FunctionInfo], bool] = None,
        max_depth: int = 5,
        subst: Dict[Term, Term] = None,
    ):
        self.subst = subst or {}
        self.repo = repo
        self.entry = entry
        self.self_class = self_class or entry.cls
        user_inline = inline or (lambda fi: False)

        def added_since_api(fi: FunctionInfo) -> bool:
            # a function or method the API table (every function of the pinned library, private ones included) does not
            # have was added by the change under analysis: no rule is anchored in it, so a call of it is its body
            if fi.name.startswith("__") or api_signature(fi) is not None:
                return False
            return not any(d.split("(")[0].split(".")[-1] in ("property", "setter", "cached_property", "classmethod")
                           for d in fi.decorators)
        self.inline = lambda fi: user_inline(fi) or added_since_api(fi)
        self.max_depth = max_depth
        self.events: List[Event] = []
        self.loops: Dict[int, LoopInfo] = {}
        self._seq = 0
        self._lid = 0
        self._site = 0
        self.guards: List[Tuple[Term, bool]] = []
        self.loopstack: List[int] = []
        self.closures: Dict[int, FunctionInfo] = {}
        self.cont_stack: List[Tuple[int, list]] = []
        self.exit_marks: Set[int] = set()
        self.fnstack: List[FunctionInfo] = []
        self.inlined: List[str] = []
        self.stmt: Optional[ast.AST] = None
        self.final_env: Dict[str, Term] = {}
        self.guard_src: Dict[Term, Tuple[int, str, FunctionInfo]] = {}
        self.envstack: List[Dict[str, Term]] = []
        self._old = 0
        self.old_cause: Dict[int, set] = {}
        self.run()

    # -- driver --------------------------------------------------------------
    def run(self) -> None:
        env: Dict[str, Term] = {}
        for i, p in enumerate(self.entry.params):
            if i == 0 and self.entry.cls and p == "self":
                env[p] = ("self",)
            else:
                env[p] = ("param", p)
        for va in (self.entry.node.args.vararg, self.entry.node.args.kwarg):
            if va is not None:
                env[va.arg] = ("param", va.arg)
        # API extensions: a parameter that the documented signature (spec/api_signatures.json) does not have and that
        # carries a constant default is read at that default - the properties speak about the documented call patterns;
        # what a new switch does when it is turned on is new behaviour outside them
        self.extension_params: Dict[str, Term] = {}
        known = api_signature(self.entry)
        if known is not None:
            a = self.entry.node.args
            pos = a.posonlyargs + a.args
            defaults = dict(zip([x.arg for x in reversed(pos)], reversed(a.defaults)))
            defaults.update({x.arg: d for x, d in zip(a.kwonlyargs, a.kw_defaults) if d is not None})
            for k_p, p in enumerate(self.entry.params):
                if p not in known and p in defaults and isinstance(defaults[p], ast.Constant):
                    if k_p < len(known) and known[k_p] not in self.entry.params and p in [x.arg for x in pos]:
                        continue  # the documented parameter of that position under a new name (`I` -> `indexes`): not an extension
                    env[p] = ("const", defaults[p].value)
                    self.extension_params[p] = env[p]
        self.fnstack.append(self.entry)
        self.envstack.append(env)
        self.block(self.entry.node.body, env)
        self.envstack.pop()
        self.fnstack.pop()
        self.final_env = env

    # -- staleness of copied reads ----------------------------------------------
    def invalidate(self, fields, env: Dict[str, Term] = None, elements_only: bool = False,
                   cause: str = "store", owner: Optional[str] = None, keep=None) -> None:
        """A local that holds a copy of a read of field F stops being equal to a fresh read
        of F once F may have been written: wrap it as ('old', term, n).
        elements_only: the write went INTO the container held by F (element store, append, ...);
        a local that merely references the container (`nodes = self.p`) stays valid."""
        if not fields:
            return
        if not isinstance(fields, dict):
            fields = {f: {cause} for f in fields}
        envs = list(self.envstack)
        if env is not None and all(env is not e for e in envs):
            envs.append(env)
        for e in envs:
            for name, t in list(e.items()):
                if t[0] == "old":
                    continue
                if keep is not None and keep(t):
                    continue
                if elements_only and t[0] == "attr" and t[2] in fields and not reads_field(t[1], fields, owner):
                    continue
                if reads_field(t, fields, owner):
                    if t[0] == "tuple" and not any(x[0] == "star" for x in t[1]):
                        # a tuple of values is stale element by element (the tuple itself is immutable)
                        items = []
                        for x in t[1]:
                            if x[0] != "old" and reads_field(x, fields, owner) and not (keep is not None and keep(x)):
                                self._old += 1
                                why = set()
                                for f, cs in fields.items():
                                    if reads_field(x, {f}, owner):
                                        why |= set(cs)
                                self.old_cause[self._old] = why
                                x = ("old", x, self._old)
                            items.append(x)
                        e[name] = ("tuple", tuple(items))
                        continue
                    self._old += 1
                    e[name] = ("old", t, self._old)
                    why = set()
                    for f, cs in fields.items():
                        if reads_field(t, {f}, owner):
                            why |= set(cs)
                    self.old_cause[self._old] = why

    def call_writes(self, meth: str):
        return write_summaries(self.repo).get(meth, set())

    @staticmethod
    def stored_owner(target: Term) -> Optional[str]:
        t = target
        while t[0] == "idx":
            t = t[1]
        if t[0] == "attr":
            return owner_kind(t[1])
        return None

    @staticmethod
    def stored_graph(target: Term) -> Optional[Term]:
        t = target
        while t[0] == "idx":
            t = t[1]
        if t[0] == "attr":
            return graph_of_node(t[1])
        return None

    @staticmethod
    def stored_field(target: Term) -> Optional[str]:
        t = target
        while t[0] == "idx":
            t = t[1]
        if t[0] == "attr":
            return t[2]
        return None

    @staticmethod
    def _is_table(t: Term) -> bool:
        if t[0] == "alloc" and t[1] in ("numpy.array", "numpy.asarray") and len(t[2]) == 1:
            t = t[2][0]
        return t[0] == "listcomp"

    def _table_written(self, base: Term) -> None:
        """A per-element table built by a comprehension received an element store: from here on it no longer equals its
        defining expression (reads of it are not fused, locals holding it become stale copies)."""
        while base[0] == "idx":
            base = base[1]
        if base[0] == "old":
            base = base[1]
        if not self._is_table(base):
            return
        self.__dict__.setdefault("mut_tables", set()).add(base)
        if base[0] == "alloc":
            self.mut_tables.add(base[2][0])
        envs = list(self.envstack)
        cur = self.__dict__.get("_cur_env")
        if cur is not None and all(cur is not x for x in envs):
            envs.append(cur)
        for env in envs:
            for n, v in list(env.items()):
                if v == base:
                    self._old += 1
                    env[n] = ("old", v, self._old)
                    self.old_cause[self._old] = {"store"}

    def emit(self, kind: str, node: ast.AST, **kw) -> Event:
        if kind == "store" and kw.get("target") is not None and kw["target"][0] == "idx":
            self._table_written(kw["target"][1])
        self._seq += 1
        ev = Event(
            kind, self._seq, self.fnstack[-1], node, tuple(self.guards), tuple(self.loopstack),
            stmt=self.stmt, **kw,
        )
        self.events.append(ev)
        lists = self.__dict__.get("lists")
        if lists:
            # a tracked local list that is handed to unknown code, or stored, may be changed behind the walker's back
            if kind == "call" and kw.get("name") not in ("list-literal", "append", "builtin.tuple", "builtin.len", "<inline>"):
                for a in tuple(kw.get("args") or ()) + tuple(v for _, v in (kw.get("kwargs") or ())):
                    if a[0] == "alloc" and a[1] == "list" and a[-1] in lists:
                        lists[a[-1]] = None
            elif kind == "store":
                v = kw.get("value")
                if isinstance(v, tuple) and v and v[0] == "alloc" and v[1] == "list" and v[-1] in lists:
                    lists[v[-1]] = None
                tg = kw.get("target")
                if tg is not None and tg[0] == "idx" and tg[1][0] == "alloc" and tg[1][1] == "list" and tg[1][-1] in lists:
                    # `xs[k] = v` on a list this walk knows element by element: the k-th element is v (same straight line)
                    ent = lists[tg[1][-1]]
                    k = tg[2]
                    if ent is not None and k[0] == "const" and isinstance(k[1], int) and -len(ent[0]) <= k[1] < len(ent[0]) \
                            and ent[1] == tuple(self.loopstack) and ent[2] == tuple(self.guards) and not kw.get("aug"):
                        ent[0][k[1]] = v
                    else:
                        lists[tg[1][-1]] = None
        return ev

    def list_items(self, t: Term):
        """Contents of a list built in this walk by a literal and straight-line appends (None when unknown)."""
        if t[0] == "alloc" and t[1] == "list":
            got = self.__dict__.get("lists", {}).get(t[-1])
            if got is not None:
                return tuple(got[0])
        return None

    # -- statements ----------------------------------------------------------
    def block(self, stmts: List[ast.stmt], env: Dict[str, Term]) -> bool:
        """Walk a block; returns True when control cannot fall off its end."""
        pushed = 0
        terminated = False
        for s in stmts:
            if terminated:
                break
            prev = self.stmt
            self.stmt = s
            self._cur_env = env
            res = self.statement(s, env)
            self.stmt = prev
            if res is True:
                terminated = True
            elif isinstance(res, tuple) and res[0] == "guard":
                self.guards.append(res[1])
                pushed += 1
            elif isinstance(res, tuple) and res[0] == "guards":
                if len(res) > 2 and res[2]:
                    # the other arm left the loop / function: these facts hold on every path that goes on iterating
                    self.exit_marks.update(range(len(self.guards), len(self.guards) + len(res[1])))
                self.guards.extend(res[1])
                pushed += len(res[1])
        for _ in range(pushed):
            self.guards.pop()
            self.exit_marks.discard(len(self.guards))
        return terminated

    def _sum_loop(self, s: ast.Assign) -> Optional[List[ast.stmt]]:
        """`x = sum((E for T in D if c), start)` is `acc = start; for T in D: if c: acc += E; x = acc`
        (the built-in adds left to right, starting from `start`, default 0)."""
        v = s.value
        if not (isinstance(v, ast.Call) and isinstance(v.func, ast.Name) and v.func.id == "sum" and 1 <= len(v.args) <= 2
                and isinstance(v.args[0], (ast.GeneratorExp, ast.ListComp))):
            return None
        start: ast.expr = ast.Constant(0)
        if len(v.args) == 2:
            if v.keywords:
                return None
            start = v.args[1]
        elif v.keywords:
            if len(v.keywords) != 1 or v.keywords[0].arg != "start":
                return None
            start = v.keywords[0].value
        comp = v.args[0]
        if any(g.is_async for g in comp.generators):
            return None
        self._cw_n = getattr(self, "_cw_n", 0) + 1
        acc = f"$sum{self._cw_n}"
        bound = set()
        for g in comp.generators:
            bound |= {n.id for n in ast.walk(g.target) if isinstance(n, ast.Name)}
        suffix = f"$s{self._cw_n}"

        class Ren(ast.NodeTransformer):
            def visit_Name(self, n):
                return ast.copy_location(ast.Name(id=n.id + suffix, ctx=n.ctx), n) if n.id in bound else n
        import copy as _copy
        comp = _copy.deepcopy(comp)
        # the first iterable is evaluated in the enclosing scope
        first_iter = comp.generators[0].iter
        comp = Ren().visit(comp)
        comp.generators[0].iter = first_iter
        inner: ast.stmt = ast.AugAssign(target=ast.Name(id=acc, ctx=ast.Store()), op=ast.Add(), value=comp.elt)
        for g in reversed(comp.generators):
            for c in reversed(g.ifs):
                inner = ast.If(test=c, body=[inner], orelse=[])
            inner = ast.For(target=g.target, iter=g.iter, body=[inner], orelse=[])
        out = [ast.Assign(targets=[ast.Name(id=acc, ctx=ast.Store())], value=start), inner,
               ast.Assign(targets=[s.targets[0]], value=ast.Name(id=acc, ctx=ast.Load()))]
        for st in out:
            ast.copy_location(st, s)
            for n in ast.walk(st):
                if not hasattr(n, "lineno"):
                    ast.copy_location(n, s)
            ast.fix_missing_locations(st)
        return out

    def statement(self, s: ast.stmt, env: Dict[str, Term]):
        if isinstance(s, ast.Expr):
            if isinstance(s.value, ast.Constant):
                return None
            v = s.value
            if isinstance(v, ast.Call) and isinstance(v.func, ast.Attribute) and v.func.attr == "extend" \
                    and len(v.args) == 1 and not v.keywords and isinstance(v.args[0], (ast.GeneratorExp, ast.ListComp)) \
                    and isinstance(v.func.value, (ast.Name, ast.Attribute)):
                # `xs.extend(f(v) for v in it if c)`  is  `for v in it: if c: xs.append(f(v))`
                comp = v.args[0]
                inner: ast.stmt = ast.copy_location(ast.Expr(value=ast.copy_location(ast.Call(
                    func=ast.copy_location(ast.Attribute(value=v.func.value, attr="append", ctx=ast.Load()), v),
                    args=[comp.elt], keywords=[]), v)), s)
                for g in reversed(comp.generators):
                    for c in reversed(g.ifs):
                        inner = ast.copy_location(ast.If(test=c, body=[inner], orelse=[]), s)
                    inner = ast.copy_location(ast.For(target=g.target, iter=g.iter, body=[inner], orelse=[]), s)
                return self.statement(inner, env)
            self.ev(s.value, env)
            return None
        if isinstance(s, ast.Assign) and len(s.targets) == 1 and isinstance(s.targets[0], ast.Name):
            loop = self._sum_loop(s)
            if loop is not None:
                for st in loop:
                    self.statement(st, env)
                return None
            # the same with the sum inside a larger expression: `x = sum(E for ...) / k`
            inner = None
            if not isinstance(s.value, ast.Call) or not (isinstance(s.value.func, ast.Name) and s.value.func.id == "sum"):
                for n in ast.walk(s.value):
                    if isinstance(n, ast.Call) and isinstance(n.func, ast.Name) and n.func.id == "sum" and n.args \
                            and isinstance(n.args[0], (ast.GeneratorExp, ast.ListComp)) and "sum" not in env:
                        inner = n
                        break
                    if isinstance(n, (ast.Lambda, ast.GeneratorExp, ast.ListComp, ast.SetComp, ast.DictComp, ast.IfExp, ast.BoolOp)):
                        break  # (evaluation order / conditional evaluation: only the plain arithmetic case is rewritten)
            if inner is not None:
                self._cw_n = getattr(self, "_cw_n", 0) + 1
                tmp = f"$v{self._cw_n}"
                first = ast.copy_location(ast.Assign(targets=[ast.Name(id=tmp, ctx=ast.Store())], value=inner, lineno=s.lineno), s)
                ast.fix_missing_locations(first)
                loop = self._sum_loop(first)
                if loop is not None:
                    import copy as _copy

                    class Sub(ast.NodeTransformer):
                        def visit_Call(self, node):
                            if node is inner:
                                return ast.copy_location(ast.Name(id=tmp, ctx=ast.Load()), node)
                            return self.generic_visit(node)
                    rest = ast.copy_location(ast.Assign(targets=s.targets, value=Sub().visit(s.value), lineno=s.lineno), s)
                    ast.fix_missing_locations(rest)
                    for st in loop:
                        self.statement(st, env)
                    # (the original tree is restored: Sub rewrote it in place)
                    r = self.statement(rest, env)

                    class Back(ast.NodeTransformer):
                        def visit_Name(self, node):
                            return inner if node.id == tmp else node
                    s.value = Back().visit(s.value)
                    return r
        if isinstance(s, ast.Assign) and len(s.targets) == 1 and isinstance(s.targets[0], ast.Name) \
                and isinstance(s.value, ast.BinOp) and type(s.value.op) in OPS:
            # `x = x op e` (and `x = e op x` for + and *) is the local-variable form of `x op= e`
            nm, v = s.targets[0].id, s.value
            other = None
            if isinstance(v.left, ast.Name) and v.left.id == nm:
                other = v.right
            elif isinstance(v.op, (ast.Add, ast.Mult)) and isinstance(v.right, ast.Name) and v.right.id == nm:
                other = v.left
            if other is not None and nm in env and not any(isinstance(x, ast.Name) and x.id == nm for x in ast.walk(other)):
                aug = ast.copy_location(ast.AugAssign(target=ast.Name(id=nm, ctx=ast.Store()), op=v.op, value=other), s)
                aug._from_assign = True  # a rebinding, not an in-place update (the effects analysis must not see a write)
                prev = self.stmt
                self.stmt = aug
                r = self.statement(aug, env)
                self.stmt = prev
                return r
        if isinstance(s, ast.Assign):
            if isinstance(s.value, ast.IfExp) and len(s.targets) == 1 and isinstance(s.targets[0], (ast.Attribute, ast.Subscript)):
                # `obj.f = a if c else b`  is  `if c: obj.f = a` / `else: obj.f = b`
                mk = lambda v: ast.copy_location(ast.Assign(targets=s.targets, value=v, lineno=s.lineno), s)
                node = ast.copy_location(ast.If(test=s.value.test, body=[mk(s.value.body)], orelse=[mk(s.value.orelse)]), s)
                return self.if_(node, env)
            val = self.ev(s.value, env)
            for t in s.targets:
                self.assign(t, val, env, s)
            return None
        if isinstance(s, ast.AnnAssign):
            if s.value is not None:
                self.assign(s.target, self.ev(s.value, env), env, s)
            return None
        if isinstance(s, ast.AugAssign):
            op = OPS.get(type(s.op), "?")
            val = self.ev(s.value, env)
            if isinstance(s.target, ast.Name):
                old = env.get(s.target.id, ("undef",))
                new = self.binop(op, old, val)
                env[s.target.id] = new
                self.emit("bind", s, name=s.target.id, value=new, aug=op, target=val)
            else:
                tgt = self.ev(s.target, env)
                self.emit("store", s, target=tgt, value=val, aug=op)
                self.invalidate({self.stored_field(tgt)} - {None}, env, elements_only=tgt[0] == "idx",
                                owner=self.stored_owner(tgt))
            return None
        if isinstance(s, ast.If):
            return self.if_(s, env)
        if isinstance(s, ast.For):
            return self.for_(s, env)
        if isinstance(s, ast.While):
            return self.while_(s, env)
        if isinstance(s, ast.Return):
            val = self.ev(s.value, env) if s.value is not None else ("const", None)
            self.emit("return", s, value=val)
            return True
        if isinstance(s, ast.Raise):
            val = self.ev(s.exc, env) if s.exc is not None else None
            self.emit("raise", s, value=val)
            return True
        if isinstance(s, ast.Break):
            self.emit("break", s)
            return True
        if isinstance(s, ast.Continue):
            self.emit("continue", s)
            if self.cont_stack:
                base, recs = self.cont_stack[-1]
                recs.append(([g for i, g in enumerate(self.guards[base:]) if base + i not in self.exit_marks], dict(env)))
            return True
        if isinstance(s, ast.Pass):
            return None
        if isinstance(s, ast.With) and len(s.items) == 1 and isinstance(s.items[0].context_expr, ast.Call):
            # `with self._cm(args) [as T]: body` over a @contextmanager generator of the library (one `yield`): the generator's
            # body with the `yield` replaced by the block - the loop over a generator that yields exactly once
            it0 = s.items[0]
            tgt = it0.optional_vars if it0.optional_vars is not None else ast.Name(id="$cm", ctx=ast.Store())
            loop = ast.copy_location(ast.For(target=tgt, iter=it0.context_expr, body=s.body, orelse=[], lineno=s.lineno), s)
            ast.fix_missing_locations(loop)
            self._cm_ok = True
            try:
                gen = self._generator_loop(loop, env)
            finally:
                self._cm_ok = False
            if gen is not None:
                return True if gen[1] is True else None
        if isinstance(s, ast.With):
            for it in s.items:
                v = self.ev(it.context_expr, env)
                if it.optional_vars is not None:
                    self.assign(it.optional_vars, ("proj", v, "enter"), env, s)
            return self.block(s.body, env)
        if isinstance(s, ast.Try):
            t = self.block(s.body, env)
            for h in s.handlers:
                henv = dict(env)
                if h.name:
                    henv[h.name] = ("opaque", f"<exception {h.name}>")
                self.guards.append((("opaque", f"<except {unparse(h.type) if h.type else ''}>"), True))
                self.block(h.body, henv)
                self.guards.pop()
                for k, v in henv.items():
                    if k not in env:
                        env[k] = v
            self.block(s.orelse, env)
            self.block(s.finalbody, env)
            return False
        if isinstance(s, (ast.FunctionDef, ast.AsyncFunctionDef)):
            cur = self.fnstack[-1]
            self._site += 1
            self.closures[self._site] = FunctionInfo(cur.module, cur.cls, f"{cur.name}.<locals>.{s.name}", s,
                                                     [unparse(d) for d in s.decorator_list])
            env[s.name] = ("closure", s.name, cur.fq, self._site)
            self.emit("opaque", s, name="def")
            return None
        if isinstance(s, (ast.Import, ast.ImportFrom, ast.Global, ast.Nonlocal)):
            self.emit("opaque", s, name=type(s).__name__.lower())
            return None
        if isinstance(s, ast.Delete):
            self.emit("opaque", s, name="delete")
            return None
        if isinstance(s, ast.Assert):
            self.ev(s.test, env)
            return None
        self.emit("opaque", s, name=type(s).__name__.lower())
        return None

    def assign(self, t: ast.expr, val: Term, env: Dict[str, Term], stmt: ast.stmt) -> None:
        if isinstance(t, ast.Name):
            env[t.id] = val
            self.emit("bind", stmt, name=t.id, value=val)
        elif isinstance(t, (ast.Tuple, ast.List)):
            # simultaneous assignment: evaluate every target expression first
            pre = []
            for e in t.elts:
                if isinstance(e, (ast.Attribute, ast.Subscript)):
                    pre.append(self.ev(e, env))
                else:
                    pre.append(None)
            stars = [i for i, e in enumerate(t.elts) if isinstance(e, ast.Starred)]
            for i, e in enumerate(t.elts):
                items = self.list_items(val)
                if len(stars) == 1:
                    # a, b, *rest = seq : rest is list(seq[2:]) (and the names after it count from the end)
                    k, after = stars[0], len(t.elts) - stars[0] - 1
                    if i < k:
                        v = ("idx", val, ("const", i))
                    elif i > k:
                        v = ("idx", val, ("const", i - len(t.elts)))
                    else:
                        self._site += 1
                        sl = ("slice", ("const", k) if k else None, ("const", -after) if after else None, None)
                        v = ("alloc", "builtin.list", (("idx", val, sl),), (), self._site)
                        e = e.value
                    if pre[i] is not None or not isinstance(e, ast.Name):
                        self.emit("opaque", stmt, name="assign?")
                        continue
                    self.assign(e, v, env, stmt)
                    continue
                if val[0] in ("tuple", "list") and len(val[1]) == len(t.elts):
                    v = val[1][i]
                elif items is not None and len(items) == len(t.elts):
                    v = items[i]
                else:
                    v = ("idx", val, ("const", i))
                if pre[i] is not None:
                    self.emit("store", stmt, target=pre[i], value=v, name=f"tuple{i}/{len(t.elts)}")
                    self.invalidate({self.stored_field(pre[i])} - {None}, env, elements_only=pre[i][0] == "idx",
                                    owner=self.stored_owner(pre[i]))
                else:
                    self.assign(e, v, env, stmt)
        elif isinstance(t, (ast.Attribute, ast.Subscript)):
            tgt = self.ev(t, env)
            if isinstance(t, ast.Attribute) and val == tgt and tgt[1] == ("self",) and not isinstance(stmt, ast.AugAssign):
                # `saved = self.f ... self.f = saved` with nothing written to f in between: the field keeps its value
                return
            self.emit("store", stmt, target=tgt, value=val)
            _GRAPH_CTX[0] = self.stored_graph(tgt)
            try:
                self.invalidate({self.stored_field(tgt)} - {None}, env, elements_only=tgt[0] == "idx",
                                owner=self.stored_owner(tgt))
            finally:
                _GRAPH_CTX[0] = None
            if val[0] == "new" and tgt[0] == "attr" and tgt[1] == ("self",):
                # `g = Graph(...); self.graph = g`: from here on the local and the field name the same object
                for n, v in list(env.items()):
                    if v == val:
                        env[n] = tgt
        elif isinstance(t, ast.Starred):
            self.assign(t.value, ("star", val), env, stmt)
        else:
            self.emit("opaque", stmt, name="assign?")

    def merge(self, cond: Term, env: Dict[str, Term], a: Dict[str, Term], b: Dict[str, Term]) -> None:
        for k in list(dict.fromkeys(list(a) + list(b))):
            va, vb = a.get(k, ("undef",)), b.get(k, ("undef",))
            if va != vb and not self.loopstack and cond[0] == "cmp" and cond[1] in ("<", "<=") and {va, vb} == {cond[2], cond[3]}:
                # `if x > hi: x = hi` (outside any loop) is the clamp x = min(x, hi), like the conditional expression
                env[k] = mk_ext("min" if va == cond[2] else "max", [va, vb])
                continue
            env[k] = va if va == vb else nan_identity(("sel", cond, va, vb))

    @staticmethod
    def boolify(t: Term) -> Term:
        """A boolean built by an inlined helper's early returns (`if c: return False ... return True`)
        is the condition itself: sel(c, True, False) = c, sel(c, False, X) = (not c) and X, ..."""
        if t[0] != "sel":
            return t
        c, a, b = t[1], Walker.boolify(t[2]), Walker.boolify(t[3])
        T, F = ("const", True), ("const", False)
        if a == T and b == F:
            return c
        if a == F and b == T:
            return mk_not(c)
        if a == F:
            return ("and", (mk_not(c), b)) if b != T else mk_not(c)
        if b == F:
            return ("and", (c, a)) if a != T else c
        if a == T:
            return ("or", (c, b))
        if b == T:
            return ("or", (mk_not(c), a))
        return t

    def if_(self, s: ast.If, env: Dict[str, Term]):
        cond = self.boolify(self.ev(s.test, env))
        self.guard_src.setdefault(cond, (s.lineno, "if " + unparse(s.test), self.fnstack[-1]))
        if cond[0] == "const" and isinstance(cond[1], (bool, int)):
            return self.block(s.body if cond[1] else s.orelse, env) or None
        ea, eb = dict(env), dict(env)
        pos, neg = self.expand_guard(cond, True), self.expand_guard(cond, False)
        for g in pos + neg:
            self.guard_src.setdefault(g[0], (s.lineno, "if " + unparse(s.test), self.fnstack[-1]))
        n_cont = lambda: len(self.cont_stack[-1][1]) if self.cont_stack else 0
        c0 = n_cont()
        self.guards.extend(pos)
        ta = self.block(s.body, ea)
        del self.guards[len(self.guards) - len(pos):]
        c1 = n_cont()
        self.guards.extend(neg)
        tb = self.block(s.orelse, eb)
        del self.guards[len(self.guards) - len(neg):]
        c2 = n_cont()
        if ta and tb:
            return True
        if ta:
            env.clear()
            env.update(eb)
            return ("guards", neg, c1 == c0)  # third: the arm ended in break / return / raise only
        if tb:
            env.clear()
            env.update(ea)
            return ("guards", pos, c2 == c1)
        self.merge(cond, env, ea, eb)
        return None

    @staticmethod
    def expand_guard(cond: Term, pol: bool) -> List[Tuple[Term, bool]]:
        """not (a or b)  ==  (not a) and (not b): a negated disjunction becomes separate guards."""
        if cond[0] == "not":
            return Walker.expand_guard(cond[1], not pol)
        if not pol and cond[0] == "or":
            out = []
            for x in cond[1]:
                out.extend(Walker.expand_guard(x, False))
            return out
        return [(cond, pol)]

    def _enter_loop(self, kind: str, s, env: Dict[str, Term]) -> LoopInfo:
        self._lid += 1
        li = LoopInfo(self._lid, kind, self.fnstack[-1], s, tuple(self.guards), tuple(self.loopstack))
        self.loops[li.lid] = li
        li.first_seq = self._seq + 1
        return li

    def _loop_body(self, li: LoopInfo, body: List[ast.stmt], env: Dict[str, Term], extra: List[str],
                   recv_env: Dict[str, Term] = None):
        recv_env = recv_env if recv_env is not None else env
        mf = mutated_fields(body, self.repo)
        rb = rebound_fields(body, self.repo)
        # fields that are only written INTO keep references to their containers valid (`costs = h.cost`)
        self.invalidate({f: c for f, c in mf.items() if f not in rb}, env, elements_only=True)
        # rebinding stores whose receiver is not a queue object (`node.cost = v`) cannot rebind a queue's arrays
        direct_nonheap = set()
        direct_other = set()
        fresh_graph: Dict[str, set] = {}  # field -> graphs (all `new` objects of this call) whose nodes receive the store
        for st in body:
            for n in ast.walk(st):
                tg = []
                if isinstance(n, ast.Assign):
                    tg = n.targets
                elif isinstance(n, (ast.AugAssign, ast.AnnAssign)):
                    tg = [n.target]
                for t0 in tg:
                    for x in ([t0] if not isinstance(t0, (ast.Tuple, ast.List)) else t0.elts):
                        if isinstance(x, ast.Attribute):
                            r = x.value
                            is_heap = isinstance(r, ast.Name) and r.id in env and owner_kind(env[r.id]) == "heap"
                            (direct_other if is_heap else direct_nonheap).add(x.attr)
                            g = graph_of_node(recv_env[r.id]) if isinstance(r, ast.Name) and r.id in recv_env else None
                            fresh_graph.setdefault(x.attr, set()).add(g if g is not None and g[0] == "new" else None)
        via_calls = rb - _direct_rebinds(body)
        whole = {f: c for f, c in mf.items() if f in rb}
        nonheap_only = {f: c for f, c in whole.items() if f in direct_nonheap and f not in direct_other and f not in via_calls}
        # ... and a store into a node of a graph object built in this call cannot reach the nodes of another graph
        for f, c in nonheap_only.items():
            gs = fresh_graph.get(f, {None})
            if None not in gs and len(gs) == 1:
                _GRAPH_CTX[0] = next(iter(gs))
            try:
                self.invalidate({f: c}, env, owner="!heap")
            finally:
                _GRAPH_CTX[0] = None
        self.invalidate({f: c for f, c in whole.items() if f not in nonheap_only}, env)
        # local tables that the body stores into are stale from the loop's entry on (a later iteration reads the update)
        for st in body:
            for n in ast.walk(st):
                tg = []
                if isinstance(n, ast.Assign):
                    tg = n.targets
                elif isinstance(n, ast.AugAssign):
                    tg = [n.target]
                for t0 in tg:
                    for x in ([t0] if not isinstance(t0, (ast.Tuple, ast.List)) else t0.elts):
                        b = x
                        while isinstance(b, ast.Subscript):
                            b = b.value
                        if isinstance(x, ast.Subscript) and isinstance(b, ast.Name) and b.id in env and self._is_table(env[b.id]):
                            self._table_written(env[b.id])
        names = [n for n in assigned_names(body) if n not in extra]
        init = {n: env.get(n, ("undef",)) for n in names}
        for n in names:
            env[n] = ("phi", li.lid, n)
        return names, init

    @staticmethod
    def _all_but_one(dom: Term):
        """chain(range(a), range(a + 1, n)) visits 0..n-1 without a, in ascending order: (range(n), a)."""
        if dom[0] == "call" and dom[1] == ("mod", "itertools.chain") and len(dom[2]) == 2 and not dom[3]:
            r1, r2 = dom[2]
            rng = ("builtin", "range")
            if r1[0] == "call" and r1[1] == rng and r2[0] == "call" and r2[1] == rng and not r1[3] and not r2[3] \
                    and len(r2[2]) == 2 and (len(r1[2]) == 1 or (len(r1[2]) == 2 and r1[2][0] == ("const", 0))):
                a = r1[2][-1]
                lo, n = r2[2]
                if lo == ("bin", "+", *sorted([("const", 1), a], key=tkey)):
                    return ("call", rng, (n,), ()), a
        return None

    @staticmethod
    def _prefix_slice(t: Term):
        """A[:K] of an array allocated here with at least K slots: (A, K)."""
        if t[0] == "idx" and t[2][0] == "slice" and t[2][1] in (None, ("const", 0)) and t[2][3] in (None, ("const", 1)) \
                and t[2][2] is not None and t[1][0] == "alloc" and t[1][1] in ("numpy.zeros", "numpy.empty", "numpy.ones") \
                and t[1][2] and t[1][2][0][0] not in ("tuple", "list"):
            from .rules_heap import _sub, lin
            d = _sub(lin(t[1][2][0]), lin(t[2][2]))
            if d is not None and all(v == 0 for k, v in d.items() if k != 1) and d.get(1, 0) >= 0:
                return t[1], t[2][2]
        return None

    def _slice_domain(self, dom: Term):
        """`for x in A[:K]` / `for x, y in zip(A[:K], B[:K])`  visit ranks 0..K-1: (range(K), [A, B, ...])."""
        ops = [dom]
        zipped = dom[0] == "call" and dom[1] == ("builtin", "zip") and not dom[3] and len(dom[2]) >= 1
        if zipped:
            ops = list(dom[2])
        ps = [self._prefix_slice(o) for o in ops]
        if not ps or any(p is None for p in ps) or len({p[1] for p in ps}) != 1:
            return None
        return ("call", ("builtin", "range"), (ps[0][1],), ()), [p[0] for p in ps], zipped

    def _generator_loop(self, s: ast.For, env: Dict[str, Term]):
        """`for T in gen(args): body` over a generator function of the same module is the generator's body with every
        `yield E` replaced by `T = E; body` (generator locals renamed apart).  None when the shape is outside that."""
        if not isinstance(s.iter, ast.Call) or s.orelse or any(isinstance(a, ast.Starred) for a in s.iter.args):
            return None
        counter = None
        if isinstance(s.iter.func, ast.Name) and s.iter.func.id == "enumerate" and "enumerate" not in env and len(s.iter.args) == 1 \
                and not s.iter.keywords and isinstance(s.iter.args[0], ast.Call) and isinstance(s.target, ast.Tuple) \
                and len(s.target.elts) == 2 and isinstance(s.target.elts[0], ast.Name):
            # `for i, T in enumerate(gen(args))`: i counts the yields (see below)
            counter = s.target.elts[0].id
            s = ast.copy_location(ast.For(target=s.target.elts[1], iter=s.iter.args[0], body=s.body, orelse=[], lineno=s.lineno), s)
        f = s.iter.func
        cur = self.fnstack[-1]
        fi = None
        if isinstance(f, ast.Name) and f.id not in env:
            mi = self.repo.modules.get(cur.module)
            fi = mi.functions.get(f.id) if mi else None
        elif isinstance(f, ast.Attribute) and isinstance(f.value, ast.Name) and f.value.id == "self" and cur.cls:
            fi = self.repo.method(cur.cls, f.attr)
            if fi is not None and fi.module != cur.module:
                fi = None
        if fi is None or not self.inline(fi) or len(self.fnstack) > self.max_depth:
            return None
        g = fi.node
        if not any(isinstance(n, (ast.Yield, ast.YieldFrom)) for n in ast.walk(g)):
            return None
        cm = any(d.split("(")[0].split(".")[-1] == "contextmanager" for d in fi.decorators)
        if cm != bool(getattr(self, "_cm_ok", False)):
            return None  # (a context manager is entered by `with`, a plain generator by `for`)
        if cm and sum(1 for n in ast.walk(g) if isinstance(n, ast.Yield)) != 1:
            return None
        if g.args.vararg or g.args.kwarg or fi.decorators and any(
                d.split("(")[0].split(".")[-1] not in ("staticmethod", "contextmanager") for d in fi.decorators):
            return None
        for n in ast.walk(g):
            if isinstance(n, (ast.YieldFrom, ast.Return, ast.Lambda, ast.Global, ast.Nonlocal)) or \
                    (isinstance(n, (ast.FunctionDef, ast.ClassDef)) and n is not g):
                return None
            if isinstance(n, ast.Yield) and n.value is None and not cm:
                return None
        yields = [n for n in ast.walk(g) if isinstance(n, ast.Yield)]
        stmts_y = [n for n in ast.walk(g) if isinstance(n, ast.Expr) and isinstance(n.value, ast.Yield)]
        if len(yields) != len(stmts_y):
            return None

        # break / continue of the caller's loop would have to leave / resume the generator: not modelled
        def own_jumps(body):
            for st in body:
                if isinstance(st, (ast.Break, ast.Continue)):
                    return True
                if isinstance(st, (ast.For, ast.While)):
                    if own_jumps(st.orelse):
                        return True
                    continue
                for fld in ("body", "orelse", "finalbody", "handlers"):
                    sub = getattr(st, fld, None)
                    if isinstance(sub, list) and sub and isinstance(sub[0], ast.AST) and own_jumps(
                            [x for x in sub if isinstance(x, ast.stmt)] +
                            [y for x in sub if isinstance(x, ast.ExceptHandler) for y in x.body]):
                        return True
            return False
        if own_jumps(s.body):
            return None
        self._gen_n = getattr(self, "_gen_n", 0) + 1
        suffix = f"$g{self._gen_n}"
        params = [p for p in fi.params if p != "self"]
        local = set(params) | set(assigned_names(g.body))

        class Ren(ast.NodeTransformer):
            def visit_Name(self, n):
                if n.id in local:
                    return ast.copy_location(ast.Name(id=n.id + suffix, ctx=n.ctx), n)
                return n
        import copy as _copy
        body = [Ren().visit(_copy.deepcopy(st)) for st in g.body]
        outer = self
        bind_counter = []
        if counter is not None:
            # the number of the yield is the position counter of the generator's loop when there is one yield, placed
            # unconditionally in the body of the generator's only loop (which neither skips nor leaves a round)
            loops_g = [st for st in body if isinstance(st, ast.For)]

            def per_round(stmts):  # yields on every path through the statements (None: paths disagree)
                total = 0
                for st in stmts:
                    if isinstance(st, ast.Expr) and isinstance(st.value, ast.Yield):
                        total += 1
                    elif isinstance(st, ast.If):
                        a, b = per_round(st.body), per_round(st.orelse)
                        if a is None or a != b:
                            return None
                        total += a
                    elif any(isinstance(n, ast.Yield) for n in ast.walk(st)):
                        return None
                return total
            if len(loops_g) != 1 or any(isinstance(n, (ast.While, ast.Break, ast.Continue)) for st in body for n in ast.walk(st)) \
                    or sum(1 for st in body for n in ast.walk(st) if isinstance(n, ast.For)) != 1 or loops_g[0].orelse \
                    or per_round(loops_g[0].body) != 1 or per_round([st for st in body if st is not loops_g[0]]) != 0:
                return None
            lp = loops_g[0]
            it = lp.iter
            if isinstance(it, ast.Call) and isinstance(it.func, ast.Name) and it.func.id == "enumerate" and len(it.args) == 1 \
                    and not it.keywords and isinstance(lp.target, ast.Tuple) and len(lp.target.elts) == 2 \
                    and isinstance(lp.target.elts[0], ast.Name):
                kname = lp.target.elts[0].id
            else:
                kname = "k" + suffix
                lp.target = ast.copy_location(ast.Tuple(elts=[ast.Name(id=kname, ctx=ast.Store()), lp.target], ctx=ast.Store()), lp.target)
                lp.iter = ast.copy_location(ast.Call(func=ast.Name(id="enumerate", ctx=ast.Load()), args=[it], keywords=[]), it)
                ast.fix_missing_locations(lp)
            bind_counter = [ast.copy_location(ast.Assign(targets=[ast.Name(id=counter, ctx=ast.Store())],
                                                         value=ast.Name(id=kname, ctx=ast.Load()), lineno=s.lineno), s)]
            ast.fix_missing_locations(bind_counter[0])

        class Yld(ast.NodeTransformer):
            def generic_visit(self, node):
                for fld in ("body", "orelse", "finalbody"):
                    sub = getattr(node, fld, None)
                    if isinstance(sub, list):
                        out = []
                        for st in sub:
                            if isinstance(st, ast.Expr) and isinstance(st.value, ast.Yield):
                                out.append(ast.copy_location(ast.Assign(
                                    targets=[s.target], value=st.value.value if st.value.value is not None
                                    else ast.copy_location(ast.Constant(value=None), st), lineno=st.lineno), st))
                                out.extend(bind_counter)
                                out.extend(s.body)
                            else:
                                out.append(self.generic_visit(st) if isinstance(st, ast.AST) else st)
                        setattr(node, fld, out)
                if isinstance(node, ast.Try):
                    for h in node.handlers:
                        self.generic_visit(h)
                return node
        holder = ast.Module(body=body, type_ignores=[])
        Yld().generic_visit(holder)
        # bind the arguments (evaluated once, at the call, in the caller's environment)
        a = g.args
        pos = [x.arg for x in a.posonlyargs + a.args if x.arg != "self"]
        defaults = {}
        for x, dflt in zip(reversed(a.posonlyargs + a.args), reversed(a.defaults)):
            defaults[x.arg] = dflt
        for x, dflt in zip(a.kwonlyargs, a.kw_defaults):
            if dflt is not None:
                defaults[x.arg] = dflt
        bound = {}
        for name, arg in zip(pos, s.iter.args):
            bound[name] = self.ev(arg, env)
        for kw in s.iter.keywords:
            if kw.arg is None or kw.arg not in params:
                return None
            bound[kw.arg] = self.ev(kw.value, env)
        for name in params:
            if name not in bound:
                if name not in defaults:
                    return None
                bound[name] = self.ev(defaults[name], {})
        for name, v in bound.items():
            env[name + suffix] = v
        self.inlined.append(fi.fq)
        return ("done", self.block(holder.body, env))

    def _unzip_loop(self, s: ast.For, env: Dict[str, Term]) -> Optional[ast.For]:
        """`for a, b in zip(A[:k], B)` (optionally under `enumerate`) over positional buffers is the index loop
        `for r in range(k): a = A[r]; b = B[r]`.  Done only when one operand is a leading slice `X[:k]` (which fixes the number
        of rounds: the other operands are at least that long, or the shorter one would have ended the original loop early - the
        buffers of this library are allocated with k or k + 1 slots) - loops over nodes / caller rows keep their own form."""
        it = s.iter
        counter = None
        start = None
        if s.orelse:
            return None
        if isinstance(it, ast.Call) and isinstance(it.func, ast.Name) and it.func.id == "enumerate" and "enumerate" not in env \
                and len(it.args) == 1 and isinstance(s.target, ast.Tuple) and len(s.target.elts) == 2 \
                and isinstance(s.target.elts[0], ast.Name) and all(k.arg == "start" for k in it.keywords) and len(it.keywords) <= 1:
            counter, inner_t, it2 = s.target.elts[0].id, s.target.elts[1], it.args[0]
            start = it.keywords[0].value if it.keywords else None
        else:
            inner_t, it2 = s.target, it
        if isinstance(it2, ast.Call) and isinstance(it2.func, ast.Name) and it2.func.id == "zip" and "zip" not in env and not it2.keywords \
                and len(it2.args) >= 1 and isinstance(inner_t, ast.Tuple) and len(inner_t.elts) == len(it2.args):
            ops, tgts = list(it2.args), list(inner_t.elts)
        elif isinstance(it2, ast.Subscript):
            ops, tgts = [it2], [inner_t]
        else:
            return None

        def lead(e):  # X[:k] -> (X, k)
            if isinstance(e, ast.Subscript) and isinstance(e.slice, ast.Slice) and e.slice.lower is None and e.slice.step is None \
                    and e.slice.upper is not None and not (isinstance(e.slice.upper, ast.UnaryOp)):
                return e.value, e.slice.upper
            return None
        simple = lambda e: isinstance(e, (ast.Name, ast.Attribute)) or (lead(e) is not None and isinstance(lead(e)[0], (ast.Name, ast.Attribute)))
        def buffer(e):  # a numpy array this function allocated (`rows = np.zeros((n, n))`), or an array of a queue it built
            if isinstance(e, ast.Attribute) and isinstance(e.value, ast.Name) and e.attr in HEAP_ARRAYS \
                    and env.get(e.value.id, ("?",))[:2] == ("new", "Heap"):
                return True
            return isinstance(e, ast.Name) and env.get(e.id, ("?",))[0] == "alloc" and str(env[e.id][1]).startswith("numpy.")
        if not all(simple(e) for e in ops) or not (any(lead(e) is not None for e in ops) or (len(ops) >= 2 and any(buffer(e) for e in ops))):
            return None
        if any(isinstance(x, ast.Starred) for x in tgts):
            return None
        if any(lead(e) is not None for e in ops):
            bound = next(lead(e)[1] for e in ops if lead(e) is not None)
        else:
            # rows of a local matrix paired with the elements of another sequence: as many rounds as that sequence has elements
            # (the matrix was allocated with one row per element - the shape rules of the caller check that)
            other = next((e for e in ops if not buffer(e)), ops[0])
            bound = ast.Call(func=ast.Name(id="len", ctx=ast.Load()), args=[other], keywords=[])
        if any(lead(e) is not None and unparse(lead(e)[1]) != unparse(bound) for e in ops):
            return None
        self._cw_n = getattr(self, "_cw_n", 0) + 1
        r = f"$z{self._cw_n}"
        rn = lambda: ast.Name(id=r, ctx=ast.Load())
        pre = []
        for e, t in zip(ops, tgts):
            base = lead(e)[0] if lead(e) is not None else e
            pre.append(ast.Assign(targets=[t], value=ast.Subscript(value=base, slice=rn(), ctx=ast.Load()), lineno=s.lineno))
        if counter is not None:
            cv = rn() if start is None else ast.BinOp(left=rn(), op=ast.Add(), right=start)
            pre.insert(0, ast.Assign(targets=[ast.Name(id=counter, ctx=ast.Store())], value=cv, lineno=s.lineno))
        loop = ast.For(target=ast.Name(id=r, ctx=ast.Store()),
                       iter=ast.Call(func=ast.Name(id="range", ctx=ast.Load()), args=[bound], keywords=[]),
                       body=pre + list(s.body), orelse=[], lineno=s.lineno)
        ast.copy_location(loop, s)
        for n in ast.walk(loop):
            if not hasattr(n, "lineno"):
                ast.copy_location(n, s)
        ast.fix_missing_locations(loop)
        return loop

    def for_(self, s: ast.For, env: Dict[str, Term]):
        gen = self._generator_loop(s, env)
        if gen is not None:
            return True if gen[1] is True else None
        unz = self._unzip_loop(s, env)
        if unz is not None:
            return self.for_(unz, env)
        # `for i, x in enumerate(xs, start=s)` is `for p, x in enumerate(xs): i = p + s`
        if isinstance(s.iter, ast.Call) and isinstance(s.iter.func, ast.Name) and s.iter.func.id == "enumerate" and "enumerate" not in env \
                and len(s.iter.args) in (1, 2) and (len(s.iter.args) == 2) != (len(s.iter.keywords) == 1 and s.iter.keywords[0].arg == "start") \
                and (len(s.iter.args) == 2 or s.iter.keywords) and isinstance(s.target, ast.Tuple) and len(s.target.elts) == 2 \
                and isinstance(s.target.elts[0], ast.Name) and not s.orelse:
            startv = s.iter.args[1] if len(s.iter.args) == 2 else s.iter.keywords[0].value
            self._cw_n = getattr(self, "_cw_n", 0) + 1
            pn = f"$e{self._cw_n}"
            bind = ast.Assign(targets=[ast.Name(id=s.target.elts[0].id, ctx=ast.Store())],
                              value=ast.BinOp(left=ast.Name(id=pn, ctx=ast.Load()), op=ast.Add(), right=startv), lineno=s.lineno)
            loop = ast.For(target=ast.Tuple(elts=[ast.Name(id=pn, ctx=ast.Store()), s.target.elts[1]], ctx=ast.Store()),
                           iter=ast.Call(func=ast.Name(id="enumerate", ctx=ast.Load()), args=[s.iter.args[0]], keywords=[]),
                           body=[bind] + list(s.body), orelse=[], lineno=s.lineno)
            ast.copy_location(loop, s)
            for n in ast.walk(loop):
                if not hasattr(n, "lineno"):
                    ast.copy_location(n, s)
            ast.fix_missing_locations(loop)
            return self.for_(loop, env)
        rec = record_items(self.repo, (self.fnstack[-1] if self.fnstack else self.entry).module, s.iter)
        if rec is not None:
            # a loop over the fields of a constant record: one copy of the body per (name, default) pair
            s = ast.copy_location(ast.For(target=s.target, iter=rec, body=s.body, orelse=s.orelse, lineno=s.lineno), s)
        # `for k, v in src.items(): dst[k] = v` is `dst.update(src)`
        if isinstance(s.target, ast.Tuple) and len(s.target.elts) == 2 and all(isinstance(x, ast.Name) for x in s.target.elts) \
                and isinstance(s.iter, ast.Call) and isinstance(s.iter.func, ast.Attribute) and s.iter.func.attr == "items" \
                and not s.iter.args and not s.iter.keywords and not s.orelse:
            body = [x for x in s.body if not (isinstance(x, ast.Expr) and isinstance(x.value, ast.Constant))]
            kn, vn = s.target.elts[0].id, s.target.elts[1].id
            if len(body) == 1 and isinstance(body[0], ast.Assign) and len(body[0].targets) == 1:
                tg, val = body[0].targets[0], body[0].value
                if isinstance(tg, ast.Subscript) and isinstance(tg.slice, ast.Name) and tg.slice.id == kn \
                        and isinstance(val, ast.Name) and val.id == vn \
                        and not any(isinstance(n, ast.Name) and n.id in (kn, vn) for n in ast.walk(tg.value)):
                    call = ast.Expr(value=ast.Call(func=ast.Attribute(value=tg.value, attr="update", ctx=ast.Load()),
                                                   args=[s.iter.func.value], keywords=[]))
                    ast.copy_location(call, s)
                    ast.fix_missing_locations(call)
                    for n in ast.walk(call):
                        ast.copy_location(n, s)
                    return self.statement(call, env)
        # `for x in (xs if c else [])` is `if c: for x in xs`
        if isinstance(s.iter, ast.IfExp) and not s.orelse:
            empty = lambda n: isinstance(n, (ast.List, ast.Tuple)) and not n.elts
            it = s.iter
            if empty(it.orelse) or empty(it.body):
                test = it.test if empty(it.orelse) else ast.copy_location(ast.UnaryOp(op=ast.Not(), operand=it.test), it.test)
                loop = ast.copy_location(ast.For(target=s.target, iter=it.body if empty(it.orelse) else it.orelse,
                                                 body=s.body, orelse=[], lineno=s.lineno), s)
                cond = ast.copy_location(ast.If(test=test, body=[loop], orelse=[]), s)
                ast.fix_missing_locations(cond)
                return self.statement(cond, env)
        # `for u in (a, b): body` over a short literal is `u = a; body; u = b; body`
        if isinstance(s.iter, (ast.Tuple, ast.List)) and 1 <= len(s.iter.elts) <= 4 and isinstance(s.target, ast.Name) \
                and not s.orelse and not any(isinstance(x, (ast.Break, ast.Continue, ast.Starred)) for x in ast.walk(s)):
            for elt in s.iter.elts:
                self.statement(ast.copy_location(ast.Assign(targets=[s.target], value=elt, lineno=s.lineno), s), env)
                if self.block(s.body, env):
                    return True
            return None
        if isinstance(s.iter, ast.Name) and isinstance(s.target, ast.Name) and not s.orelse \
                and env.get(s.iter.id, ("?",))[0] == "tuple" and 1 <= len(env[s.iter.id][1]) <= 4 \
                and not any(x[0] == "star" for x in env[s.iter.id][1]) \
                and not any(isinstance(x, (ast.Break, ast.Continue, ast.Starred)) for x in ast.walk(s)):
            # the same over a tuple this walk knows element by element (e.g. the `*args` of an inlined helper)
            for k, item in enumerate(env[s.iter.id][1]):
                tmp = f"${s.iter.id}{k}"
                env[tmp] = item
                self.statement(ast.copy_location(ast.Assign(targets=[s.target], value=ast.Name(id=tmp, ctx=ast.Load()),
                                                            lineno=s.lineno), s), env)
                if self.block(s.body, env):
                    return True
            return None
        n_ev = len(self.events)
        dom = self.ev(s.iter, env)
        if dom[0] == "sel" and not s.orelse:
            # the same through a local: `xs = nodes if c else []; for x in xs`
            empty = lambda t: t == ("tuple", ()) or self.list_items(t) == ()
            if empty(dom[3]) != empty(dom[2]):
                self._cw_n = getattr(self, "_cw_n", 0) + 1
                tc, td = f"$c{self._cw_n}", f"$d{self._cw_n}"
                env[tc] = dom[1]
                env[td] = dom[2] if empty(dom[3]) else dom[3]
                test = ast.Name(id=tc, ctx=ast.Load())
                if empty(dom[2]):
                    test = ast.UnaryOp(op=ast.Not(), operand=test)
                loop = ast.copy_location(ast.For(target=s.target, iter=ast.Name(id=td, ctx=ast.Load()), body=s.body,
                                                 orelse=[], lineno=s.lineno), s)
                cond = ast.copy_location(ast.If(test=test, body=[loop], orelse=[]), s)
                ast.fix_missing_locations(cond)
                return self.statement(cond, env)
        if dom[0] == "tuple" and 1 <= len(dom[1]) <= 16 and not s.orelse and not any(x[0] == "star" for x in dom[1]) \
                and not any(isinstance(x, (ast.Break, ast.Continue, ast.Starred)) for x in ast.walk(s)):
            # a loop over a table known element by element (a class-level tuple of pairs): one copy of the body per element
            del self.events[n_ev:]
            for k, item in enumerate(dom[1]):
                self._cw_n = getattr(self, "_cw_n", 0) + 1
                tmp = f"$t{self._cw_n}"
                env[tmp] = item
                self.statement(ast.copy_location(ast.Assign(targets=[s.target], value=ast.Name(id=tmp, ctx=ast.Load()),
                                                            lineno=s.lineno), s), env)
                if self.block(s.body, env):
                    return True
            return None
        if dom[0] == "call" and dom[1] == ("builtin", "range") and len(dom[2]) == 1 and not dom[3] and dom[2][0][0] == "sel" \
                and not s.orelse and (dom[2][0][2] == ("const", 0)) != (dom[2][0][3] == ("const", 0)):
            # `n = 0 if xs is None else len(xs); for i in range(n)` is `if xs is not None: for i in range(len(xs))`
            sel = dom[2][0]
            self._cw_n = getattr(self, "_cw_n", 0) + 1
            tc, td = f"$c{self._cw_n}", f"$d{self._cw_n}"
            env[tc] = sel[1]
            env[td] = sel[3] if sel[2] == ("const", 0) else sel[2]
            test = ast.Name(id=tc, ctx=ast.Load())
            if sel[2] == ("const", 0):
                test = ast.UnaryOp(op=ast.Not(), operand=test)
            rng = ast.Call(func=ast.Name(id="range", ctx=ast.Load()), args=[ast.Name(id=td, ctx=ast.Load())], keywords=[])
            loop = ast.copy_location(ast.For(target=s.target, iter=rng, body=s.body, orelse=[], lineno=s.lineno), s)
            cond = ast.copy_location(ast.If(test=test, body=[loop], orelse=[]), s)
            ast.fix_missing_locations(cond)
            del self.events[n_ev:]
            return self.statement(cond, env)
        fused = fuse_mapped_domain(dom)
        if fused is not None:
            dom = fused[0]
        elif dom[0] == "call" and dom[1] == ("builtin", "map") and len(dom[2]) == 2 and not dom[3] \
                and dom[2][0][0] == "builtin" and dom[2][0][1] in ("int", "float", "str", "abs", "bool"):
            # `for q in map(int, xs)` visits xs in order and sees int(x)
            conv = dom[2][0]
            dom = dom[2][1]
            fused = (dom, lambda elem, conv=conv: ("call", conv, (elem,), ()))
        sliced = self._slice_domain(dom)
        if sliced is not None:
            dom = sliced[0]
            if all(e.kind == "call" and (e.name or "").startswith("builtin.") for e in self.events[n_ev:]):
                del self.events[n_ev:]
            self.emit("call", s.iter, target=("builtin", "range"), value=dom, name="builtin.range", args=dom[2], kwargs=())
        # `for i in range(min(len(xs), len(ys)))` visits the positions of zip(xs, ys): i is that loop's position
        zip_pos = None
        if isinstance(s.target, ast.Name) and dom[0] == "call" and dom[1] == ("builtin", "range") and len(dom[2]) == 1 \
                and not dom[3] and dom[2][0][0] == "min" and len(dom[2][0][1]) >= 2 \
                and all(x[0] == "call" and x[1] == ("builtin", "len") and len(x[2]) == 1 and not x[3] for x in dom[2][0][1]):
            dom = ("call", ("builtin", "zip"), tuple(x[2][0] for x in dom[2][0][1]), ())
            zip_pos = True
        # `for r in [r for r in rs if keep(r)]: body` is `for r in rs: if keep(r): body` when the body leaves what keep reads
        # alone (checked after the body was walked: otherwise the form is outside the fragment)
        flt = None
        if dom[0] == "listcomp" and len(dom[2]) == 1 and dom[2][0][2] and isinstance(s.target, ast.Name) and not s.orelse \
                and dom[1] == ("iter", dom[2][0][0], dom[2][0][1]):
            flt = (("iter", dom[2][0][0], dom[2][0][1]), tuple(dom[2][0][2]))
            dom = dom[2][0][0]
        skip = self._all_but_one(dom) if isinstance(s.target, ast.Name) and flt is None else None
        if skip is not None:
            dom = skip[0]
            # the builtin calls that spelt the domain are replaced by the canonical one
            if all(e.kind == "call" and (e.name or "").startswith(("builtin.", "itertools.")) for e in self.events[n_ev:]):
                del self.events[n_ev:]
                self.emit("call", s.iter, target=("builtin", "range"), value=dom, name="builtin.range", args=dom[2], kwargs=())
        li = self._enter_loop("for", s, env)
        li.domain = dom
        tnames = assigned_names([ast.Assign(targets=[s.target], value=ast.Constant(0))])
        recv_env = dict(env)
        if isinstance(s.target, ast.Name):
            recv_env[s.target.id] = elem_of(dom, li.lid)
        names, init = self._loop_body(li, s.body, env, [], recv_env=recv_env)
        # loop targets
        self.loopstack.append(li.lid)

        def bind(t, path):
            if isinstance(t, ast.Name):
                v = ("iter", dom, li.lid) if not path else ("iterproj", dom, li.lid, tuple(path))
                if not path:
                    v = elem_of(dom, li.lid)
                if path == [1] and dom[0] == "call" and dom[1] == ("builtin", "enumerate") and len(dom[2]) == 1 \
                        and not dom[3]:
                    # `for i, x in enumerate(xs)`: x is xs[i]
                    v = ("idx", dom[2][0], ("iterproj", dom, li.lid, (0,)))
                if len(path) == 1 and dom[0] == "call" and dom[1] == ("builtin", "zip") and len(dom[2]) > path[0] \
                        and not dom[3]:
                    # `for a, b in zip(xs, ys)`: a is xs[pos], b is ys[pos]
                    v = ("idx", dom[2][path[0]], ("iterproj", dom, li.lid, ("pos",)))
                if fused is not None and (path == [1] or not path):
                    # the element of the mapped list is the map applied to the element of the list it was built from
                    v = fused[1](v)
                if zip_pos and not path:
                    v = ("iterproj", dom, li.lid, ("pos",))
                if sliced is not None:
                    arrays, zipped = sliced[1], sliced[2]
                    r = ("iter", dom, li.lid)
                    if not zipped and not path:
                        v = ("idx", arrays[0], r)
                    elif zipped and len(path) == 1 and path[0] < len(arrays):
                        v = ("idx", arrays[path[0]], r)
                env[t.id] = v
                li.targets[t.id] = v
            elif isinstance(t, (ast.Tuple, ast.List)):
                stars = [i for i, e in enumerate(t.elts) if isinstance(e, ast.Starred)]
                for i, e in enumerate(t.elts):
                    if stars and not path and i == stars[0] == len(t.elts) - 1 and isinstance(e.value, ast.Name):
                        self._site += 1
                        v = ("alloc", "builtin.list", (("idx", ("iter", dom, li.lid),
                             ("slice", ("const", i) if i else None, None, None)),), (), self._site)
                        env[e.value.id] = v
                        li.targets[e.value.id] = v
                    else:
                        bind(e, path + [i])
            else:
                self.emit("store", s, target=self.ev(t, env), value=("iter", dom, li.lid))

        bind(s.target, [])
        self.cont_stack.append((len(self.guards), []))
        if skip is not None:
            # ... which is `for q in range(n): if q != a: body`
            g = mk_cmp("!=", skip[1], ("iter", dom, li.lid))
            self.guard_src.setdefault(g, (s.lineno, "for " + unparse(s.target) + " in " + unparse(s.iter), self.fnstack[-1]))
            self.guards.append((g, True))
        n_flt = 0
        if flt is not None:
            me = ("iter", dom, li.lid)
            sub = lambda t: me if t == flt[0] else (tuple(sub(x) if isinstance(x, tuple) else x for x in t) if isinstance(t, tuple) else t)
            for c in flt[1]:
                g = sub(c)
                self.guard_src.setdefault(g, (s.lineno, "for " + unparse(s.target) + " in " + unparse(s.iter), self.fnstack[-1]))
                self.guards.append((g, True))
                n_flt += 1
            n_body = len(self.events)
        self.block(s.body, env)
        if flt is not None:
            reads = {root_object(t) for c in flt[1] for t in subterms(c) if t[0] in ("idx", "attr")}
            for e in self.events[n_body:]:
                hit = (e.kind == "store" and root_object(e.target) in reads) or (
                    e.kind == "call" and e.target is not None and e.target[0] == "attr" and root_object(e.target[1]) in reads
                    and (e.name in CONTAINER_MUTATORS or self.call_writes(e.name or "")))
                if hit:
                    raise AnalysisError(f"{self.fnstack[-1].qual}:{s.lineno}: the loop runs over a list filtered beforehand while "
                                        "its body writes what the filter reads; this form is outside the analysable fragment")
            del self.guards[len(self.guards) - n_flt:]
        if skip is not None:
            self.guards.pop()
        self._merge_continues(env, names)
        self.loopstack.pop()
        for n in names:
            li.carried[n] = (init[n], env.get(n, ("undef",)))
            if n not in tnames:
                env[n] = ("phi", li.lid, n)
        li.last_seq = self._seq
        if s.orelse:
            self._loop_else(s, li, env)
        return None

    @staticmethod
    def _own_break(body) -> bool:
        for st in body:
            if isinstance(st, ast.Break):
                return True
            if isinstance(st, (ast.For, ast.While)):
                if Walker._own_break(st.orelse):
                    return True
                continue
            for fld in ("body", "orelse", "finalbody"):
                sub = getattr(st, fld, None)
                if isinstance(sub, list) and sub and isinstance(sub[0], ast.stmt) and Walker._own_break(sub):
                    return True
            for h in getattr(st, "handlers", []) or []:
                if Walker._own_break(h.body):
                    return True
        return False

    def _loop_else(self, s, li, env) -> None:
        """The `else` block of a loop runs only when the loop was not left by `break`: under a condition of its own, and what
        it assigns is merged with what the variables held at the break."""
        if not self._own_break(s.body):
            self.block(s.orelse, env)  # no break: the block always runs
            return
        done = ("call", ("builtin", "<loop-completed>"), (("const", li.lid),), ())
        before = dict(env)
        self.guards.append((done, True))
        self.guard_src.setdefault(done, (s.lineno, "else (of the loop)", self.fnstack[-1]))
        try:
            self.block(s.orelse, env)
        finally:
            self.guards.pop()
        for n in list(env):
            if env[n] != before.get(n, ("undef",)):
                env[n] = ("sel", done, env[n], before.get(n, ("undef",)))

    def _merge_continues(self, env: Dict[str, Term], names: List[str]) -> None:
        """The value a variable carries into the next iteration: on a path that ended with `continue`
        it is the value held there, otherwise the value at the end of the body."""
        _, recs = self.cont_stack.pop()
        # a later `continue` is only reached when the earlier ones were not taken: the negations of their triggers,
        # which the statements in between carry as guards, are implied by the nesting built below and are dropped
        triggers = set()
        pruned = []
        for guards, cenv in recs:
            pruned.append(([gp for gp in guards if (gp[0], not gp[1]) not in triggers], cenv))
            if guards:
                triggers.add(guards[-1])
        for guards, cenv in reversed(pruned):
            conds = [g if pol else mk_not(g) for g, pol in guards]
            if not conds:
                continue
            cond = conds[0] if len(conds) == 1 else ("and", tuple(conds))
            for n in names:
                a, b = cenv.get(n, ("undef",)), env.get(n, ("undef",))
                if a != b:
                    env[n] = ("sel", cond, a, b)

    def _counted_while(self, s: ast.While, env: Dict[str, Term]) -> Optional[ast.For]:
        """`while i < N: body; i += 1` (N and i untouched by body, no `continue`, i dead after the loop) is
        `for i in range(<i now>, N): body`."""
        t = s.test
        if not (isinstance(t, ast.Compare) and len(t.ops) == 1 and isinstance(t.ops[0], ast.Lt)
                and isinstance(t.left, ast.Name) and len(s.body) >= 2):
            return None
        i = t.left.id
        if "$" in i or i not in env:
            return None
        last = s.body[-1]
        if not (isinstance(last, ast.AugAssign) and isinstance(last.op, ast.Add) and isinstance(last.target, ast.Name)
                and last.target.id == i and isinstance(last.value, ast.Constant) and last.value.value == 1
                and type(last.value.value) is int):
            return None
        body = s.body[:-1]
        bound = t.comparators[0]

        def simple(e):
            if isinstance(e, ast.Constant):
                return True
            if isinstance(e, ast.Name):
                return e.id != i
            if isinstance(e, ast.Call) and isinstance(e.func, ast.Name) and e.func.id in ("len", "min", "max") \
                    and not e.keywords:
                return all(simple(a) for a in e.args)
            if isinstance(e, ast.BinOp) and isinstance(e.op, (ast.Add, ast.Sub)):
                return simple(e.left) and simple(e.right)
            return False
        if not simple(bound):
            return None
        free = {n.id for n in ast.walk(bound) if isinstance(n, ast.Name)} - {"len", "min", "max"}
        written = set(assigned_names(body))
        for n in ast.walk(ast.Module(body=body, type_ignores=[])):
            if isinstance(n, (ast.Continue, ast.Global, ast.Nonlocal, ast.Lambda, ast.FunctionDef, ast.Delete)):
                return None  # (a `continue` of a nested loop is refused too: cheap and sound)
            if isinstance(n, ast.Call) and isinstance(n.func, ast.Attribute) and isinstance(n.func.value, ast.Name) \
                    and n.func.value.id in free:
                return None  # a method of something the bound measures (xs.append(...))
            if isinstance(n, (ast.Subscript, ast.Attribute)) and isinstance(n.ctx, (ast.Store, ast.Del)):
                base = n
                while isinstance(base, (ast.Subscript, ast.Attribute)):
                    base = base.value
                if isinstance(base, ast.Name) and base.id in free:
                    return None
        if i in written or free & written:
            return None
        fn = self.fnstack[-1].node
        end = getattr(s, "end_lineno", s.lineno)
        for n in ast.walk(fn):
            if isinstance(n, ast.Name) and n.id == i and isinstance(n.ctx, ast.Load) and n.lineno > end:
                return None
        # the loop may itself sit in a loop: a read of i at the top of the next outer iteration comes "after" too
        for outer in ast.walk(fn):
            if isinstance(outer, (ast.For, ast.While)) and outer is not s and any(x is s for x in ast.walk(outer)):
                first_store = None
                for n in ast.walk(outer):
                    if isinstance(n, ast.Name) and n.id == i and n.lineno < s.lineno:
                        if isinstance(n.ctx, ast.Load):
                            if first_store is None or n.lineno <= first_store:
                                return None
                        elif first_store is None or n.lineno < first_store:
                            first_store = n.lineno
        self._cw_n = getattr(self, "_cw_n", 0) + 1
        tmp = f"$w{self._cw_n}"
        env[tmp] = env[i]
        it = ast.Call(func=ast.Name(id="range", ctx=ast.Load()), args=[ast.Name(id=tmp, ctx=ast.Load()), bound], keywords=[])
        loop = ast.For(target=ast.Name(id=i, ctx=ast.Store()), iter=it, body=body, orelse=s.orelse, lineno=s.lineno)
        ast.copy_location(loop, s)
        ast.fix_missing_locations(loop)
        return loop

    def while_(self, s: ast.While, env: Dict[str, Term]):
        counted = self._counted_while(s, env)
        if counted is not None:
            return self.for_(counted, env)
        li = self._enter_loop("while", s, env)
        # (a name bound by `:=` in the test is rebound at the top of every round)
        walrus = [n.target.id for n in ast.walk(s.test) if isinstance(n, ast.NamedExpr) and isinstance(n.target, ast.Name)]
        names, init = self._loop_body(li, s.body, env, [])
        for n in walrus:
            if n not in names:
                names.append(n)
                init[n] = env.get(n, ("undef",))
                env[n] = ("phi", li.lid, n)
        body = s.body
        first = next((x for x in body if not (isinstance(x, ast.Expr) and isinstance(x.value, ast.Constant))), None)
        if isinstance(s.test, ast.Constant) and s.test.value is True and isinstance(first, ast.If) \
                and len(first.body) == 1 and isinstance(first.body[0], ast.Break) and not first.orelse and not s.orelse:
            # `while True: if c: break; rest`  is  `while not c: rest`
            cond = mk_not(self.boolify(self.ev(first.test, env)))
            body = body[body.index(first) + 1:]
            self.guard_src.setdefault(cond, (first.lineno, "while not (" + unparse(first.test) + ")", self.fnstack[-1]))
        else:
            cond = self.ev(s.test, env)
            self.guard_src.setdefault(cond, (s.lineno, "while " + unparse(s.test), self.fnstack[-1]))
        li.cond = cond
        self.loopstack.append(li.lid)
        self.guards.append((cond, True))
        self.cont_stack.append((len(self.guards), []))
        self.block(body, env)
        self._merge_continues(env, names)
        self.guards.pop()
        self.loopstack.pop()
        for n in names:
            li.carried[n] = (init[n], env.get(n, ("undef",)))
            env[n] = ("phi", li.lid, n)
        li.last_seq = self._seq
        if s.orelse:
            self._loop_else(s, li, env)
        return None

    # -- expressions -----------------------------------------------------------
    def binop(self, op: str, l: Term, r: Term) -> Term:
        isint = lambda t: t[0] == "const" and isinstance(t[1], int) and not isinstance(t[1], bool)
        if op == "-" and l[0] == "bin" and l[1] == "+" and r in (l[2], l[3]) and r[0] != "const":
            # (p + n) - n is p for the integer counters this is applied to (an enumerate offset taken off again)
            other = l[3] if l[2] == r else l[2]
            if other[0] in ("iterproj", "iter", "phi"):
                return other
        if op == "-" and isint(r) and l[0] == "bin" and l[1] == "+" and (isint(l[2]) != isint(l[3])):
            # (a + c1) - c2  ->  a + (c1 - c2)   (exact for the integer quantities this is applied to: sizes, slots)
            c1, a = (l[2], l[3]) if isint(l[2]) else (l[3], l[2])
            d = c1[1] - r[1]
            if d == 0:
                return a
            return self.binop("+", a, ("const", d)) if d > 0 else ("bin", "-", a, ("const", -d))
        if op == "+" and ("const", 0) in (l, r) and l != r:
            return r if l == ("const", 0) else l  # n + 0 (a default offset) is n
        if op in ("+", "*"):
            l, r = sorted([l, r], key=tkey)
        return ("bin", op, l, r)

    def _typed_nonnull(self, pname: str) -> bool:
        """The entry function declares `pname: str` / `int` / `float` / `bool` (not Optional) with a default that is not None."""
        a = self.entry.node.args
        pos = a.posonlyargs + a.args
        defaults = dict(zip([x.arg for x in reversed(pos)], reversed(a.defaults)))
        defaults.update({x.arg: d for x, d in zip(a.kwonlyargs, a.kw_defaults) if d is not None})
        for x in pos + a.kwonlyargs:
            if x.arg == pname:
                ann = unparse(x.annotation) if x.annotation is not None else ""
                d = defaults.get(pname)
                if ann in ("str", "int", "float", "bool") and not (isinstance(d, ast.Constant) and d.value is None):
                    return True
        return False

    def _record_attr(self, base: Term, e: ast.Attribute) -> Optional[Term]:
        """A field of a NamedTuple record by name (the position every record class of that size gives the name), or a
        read-only property of the one record class of that size that has it."""
        known = self.__dict__.get("record_of", {}).get(base)
        if known is not None:
            names = [f for f, _ in named_tuple_fields(self.repo, known)]
            if e.attr in names:
                return base[1][names.index(e.attr)]
        posn = {names.index(e.attr) for names in all_named_tuples(self.repo) if len(names) == len(base[1]) and e.attr in names}
        if len(posn) == 1:
            return base[1][posn.pop()]
        if posn:
            return None
        props = []
        for mi in self.repo.modules.values():
            for cname, ci in mi.classes.items():
                f = named_tuple_fields(self.repo, cname)
                if f is not None and len(f) == len(base[1]) and e.attr in ci.getters and e.attr not in ci.setters:
                    props.append(ci.getters[e.attr])
        if len(props) == 1 and props[0] not in self.fnstack and len(self.fnstack) <= self.max_depth:
            return self.inline_call(props[0], base, (), (), e)
        return None

    def module_imports(self) -> Dict[str, str]:
        return self.repo.modules[self.fnstack[-1].module].imports

    def ev(self, e: ast.expr, env: Dict[str, Term]) -> Term:
        if e is None:
            return ("const", None)
        if isinstance(e, ast.Constant):
            return ("const", e.value)
        if isinstance(e, ast.Name):
            if e.id in env:
                v = env[e.id]
                # a value merged from an earlier `if c:` read again under the same test is that branch's value
                fs = None
                while v[0] == "sel" and self.guards:
                    if (v[1], True) in self.guards:
                        v = v[2]
                    elif (v[1], False) in self.guards:
                        v = v[3]
                    else:
                        # ... also when the test is one conjunct of a dominating `if a and b:`
                        if fs is None:
                            fs = set(facts(tuple(self.guards)))
                        if v[1] in fs:
                            v = v[2]
                        elif mk_not(v[1]) in fs:
                            v = v[3]
                        else:
                            break
                return v
            imps = self.module_imports()
            if e.id in imps:
                mod_i, _, nm_i = imps[e.id].rpartition(".")
                mi_i = self.repo.modules.get(mod_i)
                if mi_i is not None and mod_i != CONST_MOD:
                    lit_i = module_literal(mi_i, nm_i)  # `from opfython.models.supervised import PROTOTYPE_COST`
                    if lit_i is not None and lit_i[0] == "const":
                        return lit_i
                return ("mod", imps[e.id])
            mi = self.repo.modules[self.fnstack[-1].module]
            lit = module_literal(mi, e.id)
            if lit is not None:
                return lit
            if e.id in mi.functions:
                return ("mod", f"{mi.name}.{e.id}")
            if e.id in mi.classes:
                return ("mod", f"{mi.name}.{e.id}")
            if isinstance(getattr(mi, "_literals", {}).get(e.id), (ast.Dict, ast.List, ast.Tuple, ast.Set)):
                # a module-level table that is not a plain literal (e.g. the metric registry): named like an import of it
                return ("mod", f"{mi.name}.{e.id}")
            if e.id in BUILTINS:
                return ("builtin", e.id)
            return ("free", e.id)
        if isinstance(e, ast.Attribute):
            base = self.ev(e.value, env)
            if base[0] == "mod":
                if base[1] == CONST_MOD:
                    val = self.repo.constants.get(e.attr)
                    # textual constants (formats, delimiters) and small tables of them are their literal value; numeric
                    # ones stay symbolic (the rules speak about FLOAT_MAX, NIL, ... by name)
                    if isinstance(val, str):
                        return ("const", val)
                    if isinstance(val, dict) and val and len(val) <= 8 and all(
                            isinstance(k, str) and isinstance(v, str) for k, v in val.items()):
                        return ("dict", tuple((("const", k), ("const", v)) for k, v in val.items()))
                    if e.attr not in LIBRARY_CONSTANTS and isinstance(val, (int, float)) and not isinstance(val, bool):
                        # a constant the library did not have (a literal that was given a name): the number it names
                        return ("const", val)
                    if e.attr not in LIBRARY_CONSTANTS and isinstance(val, tuple) and val and val[0] == "expr":
                        # ... or the float limit under another name (LOWEST = -sys.float_info.max)
                        fm = self.repo.constants.get("FLOAT_MAX")
                        txt = val[1].replace(" ", "")
                        if isinstance(fm, tuple) and fm and fm[0] == "expr":
                            lim = fm[1].replace(" ", "")
                            if txt in (lim, "FLOAT_MAX"):
                                return ("K", "FLOAT_MAX")
                            if txt in ("-" + lim, "-FLOAT_MAX", "-(" + lim + ")", "-1*" + lim, lim + "*-1", "FLOAT_MAX*-1", "-1*FLOAT_MAX"):
                                return ("neg", ("K", "FLOAT_MAX"))
                    return self.subst.get(("K", e.attr), ("K", e.attr))
                mi2 = self.repo.modules.get(base[1])
                if mi2 is not None and base[1].startswith("opfython"):
                    raw = None
                    module_literal(mi2, e.attr)  # fills the cache
                    raw = getattr(mi2, "_literals", {}).get(e.attr)
                    if isinstance(raw, ast.Dict) and len(raw.keys) <= 8:
                        lit = module_literal(mi2, e.attr)
                        if lit is not None and lit[0] == "dict":
                            return lit  # a small dispatch table of another module
                return ("mod", f"{base[1]}.{e.attr}")
            if base[0] == "K" and (base[1], e.attr) in getattr(self.repo, "enum_alias", {}):
                nm = self.repo.enum_alias[(base[1], e.attr)]  # c.Color.WHITE is c.WHITE
                return self.subst.get(("K", nm), ("K", nm))
            if base[0] == "K" and e.attr == "value" and base[1] in getattr(self.repo, "enum_alias", {}).values():
                return base  # the integer an IntEnum member is
            if base[0] == "call" and base[1] == ("mod", "struct.Struct") and len(base[2]) == 1 and e.attr == "size":
                return ("call", ("mod", "struct.calcsize"), base[2], ())  # struct.Struct(fmt).size
            if isinstance(e.ctx, ast.Load) and e.attr.isupper() and (
                    (base == ("self",) and self.self_class) or (base[0] == "mod" and self.repo.has_class(base[1].rpartition(".")[2]))):
                # a class-level constant (`INITIAL_COST = c.FLOAT_MAX` in the class body, never assigned on instances)
                cname = self.self_class if base == ("self",) else base[1].rpartition(".")[2]
                cv = class_constant(self.repo, cname, e.attr)
                if cv is not None:
                    mi_c, node_c = cv
                    saved = self.fnstack[-1]
                    try:
                        return self._ev_in_module(node_c, mi_c)
                    except AnalysisError:
                        pass
            if base == ("self",) and isinstance(e.ctx, ast.Load) and self.self_class and self.repo.has_class(self.self_class):
                # a read-only property the API table does not have (a computed view added by the change): its body
                for ci_g in self.repo.mro(self.self_class):
                    g = ci_g.getters.get(e.attr)
                    if g is not None:
                        if api_signature(g) is None and e.attr not in ci_g.setters and g not in self.fnstack \
                                and len(self.fnstack) <= self.max_depth and all(
                                    d.split("(")[0].split(".")[-1] == "property" for d in g.decorators):
                            return self.inline_call(g, ("self",), (), (), e)
                        break
            if isinstance(e.ctx, ast.Load) and base != ("self",) and owner_kind(base) == "graph":
                # the same for a computed view of a graph object (`self.subgraph.pdf_parameters`): the one definition the
                # graph classes have of it
                gs = [ci_g.getters[e.attr] for mi_g in self.repo.modules.values() for ci_g in mi_g.classes.values()
                      if ci_g.name in ("Subgraph", "KNNSubgraph") and e.attr in ci_g.getters and e.attr not in ci_g.setters]
                if len(gs) == 1 and api_signature(gs[0]) is None and gs[0] not in self.fnstack and len(self.fnstack) <= self.max_depth \
                        and all(d.split("(")[0].split(".")[-1] == "property" for d in gs[0].decorators):
                    saved_cls = self.self_class
                    self.self_class = gs[0].cls
                    try:
                        return self.inline_call(gs[0], base, (), (), e)
                    finally:
                        self.self_class = saved_cls
            if base == ("self",) and isinstance(e.ctx, ast.Load) and self.self_class:
                ext = extension_fields(self.repo, self.self_class)
                if e.attr.lstrip("_") in ext and self.fnstack[-1].name != "__init__" \
                        and not any(d.endswith(".setter") for d in self.fnstack[-1].decorators):
                    return ext[e.attr.lstrip("_")]
            if base[0] == "sel" and base[2][0] == "tuple" and base[3][0] == "tuple" and isinstance(e.ctx, ast.Load):
                # a field of a record built in one of two ways: the field of either
                a, b = self._record_attr(base[2], e), self._record_attr(base[3], e)
                if a is not None and b is not None:
                    if a[0] == "sel" and a[1] == base[1]:
                        a = a[2]
                    if b[0] == "sel" and b[1] == base[1]:
                        b = b[3]
                    return a if a == b else ("sel", base[1], a, b)
            if base[0] == "tuple" and isinstance(e.ctx, ast.Load):
                v = self._record_attr(base, e)
                if v is not None:
                    return v
            if base[0] == "dict" and isinstance(e.ctx, ast.Load):
                hit = [v for k, v in base[1] if k == ("const", e.attr)]
                if len(hit) == 1:
                    return hit[0]  # a field of a constant record
            t = ("attr", base, e.attr)
            return self.subst.get(t, t)
        if isinstance(e, ast.Subscript):
            base = self.ev(e.value, env)
            ix = self.ev_index(e.slice, env)
            # the last component of a string: s.rsplit(sep, n >= 1)[-1] and s.rpartition(sep)[2] are s.split(sep)[-1]
            if base[0] == "call" and base[1][0] == "attr" and not base[3]:
                recv, meth, a = base[1][1], base[1][2], base[2]
                if meth == "rsplit" and ix == ("const", -1) and len(a) == 2 and a[1][0] == "const" \
                        and isinstance(a[1][1], int) and a[1][1] >= 1:
                    return ("idx", ("call", ("attr", recv, "split"), (a[0],), ()), ("const", -1))
                if meth == "rpartition" and ix in (("const", -1), ("const", 2)) and len(a) == 1:
                    return ("idx", ("call", ("attr", recv, "split"), (a[0],), ()), ("const", -1))
            if base[0] == "dict" and ix[0] == "const":
                hit = [v for k, v in base[1] if k == ix]
                if len(hit) == 1:
                    return hit[0]
            # a per-element table read at position k: [f(v) for v in xs][k] is f(xs[k]) - the value the table holds as
            # long as nothing f reads was written since it was built (then the local is an ('old', ...) and is left alone)
            tab = base
            if tab[0] == "alloc" and tab[1] in ("numpy.array", "numpy.asarray") and len(tab[2]) == 1 and \
                    set(dict(tab[3])) <= {"dtype"}:
                tab = tab[2][0]
            if tab[0] == "listcomp" and len(tab[2]) == 1 and not tab[2][0][2] and ix[0] not in ("slice", "tuple") \
                    and isinstance(e.ctx, ast.Load) and tab not in self.__dict__.get("mut_tables", ()):
                d, l, _ = tab[2][0]
                if not (d[0] == "call" and d[1] in (("builtin", "zip"), ("builtin", "enumerate"), ("builtin", "range"))):
                    return plug_back(tab[1], ("iter", d, l), ("idx", d, ix))
            # a column of the pre-computed matrix read at a row: M[:, b][a] is M[a][b]
            full = ("slice", None, None, None)
            if base[0] == "idx" and base[2][0] == "tuple" and len(base[2][1]) == 2 and base[2][1][0] == full \
                    and base[2][1][1][0] not in ("slice", "tuple") and ix[0] not in ("slice", "tuple") \
                    and isinstance(e.ctx, ast.Load) and _matrix_rooted(("idx", base[1], ix)) and base[1][0] != "idx":
                return ("idx", ("idx", base[1], ix), base[2][1][1])
            return ("idx", base, ix)
        if isinstance(e, ast.Call):
            return self.call(e, env)
        if isinstance(e, ast.BinOp):
            return self.binop(OPS.get(type(e.op), "?"), self.ev(e.left, env), self.ev(e.right, env))
        if isinstance(e, ast.UnaryOp):
            v = self.ev(e.operand, env)
            if isinstance(e.op, ast.Not):
                return mk_not(v)
            if isinstance(e.op, ast.USub):
                if v[0] == "const" and isinstance(v[1], (int, float)) and not isinstance(v[1], bool):
                    return ("const", -v[1])
                return ("neg", v)
            if isinstance(e.op, ast.UAdd):
                return v
            return ("un", "~", v)
        if isinstance(e, ast.Compare):
            parts = []
            left = self.ev(e.left, env)
            for op, comp in zip(e.ops, e.comparators):
                right = self.ev(comp, env)
                o = CMPS[type(op)]
                nonish = lambda t: t == ("const", None)
                # `x is None` with x known to be None (a default argument of an inlined helper), or a fresh object
                counter = (left[0] == "iter" and left[1][0] == "call" and left[1][1] == ("builtin", "range")) or (
                    left[0] == "iterproj" and left[3] in ((0,), ("pos",)) and left[1][0] == "call"
                    and left[1][1] in (("builtin", "enumerate"), ("builtin", "zip")))
                if o in ("is", "is not") and nonish(right) and counter:
                    parts.append(("const", o == "is not"))  # a loop counter is a number, never None
                elif o in ("is", "is not") and nonish(right) and left[0] == "param" and self._typed_nonnull(left[1]):
                    parts.append(("const", o == "is not"))  # a parameter annotated with a plain type (`distance: str`) is not None
                elif o in ("is", "is not") and nonish(right) and (nonish(left) or left[0] in ("alloc", "new", "tuple", "dict")
                                                                   or (left[0] != "sel" and never_none(left))):
                    parts.append(("const", nonish(left) == (o == "is")))
                elif o in ("==", "!=") and {left[0], right[0]} == {"K", "const"} and self._k_value(left, right) is not None:
                    # a library constant compared with a literal: decided by the constant's value (NIL == 0 is False)
                    kv, cv = self._k_value(left, right)
                    parts.append(("const", (kv == cv) == (o == "==")))
                elif o in ("is", "is not") and nonish(right) and left[0] == "sel" and none_test_of_merge(left) is not None:
                    # `if x is not None: x = normalise(x)` and then `x is not None` again: the same test of the old x
                    t = none_test_of_merge(left)
                    parts.append(t if o == "is not" else mk_not(t))
                else:
                    parts.append(mk_cmp(o, left, right))
                left = right
            return parts[0] if len(parts) == 1 else ("and", tuple(parts))
        if isinstance(e, ast.BoolOp):
            vals = []
            for v in e.values:
                t = self.ev(v, env)
                if t[0] == ("and" if isinstance(e.op, ast.And) else "or"):
                    vals.extend(t[1])
                else:
                    vals.append(t)
            kind = "and" if isinstance(e.op, ast.And) else "or"
            # short circuit: a later operand is evaluated only when the earlier ones held (`and`) / failed (`or`), so a choice
            # it makes on one of them is decided: `q is not None and cost[q] < x` with q = None if c else p[k] reads cost[p[k]]
            known: Dict[Term, bool] = {}
            for k, t in enumerate(vals):
                if known and any(u[0] == "sel" and u[1] in known for u in subterms(t)):
                    def res(x):
                        if not isinstance(x, tuple) or not x:
                            return x
                        if x[0] == "sel" and x[1] in known:
                            return res(x[2] if known[x[1]] else x[3])
                        return tuple(res(y) if isinstance(y, tuple) else y for y in x)
                    t = vals[k] = res(t)
                if t[0] in ("cmp", "not", "call"):
                    known[t] = kind == "and"
                    known[mk_not(t)] = kind != "and"
            neutral, absorbing = (("const", True), ("const", False)) if kind == "and" else (("const", False), ("const", True))
            if absorbing in vals:
                return absorbing
            vals = [v for v in vals if v != neutral]
            if not vals:
                return neutral
            if len(vals) == 1:
                return vals[0]
            return (kind, tuple(vals))
        if isinstance(e, ast.NamedExpr) and isinstance(e.target, ast.Name):
            # `(n := value)`: binds the name, here and for everything evaluated afterwards, and is the value
            v = self.ev(e.value, env)
            env[e.target.id] = v
            self.emit("bind", e, name=e.target.id, value=v)
            return v
        if isinstance(e, ast.IfExp):
            c = self.ev(e.test, env)
            a, b = self.ev(e.body, env), self.ev(e.orelse, env)
            if c[0] == "cmp" and c[1] in ("<", "<="):
                lo, hi = c[2], c[3]  # lo < hi
                if a == hi and b == lo:
                    return mk_ext("max", [a, b])
                if a == lo and b == hi:
                    return mk_ext("min", [a, b])
            if c[0] == "const" and isinstance(c[1], bool):
                return a if c[1] else b
            # an arm that chooses on the same condition again is already decided: `a if c else (x if c else b)` is `a if c else b`
            if a[0] == "sel" and a[1] == c:
                a = a[2]
            elif a[0] == "sel" and a[1] == mk_not(c):
                a = a[3]
            if b[0] == "sel" and b[1] == c:
                b = b[3]
            elif b[0] == "sel" and b[1] == mk_not(c):
                b = b[2]
            if a == b:
                return a
            return nan_identity(("sel", c, a, b))
        if isinstance(e, ast.Tuple):
            return ("tuple", tuple(self.ev(x, env) for x in e.elts))
        if isinstance(e, ast.List):
            self._site += 1
            t = ("alloc", "list", tuple(self.ev(x, env) for x in e.elts), (), self._site)
            self.emit("call", e, target=("builtin", "list"), value=t, name="list-literal", args=t[2])
            if not any(x[0] == "star" for x in t[2]):
                self.__dict__.setdefault("lists", {})[self._site] = (list(t[2]), tuple(self.loopstack), tuple(self.guards))
            return t
        if isinstance(e, ast.Starred):
            return ("star", self.ev(e.value, env))
        if isinstance(e, ast.Dict):
            return (
                "dict",
                tuple(
                    (self.ev(k, env) if k is not None else ("const", None), self.ev(v, env))
                    for k, v in zip(e.keys, e.values)
                ),
            )
        if isinstance(e, (ast.ListComp, ast.GeneratorExp, ast.SetComp)):
            cenv = dict(env)
            gens = []
            pushed = 0
            for g in e.generators:
                it = self.ev(g.iter, cenv)
                cfused = fuse_mapped_domain(it)
                if cfused is not None:
                    it = cfused[0]
                self._lid += 1
                lid = self._lid
                li = LoopInfo(lid, "comp", self.fnstack[-1], e, tuple(self.guards), tuple(self.loopstack), domain=it)
                li.first_seq = self._seq + 1
                self.loops[lid] = li

                def bind(t, path, it=it, lid=lid, cfused=cfused):
                    if isinstance(t, ast.Name):
                        v = ("iter", it, lid) if not path else ("iterproj", it, lid, tuple(path))
                        if not path:
                            v = elem_of(it, lid)
                        if path == [1] and it[0] == "call" and it[1] == ("builtin", "enumerate") and len(it[2]) == 1 \
                                and not it[3]:
                            v = ("idx", it[2][0], ("iterproj", it, lid, (0,)))
                        if cfused is not None and (path == [1] or not path):
                            v = cfused[1](v)
                        if len(path) == 1 and it[0] == "call" and it[1] == ("builtin", "zip") and len(it[2]) > path[0] \
                                and not it[3]:
                            v = ("idx", it[2][path[0]], ("iterproj", it, lid, ("pos",)))
                        cenv[t.id] = v
                    elif isinstance(t, (ast.Tuple, ast.List)) and cfused is not None and not path and not (
                            it[0] == "call" and it[1] == ("builtin", "enumerate")):
                        # the elements of a mapped list are unpacked: a, b, *rest = f(v)
                        elemv = cfused[1](elem_of(it, lid))
                        for i, x in enumerate(t.elts):
                            if isinstance(x, ast.Starred) and i == len(t.elts) - 1 and isinstance(x.value, ast.Name):
                                self._site += 1
                                cenv[x.value.id] = ("alloc", "builtin.list", (("idx", elemv, ("slice", ("const", i) if i else None, None, None)),), (), self._site)
                            elif isinstance(x, ast.Name):
                                cenv[x.id] = ("idx", elemv, ("const", i))
                            else:
                                bind(x, path + [i])
                    elif isinstance(t, (ast.Tuple, ast.List)):
                        stars = [i for i, x in enumerate(t.elts) if isinstance(x, ast.Starred)]
                        for i, x in enumerate(t.elts):
                            if stars and not path and i == stars[0] == len(t.elts) - 1 and isinstance(x.value, ast.Name):
                                # a, b, *rest: rest is list(element[2:])
                                self._site += 1
                                cenv[x.value.id] = ("alloc", "builtin.list", (("idx", ("iter", it, lid),
                                                    ("slice", ("const", i) if i else None, None, None)),), (), self._site)
                            else:
                                bind(x, path + [i])

                bind(g.target, [])
                self.loopstack.append(lid)
                pushed += 1
                conds = tuple(self.ev(c, cenv) for c in g.ifs)
                gens.append((it, lid, conds))
            elt = self.ev(e.elt, cenv)
            for _ in range(pushed):
                lid = self.loopstack.pop()
                self.loops[lid].last_seq = self._seq
            return ("listcomp", elt, tuple(gens))
        if isinstance(e, ast.JoinedStr):
            return ("opaque", "<fstring>")
        if isinstance(e, ast.Lambda):
            return ("opaque", "<lambda>")
        if isinstance(e, ast.Slice):
            return self.ev_index(e, env)
        return ("opaque", unparse(e))

    def ev_index(self, sl, env) -> Term:
        if isinstance(sl, ast.Slice):
            return (
                "slice",
                self.ev(sl.lower, env) if sl.lower is not None else None,
                self.ev(sl.upper, env) if sl.upper is not None else None,
                self.ev(sl.step, env) if sl.step is not None else None,
            )
        if isinstance(sl, ast.Tuple):
            return ("tuple", tuple(self.ev_index(x, env) for x in sl.elts))
        return self.ev(sl, env)

    def class_of(self, t: Term) -> Optional[str]:
        """Static class of a receiver term, when it is evident."""
        if t == ("self",):
            return self.self_class
        if t[0] == "new":
            return t[1]
        return None

    def call(self, e: ast.Call, env: Dict[str, Term]) -> Term:
        # super(...).__init__(...) and friends
        fn = self.ev(e.func, env)
        args = []
        for a in e.args:
            v = self.ev(a, env)
            if v[0] == "star" and v[1][0] in ("tuple", "list") and isinstance(v[1][1], tuple):
                args.extend(v[1][1])  # f(*args) with args a tuple built in this function
            else:
                args.append(v)
        args = tuple(args)
        kwargs = tuple((k.arg or "**", self.ev(k.value, env)) for k in e.keywords)
        if any(k == "**" and v[0] == "dict" and all(kk[0] == "const" and isinstance(kk[1], str) for kk, _ in v[1]) for k, v in kwargs):
            # f(**d) with d a dict display built in this walk: its entries are the keyword arguments
            flat = []
            for k, v in kwargs:
                if k == "**" and v[0] == "dict" and all(kk[0] == "const" and isinstance(kk[1], str) for kk, _ in v[1]):
                    flat.extend((kk[1], vv) for kk, vv in v[1])
                else:
                    flat.append((k, v))
            kwargs = tuple(flat)
        # struct.Struct(fmt).unpack(buf) / .pack(...) / .unpack_from(...) are the module functions applied to fmt
        if fn[0] == "attr" and fn[1][0] == "call" and fn[1][1] == ("mod", "struct.Struct") and len(fn[1][2]) == 1 \
                and fn[2] in ("unpack", "pack", "unpack_from", "iter_unpack", "pack_into"):
            fmt = fn[1][2][0]
            fn = ("mod", "struct." + fn[2])
            args = (fmt,) + tuple(args)
        # D.get(k[, default]) on a dispatch table with a constant key
        if fn[0] == "attr" and fn[2] == "get" and fn[1][0] == "dict" and 1 <= len(args) <= 2 and not kwargs \
                and args[0][0] == "const":
            hit = [v for k, v in fn[1][1] if k == args[0]]
            if len(hit) == 1:
                return hit[0]
            if not hit and all(k[0] == "const" for k, _ in fn[1][1]):
                return args[1] if len(args) == 2 else ("const", None)
        # float(M[a][b]) and np.asarray(M[a], dtype=np.float64) on the pre-computed matrix (float64 as loaded / built) are
        # the entries themselves; a narrower dtype is not
        if _matrix_rooted(args[0] if len(args) == 1 else None):
            if fn == ("builtin", "float") and not kwargs:
                return args[0]
            if fn in (("mod", "numpy.asarray"), ("mod", "numpy.asanyarray"), ("mod", "numpy.float64")) and (
                    not kwargs or kwargs == (("dtype", ("mod", "numpy.float64")),) or kwargs == (("dtype", ("builtin", "float")),)):
                return args[0]
        # bool(<comparison>) is the comparison
        if fn == ("builtin", "bool") and len(args) == 1 and not kwargs and args[0][0] in ("cmp", "and", "or", "not"):
            return args[0]
        # setattr(obj, "name", v) is obj.name = v
        if fn == ("builtin", "setattr") and len(args) == 3 and not kwargs and args[1][0] == "const" and isinstance(args[1][1], str):
            tgt = ("attr", args[0], args[1][1])
            self.emit("store", e, target=tgt, value=args[2], name="setattr")
            self.invalidate({args[1][1]}, env, owner=self.stored_owner(tgt))
            return ("const", None)
        # len(self) is self.__len__()
        if fn == ("builtin", "len") and args == (("self",),) and not kwargs and self.self_class:
            lf = self.repo.method(self.self_class, "__len__")
            if lf is not None and len(self.fnstack) <= self.max_depth + 1 and lf not in self.fnstack:
                return self.inline_call(lf, ("self",), (), (), e)
        # x.item() of an element of a numpy buffer built in this walk, or of arithmetic on such: the same number as a
        # Python scalar
        if fn[0] == "attr" and fn[2] == "item" and not args and not kwargs:
            r = fn[1]
            numeric = r[0] in ("bin", "max", "min") or (r[0] == "idx" and root_object(r)[0] == "alloc"
                                                        and str(root_object(r)[1]).startswith("numpy."))
            if numeric:
                return r
        # float(v) of an element of a float buffer built in this walk, or of arithmetic: the same number
        if fn == ("builtin", "float") and len(args) == 1 and not kwargs:
            r = args[0]
            if r[0] in ("bin", "max", "min") or (r[0] == "idx" and root_object(r)[0] == "alloc"
                                                 and str(root_object(r)[1]).startswith("numpy.")
                                                 and dict(root_object(r)[3]).get("dtype") in (None, ("mod", "numpy.float64"), ("builtin", "float"))):
                return r
        # float(v) of a cost / density held by a node or by the queue, of a dissimilarity (either arm of the pre-computed / metric
        # choice), of an accuracy, or of a choice between such values: the same number (these are floats: setters, metrics)
        if fn == ("builtin", "float") and len(args) == 1 and not kwargs and _float_valued(args[0]):
            return args[0]
        # float(M.min()) / np.float64(M.max()) of a float matrix built in this walk: the same number
        if fn in (("builtin", "float"), ("mod", "numpy.float64"), ("mod", "numpy.double")) and len(args) == 1 and not kwargs \
                and args[0][0] == "call" and args[0][1][0] == "attr" and args[0][1][2] in ("min", "max") and not args[0][2] and not args[0][3]:
            b0 = args[0][1][1]
            while b0[0] == "old":
                b0 = b0[1]
            if b0[0] == "alloc" and str(b0[1]).startswith("numpy.") and dict(b0[3]).get("dtype") in (
                    None, ("mod", "numpy.float64"), ("builtin", "float")):
                return args[0]
        # np.float64(0.0) is 0.0
        if fn in (("mod", "numpy.float64"), ("mod", "numpy.double")) and len(args) == 1 and not kwargs and args[0][0] == "const" \
                and isinstance(args[0][1], (int, float)) and not isinstance(args[0][1], bool):
            return ("const", float(args[0][1]))
        # np.fromiter(<generator>, dtype=np.float64[, count=...]) holds the generated values (as float64: costs, distances
        # and densities are floats already; a narrower dtype is not the same table)
        if fn == ("mod", "numpy.fromiter") and len(args) == 1 and args[0][0] == "listcomp" \
                and dict(kwargs).get("dtype") in (("mod", "numpy.float64"), ("builtin", "float"), ("mod", "numpy.double")) \
                and set(dict(kwargs)) <= {"dtype", "count"}:
            return args[0]
        # int(n) of something that is an integer already (a node count, a length, an extent, best_k / k bounds kept on the graph)
        if fn == ("builtin", "int") and len(args) == 1 and not kwargs and (
                (args[0][0] == "attr" and args[0][2] in ("n_nodes", "n_features", "best_k", "n_clusters", "size", "last"))
                or (args[0][0] == "call" and args[0][1] == ("builtin", "len"))
                or (args[0][0] == "idx" and args[0][1][0] == "attr" and args[0][1][2] == "shape" and args[0][2][0] == "const")):
            return args[0]
        # isinstance(<constant>, str / int / ...): an option handed over as a literal has the literal's type
        if fn == ("builtin", "isinstance") and len(args) == 2 and not kwargs and args[0][0] == "const" \
                and args[1][0] == "builtin" and args[1][1] in ("str", "int", "float", "bool", "bytes"):
            return ("const", isinstance(args[0][1], {"str": str, "int": int, "float": float, "bool": bool, "bytes": bytes}[args[1][1]]))
        # int(struct.unpack(fmt, buf)[k]): the fields the library's formats unpack at the head of a record are integers already
        if fn == ("builtin", "int") and len(args) == 1 and not kwargs and args[0][0] == "idx" and args[0][2][0] == "const" \
                and args[0][1][0] == "call" and args[0][1][1] == ("mod", "struct.unpack") and args[0][1][2] \
                and isinstance(args[0][2][1], int) and args[0][2][1] >= 0:
            fmt = args[0][1][2][0]
            if fmt[0] == "bin" and fmt[1] == "+" and "const" in (fmt[2][0], fmt[3][0]):  # '<ii' + 'f' * n: the leading fields
                fmt, lead = (fmt[2] if fmt[2][0] == "const" else fmt[3]), True  # (operands are kept in canonical order)
            else:
                lead = False
            if fmt[0] == "const" and isinstance(fmt[1], str):
                codes = fmt[1].lstrip("<>=!@")
                if codes and set(codes) <= set("iIlLqQhHbB") and (args[0][2][1] < len(codes) if lead else True):
                    return args[0]
        # int(np.max(labels)) of a label vector: labels are integers already
        if fn == ("builtin", "int") and len(args) == 1 and not kwargs and args[0][0] == "call" \
                and args[0][1] in (("mod", "numpy.max"), ("mod", "numpy.amax")) and len(args[0][2]) == 1 and not args[0][3]:
            r0 = args[0][2][0]
            while r0[0] in ("call", "alloc") and r0[2] and (r0[1] in (("mod", "numpy.asarray"), ("mod", "numpy.asanyarray"))
                                                          or r0[1] in ("numpy.asarray", "numpy.asanyarray")):
                r0 = r0[2][0]
            if r0[0] == "param" and (r0[1].lower().startswith(("label", "pred", "y"))):
                return args[0]
        # float(d) of a value a metric returned (a float already)
        if fn == ("builtin", "float") and len(args) == 1 and not kwargs and args[0][0] == "call" and (
                (args[0][1][0] == "attr" and args[0][1][2] == "distance_fn")
                or (args[0][1][0] == "param" and args[0][1][1] in ("distance_function", "distance_fn"))
                or (args[0][1][0] == "idx" and args[0][1][1] == ("mod", "opfython.math.distance.DISTANCES"))):
            return args[0]
        # operator.index(x) is x for every integer x (and an error otherwise)
        if fn in (("mod", "operator.index"), ("mod", "_operator.index")) and len(args) == 1 and not kwargs:
            return args[0]
        # operator.lt(a, b) and friends are the comparisons themselves
        if fn[0] == "mod" and fn[1] in OPERATOR_CMP and len(args) == 2 and not kwargs:
            return mk_cmp(OPERATOR_CMP[fn[1]], args[0], args[1])
        # local functions: the body is walked in the environment of the call site (same scope)
        r = self.call_closure(fn, args, kwargs, e, env)
        if r is not None:
            return r
        # range(0, n[, 1]) is range(n); range(a, b, 1) is range(a, b)
        if fn == ("builtin", "range") and not kwargs and len(args) in (2, 3):
            if len(args) == 3 and args[2] == ("const", 1):
                args = args[:2]
            if len(args) == 2 and args[0] == ("const", 0):
                args = args[1:]
        # reversed(range(n)) is range(n - 1, -1, -1); reversed(range(a, b)) is range(b - 1, a - 1, -1)
        if fn == ("builtin", "reversed") and len(args) == 1 and not kwargs and args[0][0] == "call" \
                and args[0][1] == ("builtin", "range") and not args[0][3] and len(args[0][2]) in (1, 2):
            ra = args[0][2]
            lo, hi = (("const", 0), ra[0]) if len(ra) == 1 else ra
            m1 = ("const", -1)
            new_lo = ("const", hi[1] - 1) if hi[0] == "const" and isinstance(hi[1], int) else self.binop("-", hi, ("const", 1))
            new_hi = ("const", lo[1] - 1) if lo[0] == "const" and isinstance(lo[1], int) else self.binop("-", lo, ("const", 1))
            t = ("call", ("builtin", "range"), (new_lo, new_hi, m1), ())
            self.emit("call", e, target=("builtin", "range"), value=t, name="builtin.range", args=t[2], kwargs=())
            return t
        # len of a 1-D array allocated in this function with a scalar size is that size
        if fn == ("builtin", "len") and len(args) == 1 and not kwargs and args[0][0] == "alloc" \
                and args[0][1] in ("numpy.zeros", "numpy.empty", "numpy.ones") and args[0][2] \
                and args[0][2][0][0] not in ("tuple", "list"):
            return args[0][2][0]
        # len([f(v) for v in xs]) is len(xs)
        if fn == ("builtin", "len") and len(args) == 1 and not kwargs and args[0][0] == "listcomp" \
                and len(args[0][2]) == 1 and not args[0][2][0][2]:
            args = (args[0][2][0][0],)
        # Color(x) on an IntEnum of the constants module is the member equal to x (an error for any other x)
        if fn[0] == "K" and len(args) == 1 and not kwargs and any(c0 == fn[1] for c0, _ in getattr(self.repo, "enum_alias", {})):
            return args[0]
        # rec._asdict() of a record whose class this walk knows: {field name: value}
        if fn[0] == "attr" and fn[2] == "_asdict" and fn[1][0] == "tuple" and not args and not kwargs \
                and self.__dict__.get("record_of", {}).get(fn[1]) is not None:
            names = [f for f, _ in named_tuple_fields(self.repo, self.record_of[fn[1]])]
            return ("dict", tuple((("const", f), v) for f, v in zip(names, fn[1][1])))
        # rec._replace(field=v) on a NamedTuple record known field by field: the record with that field exchanged
        if fn[0] == "attr" and fn[2] == "_replace" and fn[1][0] == "tuple" and not args and kwargs and all(k != "**" for k, _ in kwargs):
            cands = [names for names in all_named_tuples(self.repo) if len(names) == len(fn[1][1]) and all(k in names for k, _ in kwargs)]
            if cands and all({k: c0.index(k) for k, _ in kwargs} == {k: cands[0].index(k) for k, _ in kwargs} for c0 in cands):
                items = list(fn[1][1])
                for k, v in kwargs:
                    items[cands[0].index(k)] = v
                rec = ("tuple", tuple(items))
                if self.__dict__.get("record_of", {}).get(fn[1]) is not None:
                    self.record_of[rec] = self.record_of[fn[1]]
                return rec
        # calling a record whose class defines __call__
        if fn[0] == "tuple" and not any(a[0] == "star" for a in args):
            fn = ("attr", fn, "__call__")
        # a method of the one NamedTuple record class of that size that has it: its body, with self the record
        if fn[0] == "attr" and fn[1][0] == "tuple" and (not fn[2].startswith("_") or fn[2] == "__call__"):
            meths = []
            for mi_r in self.repo.modules.values():
                for cname_r, ci_r in mi_r.classes.items():
                    f_r = named_tuple_fields(self.repo, cname_r)
                    if f_r is not None and len(f_r) == len(fn[1][1]) and fn[2] in ci_r.methods:
                        meths.append(ci_r.methods[fn[2]])
            if len(meths) == 1 and meths[0] not in self.fnstack and len(self.fnstack) <= self.max_depth \
                    and not any(d.split("(")[0].split(".")[-1] in ("staticmethod", "classmethod") for d in meths[0].decorators):
                return self.inline_call(meths[0], fn[1], args, kwargs, e)
        # vars(x) is x.__dict__
        if fn == ("builtin", "vars") and len(args) == 1 and not kwargs:
            return ("attr", args[0], "__dict__")
        # tuple(xs) of a list whose contents this walk knows
        if fn == ("builtin", "tuple") and len(args) == 1 and not kwargs and self.list_items(args[0]) is not None:
            return ("tuple", self.list_items(args[0]))
        # max/min idioms
        fname = None
        if fn[0] == "mod":
            fname = fn[1]
        elif fn[0] == "builtin":
            fname = "builtin." + fn[1]
        if fname in MAX_FUNCS and len(args) >= 2 and not kwargs:
            return mk_ext("max", list(args))
        if fname in MIN_FUNCS and len(args) >= 2 and not kwargs:
            return mk_ext("min", list(args))
        if fname in ALLOC_FUNCS or (fname and fname.startswith(("numpy.random.", "random."))
                                    and not fname.endswith(".seed")):
            self._site += 1
            t = ("alloc", fname, args, kwargs, self._site)
            self.emit("call", e, target=fn, value=t, name=fname, args=args, kwargs=kwargs)
            return t
        # constructors of repository classes
        if fn[0] == "mod":
            cname = fn[1].split(".")[-1]
            if fn[1].startswith("opfython") and self.repo.has_class(cname) and named_tuple_fields(self.repo, cname) is not None \
                    and not any(a[0] == "star" for a in args) and not any(k == "**" for k, _ in kwargs):
                # a NamedTuple record is the tuple of its fields (unpacked, indexed or read by name alike)
                fields = named_tuple_fields(self.repo, cname)
                names = [f for f, _ in fields]
                vals = dict(zip(names, args))
                vals.update({k: v for k, v in kwargs if k in names})
                for f, dflt in fields:
                    if f not in vals and dflt is not None:
                        vals[f] = self._ev_in_module(dflt, self.repo.modules[self.repo.memo[("named_tuple_fields", cname)][0]])
                if len(args) <= len(names) and set(vals) == set(names):
                    rec = ("tuple", tuple(vals[f] for f in names))
                    self.__dict__.setdefault("record_of", {})[rec] = cname
                    return rec
            if fn[1].startswith("opfython") and self.repo.has_class(cname):
                self._site += 1
                t = ("new", cname, args, kwargs, self._site)
                self.emit("call", e, target=fn, value=t, name="__new__", args=args, kwargs=kwargs)
                return t
        # method calls
        if fn[0] == "attr":
            recv, meth = fn[1], fn[2]
            rcls = self.class_of(recv)
            if rcls == "Heap" and meth == "remove":
                self._site += 1
                lid = self.loopstack[-1] if self.loopstack else 0
                t = ("hremove", recv, lid, self._site)
                self.emit("call", e, target=fn, value=t, name=meth, args=args, kwargs=kwargs)
                # the heap API writes INTO its arrays (they are bound once, in __init__) and rebinds only `last`
                self.invalidate(HEAP_ARRAYS, env, cause="call:remove", owner="heap", elements_only=True)
                self.invalidate({"last"}, env, cause="call:remove", owner="heap")
                return t
            if rcls:
                fi = self.repo.method(rcls, meth)
                if fi is not None and self.inline(fi) and len(self.fnstack) <= self.max_depth and fi not in self.fnstack:
                    return self.inline_call(fi, recv, args, kwargs, e)
            elif self._is_node_term(recv) and self.repo.has_class("Node") and meth in self.repo.find_class("Node").methods \
                    and api_signature(self.repo.find_class("Node").methods[meth]) is None and not meth.startswith("__") \
                    and not self.repo.find_class("Node").methods[meth].decorators:
                # a helper method added to Node, called on a node of a graph: its body
                nfi = self.repo.find_class("Node").methods[meth]
                if self.inline(nfi) and len(self.fnstack) <= self.max_depth and nfi not in self.fnstack:
                    return self.inline_call(nfi, recv, args, kwargs, e)
            elif recv[0] == "attr" and recv[2] == "subgraph":
                # a method of the training graph that the documented API does not have (a helper added next to
                # create_arcs & co.): when its name is unique among the graph classes, the call is its body
                cands = [ci.methods[meth] for ci in (self.repo.find_class(c) for c in ("Subgraph", "KNNSubgraph")
                                                     if self.repo.has_class(c)) if meth in ci.methods]
                if len(cands) == 1 and api_signature(cands[0]) is None and self.inline(cands[0]) \
                        and len(self.fnstack) <= self.max_depth and cands[0] not in self.fnstack:
                    return self.inline_call(cands[0], recv, args, kwargs, e)
            args, kwargs = self._positional(meth, args, kwargs, self.repo.method(rcls, meth) if rcls else None)
            t = ("call", fn, args, kwargs)
            self.emit("call", e, target=fn, value=t, name=meth, args=args, kwargs=kwargs)
            if recv[0] == "alloc" and recv[1] == "list" and recv[-1] in self.__dict__.get("lists", {}) \
                    and (meth in CONTAINER_MUTATORS or meth == "__setitem__"):
                ent = self.lists[recv[-1]]
                if ent is not None and meth == "append" and len(args) == 1 and not kwargs \
                        and ent[1] == tuple(self.loopstack) and ent[2] == tuple(self.guards):
                    ent[0].append(args[0])
                else:
                    self.lists[recv[-1]] = None
            if rcls == "Heap" and meth in ("update", "insert"):
                keep = None
                if args:
                    # update(q, c) / insert(q) write cost[q] only: a copy of cost[x] taken under x != q stays exact
                    q = args[0]

                    def keep(t, q=q, recv=recv):
                        if t[0] == "idx" and t[1] == ("attr", recv, "cost") and not reads_field(t[2], HEAP_ARRAYS, "heap"):
                            x = t[2]
                            return (mk_cmp("==", x, q), False) in self.guards or (mk_cmp("!=", x, q), True) in self.guards
                        return False
                self.invalidate(HEAP_ARRAYS, env, cause="call:" + meth, owner="heap", elements_only=True, keep=keep)
                self.invalidate({"last"}, env, cause="call:" + meth, owner="heap")
            elif meth in CONTAINER_MUTATORS and recv[0] == "attr" and rcls is None:
                self.invalidate({recv[2]}, env, elements_only=True, cause="call:" + meth)
            else:
                ws = self.call_writes(meth)
                rb = rebind_summaries(self.repo).get(meth, set())
                self.invalidate(ws & rb, env, cause="call:" + meth)
                self.invalidate(ws - rb, env, cause="call:" + meth, elements_only=True)
            return t
        # module-level repository functions
        if fn[0] == "mod" and fn[1].startswith("opfython"):
            mod, _, name = fn[1].rpartition(".")
            mi = self.repo.modules.get(mod)
            if mi and name in mi.functions:
                fi = mi.functions[name]
                if self.inline(fi) and len(self.fnstack) <= self.max_depth and fi not in self.fnstack:
                    return self.inline_call(fi, None, args, kwargs, e)
                args, kwargs = self._positional(name, args, kwargs, fi)
            # `Class.helper(...)`: a static method called through its class
            cname = mod.rpartition(".")[2]
            owners = [ci for m2 in self.repo.modules.values() for cn, ci in m2.classes.items() if cn == cname]
            if mi is None and len(owners) == 1 and name in owners[0].methods:
                fi = owners[0].methods[name]
                if any(d.split("(")[0].split(".")[-1] == "staticmethod" for d in fi.decorators) and self.inline(fi) \
                        and len(self.fnstack) <= self.max_depth and fi not in self.fnstack:
                    return self.inline_call(fi, None, args, kwargs, e)
        t = ("call", fn, args, kwargs)
        self.emit("call", e, target=fn, value=t, name=fname or show(fn), args=args, kwargs=kwargs)
        return t

    def _ev_in_module(self, node: ast.AST, mi) -> Term:
        """Evaluate a constant expression written at class / module level of `mi` (names resolve through that module's
        imports)."""
        if isinstance(node, ast.Constant):
            return ("const", node.value)
        if isinstance(node, ast.UnaryOp) and isinstance(node.op, ast.USub):
            v = self._ev_in_module(node.operand, mi)
            if v[0] == "const" and isinstance(v[1], (int, float)) and not isinstance(v[1], bool):
                return ("const", -v[1])
            return ("neg", v)
        if isinstance(node, (ast.Tuple, ast.List)):
            return ("tuple", tuple(self._ev_in_module(x, mi) for x in node.elts))
        if isinstance(node, ast.Name) and node.id in BUILTINS:
            return ("builtin", node.id)
        if isinstance(node, ast.Dict):
            return ("dict", tuple((self._ev_in_module(k, mi), self._ev_in_module(v, mi)) for k, v in zip(node.keys, node.values)))
        if isinstance(node, ast.Name) and node.id in mi.functions:
            return ("mod", f"{mi.name}.{node.id}")
        if isinstance(node, ast.Attribute) and isinstance(node.value, ast.Name):
            imps = getattr(mi, "imports", None) or {}
            target = imps.get(node.value.id)
            if target == CONST_MOD:
                val = self.repo.constants.get(node.attr)
                if isinstance(val, str):
                    return ("const", val)
                if node.attr not in LIBRARY_CONSTANTS and isinstance(val, (int, float)) and not isinstance(val, bool):
                    return ("const", val)
                return ("K", node.attr)
            if target in ("numpy",):
                return ("mod", f"numpy.{node.attr}")
            if target and target.startswith("opfython") and target in self.repo.modules:
                return ("mod", f"{target}.{node.attr}")
        raise AnalysisError("class constant outside the literal fragment")

    @staticmethod
    def _is_node_term(t: Term) -> bool:
        """nodes[i] / an element of a loop over .nodes (of self or of a subgraph field)."""
        if t[0] == "idx" and t[1][0] == "attr" and t[1][2] == "nodes":
            return True
        if t[0] == "iter" and t[1][0] == "attr" and t[1][2] == "nodes":
            return True
        if t[0] == "iterproj" and t[1][0] == "call" and t[1][1] == ("builtin", "enumerate") and t[3] == (1,) \
                and t[1][2] and t[1][2][0][0] == "attr" and t[1][2][0][2] == "nodes":
            return True
        return False

    def _k_value(self, a: Term, b: Term):
        k, cst = (a, b) if a[0] == "K" else (b, a)
        v = self.repo.constants.get(k[1])
        if isinstance(v, (int, float)) and not isinstance(v, bool) and isinstance(cst[1], (int, float)) \
                and not isinstance(cst[1], bool):
            return v, cst[1]
        return None

    def _positional(self, meth: str, args, kwargs, fi=None):
        """`g.create_arcs(k=best_k, distance_function=f)` is `g.create_arcs(best_k, f)`: keyword arguments of a call to a
        method of the library are put in the positions the (unique) signature of that name gives them."""
        if not kwargs or any(k == "**" for k, _ in kwargs):
            return args, kwargs
        memo = self.repo.memo.setdefault("method_params", {})
        if fi is not None and not fi.node.args.vararg and not fi.node.args.kwarg and not fi.node.args.kwonlyargs:
            memo = {meth: tuple(p for p in fi.params if p != "self")}  # the callee is known: its own signature
        if meth not in memo:
            sigs = set()
            for mi in self.repo.modules.values():
                for ci in mi.classes.values():
                    fi = ci.methods.get(meth)
                    if fi is not None and not fi.node.args.vararg and not fi.node.args.kwarg and not fi.node.args.kwonlyargs:
                        sigs.add(tuple(p for p in fi.params if p != "self"))
                    elif fi is not None:
                        sigs.add(None)
            memo[meth] = next(iter(sigs)) if len(sigs) == 1 else None
        params = memo[meth]
        if params is None:
            return args, kwargs
        kw = dict(kwargs)
        rest = params[len(args):]
        if not set(kw) <= set(rest):
            return args, kwargs
        out = list(args)
        left = dict(kw)
        for p in rest:
            if p in left:
                out.append(left.pop(p))
            else:
                break  # a gap (parameter left at its default): the remaining ones stay keywords
        return tuple(out), tuple((k, v) for k, v in kwargs if k in left)

    def call_closure(self, fn: Term, args, kwargs, e: ast.Call, env: Dict[str, Term]) -> Optional[Term]:
        if fn[0] == "closure" and len(fn) == 4 and fn[3] in self.closures and fn[2] == self.fnstack[-1].fq \
                and len(self.fnstack) <= self.max_depth + 1:
            cfi = self.closures[fn[3]]
            if cfi.decorators or any(isinstance(x, (ast.Nonlocal, ast.Global, ast.Yield, ast.YieldFrom))
                                     for x in ast.walk(cfi.node)):
                return None
            return self.inline_call(cfi, None, args, kwargs, e, outer_env=env)
        if fn[0] == "sel" and fn[2][0] == "closure" and fn[3][0] == "closure":
            c = fn[1]
            self.guards.append((c, True))
            a = self.call_closure(fn[2], args, kwargs, e, env)
            self.guards.pop()
            if a is None:
                return None
            self.guards.append((c, False))
            b = self.call_closure(fn[3], args, kwargs, e, env)
            self.guards.pop()
            if b is None:
                return None
            return a if a == b else ("sel", c, a, b)
        return None

    def inline_call(self, fi: FunctionInfo, recv, args, kwargs, e: ast.Call, outer_env=None) -> Term:
        is_gen = any(isinstance(n, (ast.Yield, ast.YieldFrom)) for n in ast.walk(fi.node))
        if is_gen or any(d.split("(")[0].split(".")[-1] not in ("staticmethod", "njit", "jit", "property") for d in fi.decorators):
            # (a generator function called as an expression hands back a generator object, not the value its body returns)
            # a decorated helper is not its body (memoisation, wrapping, ...): keep the call opaque
            fn = ("attr", recv, fi.name) if recv is not None else ("mod", f"{fi.module}.{fi.qual}")
            t = ("call", fn, args, kwargs)
            self.emit("call", e, target=fn, value=t, name=fi.name, args=args, kwargs=kwargs)
            self.invalidate(self.call_writes(fi.name), None, cause="call:" + fi.name)
            return t
        params = fi.params
        env: Dict[str, Term] = dict(outer_env) if outer_env is not None else {}
        for p in params:
            env.pop(p, None)
        a = fi.node.args
        defaults = {}
        pos = a.posonlyargs + a.args
        for p, dflt in zip(reversed(pos), reversed(a.defaults)):
            defaults[p.arg] = dflt
        for p, dflt in zip(a.kwonlyargs, a.kw_defaults):
            if dflt is not None:
                defaults[p.arg] = dflt
        plist = list(params)
        if recv is not None and plist and plist[0] == "self":
            env["self"] = recv
            plist = plist[1:]
        for p, v in zip(plist, args):
            env[p] = v
        if a.vararg is not None:
            npos = len(pos) - (1 if recv is not None and pos and pos[0].arg == "self" else 0)
            env[a.vararg.arg] = ("tuple", tuple(args[npos:]))
        for k, v in kwargs:
            if k in plist:
                env[k] = v
        if a.kwarg is not None:
            # `**options`: the keyword arguments no parameter takes, as a table (handed on with `**options` it is those keywords)
            env[a.kwarg.arg] = ("dict", tuple((("const", k), v) for k, v in kwargs if k not in plist and k != "**"))
        self.fnstack.append(fi)
        for p in plist:
            if p not in env:
                env[p] = self.ev(defaults[p], {}) if p in defaults else ("param", p)
        self.inlined.append(fi.fq)
        self.emit("call", e, target=("mod", fi.fq), value=("ret", fi.fq, self._seq), name="<inline>",
                  args=args, kwargs=kwargs)
        n0 = len(self.events)
        saved_stmt = self.stmt
        self.envstack.append(env)
        self.block(fi.node.body, env)
        self.envstack.pop()
        self.stmt = saved_stmt
        self.fnstack.pop()
        rets = [ev for ev in self.events[n0:] if ev.kind == "return" and ev.fn is fi]
        if len(rets) == 1:
            return rets[0].value
        if not rets:
            return ("const", None)
        base = len(self.guards)
        folded = self._fold_returns([(ev.guards[base:], ev.value) for ev in rets if not ev.loops[len(self.loopstack):]])
        if folded is not None and len([ev for ev in rets if ev.loops[len(self.loopstack):]]) == 0:
            return folded
        self._site += 1
        return ("ret", fi.fq, self._site)

    def _fold_returns(self, items) -> Optional[Term]:
        """`if c: return A` / `return B`  ->  sel(c, A, B) (guards relative to the call site)."""
        r = self._fold_returns_split(items)
        if r is None and len(items) >= 2:
            # `if a: if b: return A` / `return B`: the last return is what every path that took none of the earlier ones
            # reaches; the earlier ones are tried in source order
            gd = items[-1][0]
            if all(tuple(g[:len(gd)]) == tuple(gd) and len(g) > len(gd) for g, _ in items[:-1]):
                acc = items[-1][1]
                for g, v in reversed(items[:-1]):
                    conds = [c if pol else mk_not(c) for c, pol in g[len(gd):]]
                    cond = conds[0] if len(conds) == 1 else ("and", tuple(conds))
                    acc = nan_identity(("sel", cond, v, acc))
                return acc
        return r

    def _fold_returns_split(self, items) -> Optional[Term]:
        if not items:
            return None
        if len(items) == 1:
            g, v = items[0]
            return v if not g else None
        g0, v0 = items[0]
        if not g0:
            return None
        (c, pol) = g0[0]
        if c[0] == "const" and isinstance(c[1], bool):
            keep = [(g[1:], v) for g, v in items if g[:1] == ((c, pol),)] if (c[1] == pol) else \
                   [(g[1:], v) for g, v in items if g[:1] == ((c, not pol),)]
            return self._fold_returns(keep)
        rest_same = [(g[1:], v) for g, v in items if g[:1] == ((c, pol),)]
        rest_other = [(g[1:], v) for g, v in items if g[:1] == ((c, not pol),)]
        if len(rest_same) + len(rest_other) != len(items) or not rest_other:
            # the complement of `a or b` is carried as the two guards (not a), (not b)
            neg = tuple(self.expand_guard(c, not pol))
            if len(neg) > 1:
                rest_other = [(g[len(neg):], v) for g, v in items if tuple(g[:len(neg)]) == neg]
            if len(rest_same) + len(rest_other) != len(items) or not rest_other:
                return None
        a = self._fold_returns(rest_same)
        b = self._fold_returns(rest_other)
        if a is None or b is None:
            return None
        return nan_identity(("sel", c, a, b) if pol else ("sel", c, b, a))



def nan_identity(t: Term) -> Term:
    """`FLOAT_MAX if isnan(x) else x` is x for every x that is a number (the quantities the rules speak about - distances
    of finite data, costs - are never NaN; a NaN would lose every `<` exactly like FLOAT_MAX does)."""
    isnan = lambda c: c[0] == "call" and c[1] in (("mod", "numpy.isnan"), ("mod", "math.isnan")) and len(c[2]) == 1 and not c[3]
    if t[0] == "sel":
        c, a, b = t[1], t[2], t[3]
        if isnan(c) and a == ("K", "FLOAT_MAX") and c[2][0] == b:
            return b
        if c[0] == "not" and isnan(c[1]) and b == ("K", "FLOAT_MAX") and c[1][2][0] == a:
            return a
    return t


# ---------------------------------------------------------------------------
# helpers shared by rule modules
# ---------------------------------------------------------------------------


def walk_function(repo: Repo, fi: FunctionInfo, self_class: str = None, inline=None) -> Walker:
    return Walker(repo, fi, self_class=self_class, inline=inline)


def derived_phis(w) -> Dict[Term, Term]:
    """Loop-carried variables that are a function of another carried variable of the same loop, by induction:
    v starts as f(u0) and ends every iteration as f(u_end) for the same f  =>  at the loop head v = f(u).
    (`left = self.left_son(i)` before a loop whose body ends with `i = j; left = self.left_son(i)`.)"""
    out: Dict[Term, Term] = {}
    HOLE = ("free", "<hole>")

    def plug(t, what):
        if t == what:
            return HOLE
        if isinstance(t, tuple):
            return tuple(plug(x, what) for x in t)
        return t

    for li in w.loops.values():
        for v, (iv, ev) in li.carried.items():
            if iv[0] in ("undef", "const", "param"):
                continue
            for u, (iu, eu) in li.carried.items():
                if u == v or iu[0] == "undef":
                    continue
                fi, fe = plug(iv, iu), plug(ev, eu)
                if fi != fe and eu[0] != "phi" and plug_back(fe, HOLE, iu) == iv:
                    fi = fe  # the start value is the same function of u0 (u0 may also occur in parts f does not touch)
                if fi == fe and any(x == HOLE for x in subterms(fi)) and fi != HOLE:
                    phi_u = ("phi", li.lid, u)
                    if not any(x == ("phi", li.lid, v) for x in subterms(fi)) \
                            and not any(x == phi_u for x in subterms(fi)):
                        out[("phi", li.lid, v)] = plug_back(fi, HOLE, phi_u)
                        break
    return out


def plug_back(t, hole, what):
    if t == hole:
        return what
    if isinstance(t, tuple):
        return tuple(plug_back(x, hole, what) for x in t)
    return t


def substitute_view(w, mapping: Dict[Term, Term]):
    """A read-only view of a walk whose events / loops have `mapping` applied to every term."""
    import dataclasses
    import types
    if not mapping:
        return w

    def R(t):
        if t is None:
            return None
        if t in mapping:
            return R(mapping[t])
        if isinstance(t, tuple):
            return tuple(R(x) if isinstance(x, tuple) else x for x in t)
        return t

    view = types.SimpleNamespace(**{k: getattr(w, k) for k in ("entry", "repo", "guard_src", "old_cause", "inlined", "binop")
                                    if hasattr(w, k)})
    view.events = [dataclasses.replace(e, target=R(e.target), value=R(e.value), args=tuple(R(a) for a in e.args),
                                       kwargs=tuple((k, R(v)) for k, v in e.kwargs),
                                       guards=tuple((R(g), pol) for g, pol in e.guards)) for e in w.events]
    view.loops = {}
    for lid, li in w.loops.items():
        view.loops[lid] = dataclasses.replace(li, cond=R(li.cond), domain=R(li.domain),
                                              guards=tuple((R(g), pol) for g, pol in li.guards),
                                              carried={n: (R(a), R(b)) for n, (a, b) in li.carried.items()})
    for g, src in list(w.guard_src.items()):
        view.guard_src.setdefault(R(g), src)
    return view


def settle_record_carries(w) -> int:
    """A loop-carried variable that holds a record (`best = Best(acc, t, model)` ... `best = Best(...)` under a test): one
    carried variable per field, `best.accuracy` / `best[0]` reading the first of them.  Rewritten in place when every value
    the variable takes is a record of the same size and every use of it is a field read."""
    import dataclasses
    done = 0
    for li in list(w.loops.values()):
        for v, (init, end) in list(li.carried.items()):
            if init[0] != "tuple" or not init[1] or any(x[0] == "star" for x in init[1]):
                continue
            n = len(init[1])
            phi = ("phi", li.lid, v)

            def leaves(t):
                if t[0] == "sel":
                    return leaves(t[2]) + leaves(t[3])
                return [t]
            if not all(x == phi or (x[0] == "tuple" and len(x[1]) == n) for x in leaves(end)):
                continue
            names = [nm for nm in all_named_tuples(w.repo) if len(nm) == n]

            def field_pos(attr):
                pos = {nm.index(attr) for nm in names if attr in nm}
                return pos.pop() if len(pos) == 1 else None
            part = lambda k: ("phi", li.lid, f"{v}.{k}")
            state = {"ok": True}

            def R(t):
                if t is None or not isinstance(t, tuple) or not t:
                    return t
                if t[0] == "attr" and t[1] == phi:
                    k = field_pos(t[2])
                    if k is None:
                        state["ok"] = False
                        return t
                    return part(k)
                if t[0] == "idx" and t[1] == phi and t[2][0] == "const" and isinstance(t[2][1], int) and -n <= t[2][1] < n:
                    return part(t[2][1] % n)
                if t == phi:
                    return ("tuple", tuple(part(k) for k in range(n)))
                t = tuple(R(x) if isinstance(x, tuple) else x for x in t)
                if t[0] in ("attr", "idx") and t[1][0] == "sel":
                    # a field of the merged record (`best.model` after `if acc > best.accuracy: best = Best(...)`)
                    k = field_pos(t[2]) if t[0] == "attr" else (t[2][1] % n if t[2][0] == "const" and isinstance(t[2][1], int)
                                                                 and -n <= t[2][1] < n else None)

                    def pick(x):
                        if x[0] == "sel":
                            a, b = pick(x[2]), pick(x[3])
                            if a is None or b is None:
                                return None
                            return a if a == b else ("sel", x[1], a, b)
                        return x[1][k] if x[0] == "tuple" and len(x[1]) == n else None
                    got = pick(t[1]) if k is not None else None
                    if got is not None:
                        return got
                return t

            def proj(t, k):
                if t[0] == "sel":
                    a, b = proj(t[2], k), proj(t[3], k)
                    return a if a == b else ("sel", R(t[1]), a, b)
                return part(k) if t == phi else R(t[1][k])
            new_events = [dataclasses.replace(e, target=R(e.target), value=R(e.value), args=tuple(R(a) for a in (e.args or ())),
                                              kwargs=tuple((k2, R(x)) for k2, x in (e.kwargs or ())),
                                              guards=tuple((R(g), pol) for g, pol in e.guards)) for e in w.events]
            new_loops = {}
            for lid, l2 in w.loops.items():
                car = {}
                for n2, (a2, b2) in l2.carried.items():
                    if lid == li.lid and n2 == v:
                        for k in range(n):
                            car[f"{v}.{k}"] = (init[1][k], proj(end, k))
                    else:
                        car[n2] = (R(a2), R(b2))
                new_loops[lid] = (R(l2.cond), R(l2.domain), tuple((R(g), pol) for g, pol in l2.guards), car)
            if not state["ok"]:
                continue
            w.events[:] = new_events
            for lid, (c2, d2, g2, car) in new_loops.items():
                l2 = w.loops[lid]
                l2.cond, l2.domain, l2.guards, l2.carried = c2, d2, g2, car
            for g, src in list(w.guard_src.items()):
                w.guard_src.setdefault(R(g), src)
            done += 1
    return done


def settle_optional_minima(w) -> int:
    """`best = None` before a scan and every test of it in the scan of the form `best is None or x < best` (or the negation
    `best is not None and best <= x`): the running minimum starts at "nothing yet", which every candidate beats.  For finite
    candidates that is a minimum that starts at FLOAT_MAX (x < FLOAT_MAX holds for each of them) - the spelling the scan rules
    know.  The None tests are dropped and the start value replaced, in place; a loop that tests `best is None` in any other
    way is left alone.  Returns the number of variables rewritten."""
    import dataclasses
    done = 0
    for li in list(w.loops.values()):
        for v, (init, end) in list(li.carried.items()):
            if init != ("const", None):
                continue
            phi = ("phi", li.lid, v)
            N = ("cmp", "is", phi, ("const", None))
            NN = ("cmp", "is not", phi, ("const", None))
            state = {"ok": True, "n": 0}
            # minimum or maximum?  The acceptance test under which the variable is replaced says: `x < best` / `best < x`
            start = None
            t_end = end
            while t_end[0] == "sel" and start is None:
                c_end = t_end[1]
                parts = c_end[1] if c_end[0] == "or" else ()
                if N in parts:
                    xs = [x for x in parts if x[0] == "cmp" and x[1] in ("<", "<=") and phi in (x[2], x[3])]
                    if len(xs) == 1:
                        start = ("K", "FLOAT_MAX") if xs[0][3] == phi else ("neg", ("K", "FLOAT_MAX"))
                    break
                t_end = t_end[2] if t_end[3] == phi else t_end[3]
            if start is None:
                # `not best or x < best`: "nothing yet" tested by truthiness, which a best of exactly 0 also is
                ordc = lambda t: t[0] == "cmp" and t[1] in ("<", "<=") and phi in (t[2], t[3])
                truthy = [e for e in w.events for g, _ in e.guards
                          if (g[0] == "or" and ("not", phi) in g[1] and any(ordc(x) for x in g[1]))
                          or (g == phi and any(ordc(g2) for g2, _ in e.guards))]
                if truthy and not any(u in (N, NN) for e in w.events for g, _ in e.guards for u in subterms(g)):
                    w.__dict__.setdefault("truthy_optional", []).append((v, li.lid, truthy[0]))
                continue

            def orders(t):
                return t[0] == "cmp" and t[1] in ("<", "<=") and phi in (t[2], t[3])

            def R(t):
                if t is None or not isinstance(t, tuple) or not t:
                    return t
                if t == N or t == NN:
                    state["ok"] = False  # a None test on its own
                    return t
                if t[0] in ("or", "and") and len(t) == 2 and isinstance(t[1], tuple) and ((N if t[0] == "or" else NN) in t[1]):
                    rest = tuple(R(x) for x in t[1] if x != (N if t[0] == "or" else NN))
                    if not any(orders(x) for x in rest):
                        state["ok"] = False
                        return t
                    state["n"] += 1
                    return rest[0] if len(rest) == 1 else (t[0], rest)
                return tuple(R(x) if isinstance(x, tuple) else x for x in t)

            def RG(guards):
                # a dominating `best is not None` next to an ordering test of best (the two halves of a failed
                # `best is None or x < best`) says nothing once the start value is a number
                out = []
                for g, pol in guards:
                    if (g == N and not pol) or (g == NN and pol):
                        if any(orders(g2) for g2, _ in guards):
                            state["n"] += 1
                            continue
                        state["ok"] = False
                    out.append((R(g), pol))
                return tuple(out)

            new_events = [dataclasses.replace(e, target=R(e.target), value=R(e.value), args=tuple(R(a) for a in (e.args or ())),
                                              kwargs=tuple((k, R(x)) for k, x in (e.kwargs or ())),
                                              guards=RG(e.guards)) for e in w.events]
            new_loops = {}
            for lid, l2 in w.loops.items():
                new_loops[lid] = (R(l2.cond), R(l2.domain), RG(l2.guards),
                                  {n: (R(a), R(b)) for n, (a, b) in l2.carried.items()})
            if not state["ok"] or state["n"] == 0:
                continue
            new_src = {R(g): src for g, src in w.guard_src.items() if g not in (N, NN)}
            w.events[:] = new_events
            for lid, (c2, d2, g2, car) in new_loops.items():
                l2 = w.loops[lid]
                l2.cond, l2.domain, l2.guards, l2.carried = c2, d2, g2, car
            for g, src in new_src.items():
                w.guard_src.setdefault(g, src)
            a0, b0 = w.loops[li.lid].carried[v]
            w.loops[li.lid].carried[v] = (start, b0)
            done += 1
    return done


def settle_lazy_inits(w) -> int:
    """`row = None` before a loop and `if row is None: row = E` inside it, with E the same value in every iteration (it
    mentions nothing the loop changes): wherever the loop reads `row` after that statement it reads E.  The merged value
    `E if row is None else row` is replaced, in place, by E.  Returns the number of replaced variables."""
    import dataclasses
    mapping = {}
    for li in w.loops.values():
        for v, (init, end) in li.carried.items():
            if init != ("const", None):
                continue
            phi = ("phi", li.lid, v)
            leaves = []

            def collect(t):
                if t[0] == "sel":
                    collect(t[2])
                    collect(t[3])
                else:
                    leaves.append(t)
            collect(end)
            vals = {x for x in leaves if x != phi}
            if len(vals) != 1 or phi not in leaves:
                continue
            E = next(iter(vals))
            varying = False
            for u in subterms(E):
                if u[0] in ("phi", "iter", "iterproj") and (u[-2] if u[0] == "iterproj" else u[-1] if u[0] == "iter" else u[1]) is not None:
                    lid = u[1] if u[0] == "phi" else u[2]
                    if lid == li.lid or (lid in w.loops and li.lid in w.loops[lid].loops):
                        varying = True
                if u[0] in ("old", "hremove") and u != E:
                    pass
            roots = {root_object(u) for u in subterms(E) if u[0] in ("idx", "attr")}
            fields = {u[2] for u in subterms(E) if u[0] == "attr"}
            for e in w.events:
                if li.lid in e.loops and e.kind == "store":
                    tgt = e.target
                    while tgt[0] == "idx":
                        tgt = tgt[1]
                    if tgt[0] == "attr" and tgt[2] in fields:
                        varying = True
            if varying:
                continue
            isnone = ("cmp", "is", phi, ("const", None))
            for e in w.events:
                for top in [x for x in (e.target, e.value) if x is not None] + list(e.args or ()) + [g for g, _ in e.guards]:
                    for t in subterms(top):
                        if t[0] == "sel" and t[2] == E and t[3] == phi and (t[1] == isnone or (t[1][0] == "and" and isnone in t[1][1])):
                            mapping[t] = E
                        if t[0] == "sel" and t[3] == E and t[2] == phi and t[1] == mk_not(isnone):
                            mapping[t] = E
            for l2 in w.loops.values():
                for n2, (a2, b2) in l2.carried.items():
                    for t in list(subterms(a2)) + list(subterms(b2)):
                        if t[0] == "sel" and t[2] == E and t[3] == phi and (t[1] == isnone or (t[1][0] == "and" and isnone in t[1][1])):
                            mapping[t] = E
    if not mapping:
        return 0

    def R(t):
        if t is None:
            return None
        if t in mapping:
            return R(mapping[t])
        if isinstance(t, tuple):
            t = tuple(R(x) if isinstance(x, tuple) else x for x in t)
            if t and t[0] == "call" and t[1] == ("builtin", "float") and len(t[2]) == 1 and not t[3] and _matrix_rooted(t[2][0]):
                return t[2][0]  # (the same equivalence the walk applies when it sees the entry directly)
        return t
    for i, e in enumerate(w.events):
        w.events[i] = dataclasses.replace(e, target=R(e.target), value=R(e.value), args=tuple(R(a) for a in (e.args or ())),
                                          kwargs=tuple((k, R(v)) for k, v in (e.kwargs or ())),
                                          guards=tuple((R(g), pol) for g, pol in e.guards))
    w.events[:] = [e for e in w.events if not (e.kind == "call" and e.name == "builtin.float" and e.value is not None
                                                and e.value[0] != "call")]
    for li in w.loops.values():
        li.cond = R(li.cond)
        li.domain = R(li.domain)
        li.guards = tuple((R(g), pol) for g, pol in li.guards)
        li.carried = {n: (R(a), R(b)) for n, (a, b) in li.carried.items()}
    return len(mapping)


def settle_removed_costs(w) -> int:
    """A copy of H.cost[p] (p = H.remove() of this iteration) that the walk marked stale because the queue is updated
    later is still exact when every write to H.cost in that iteration goes to another element: all of them are
    H.update(q, .) / H.insert(q) / H.cost[q] = . under the test q != p.  Such copies are replaced, in place, by the
    fresh read they equal.  Returns the number of settled copies."""
    import dataclasses
    cands = set()

    def scan(t):
        for x in subterms(t):
            if x[0] == "old" and x[1][0] == "idx" and x[1][1][0] == "attr" and x[1][1][2] == "cost" \
                    and x[1][2][0] == "hremove" and x[1][2][1] == x[1][1][1]:
                cands.add(x)
    for e in w.events:
        for t in (e.target, e.value) + tuple(e.args or ()) + tuple(g for g, _ in e.guards):
            if t is not None:
                scan(t)
    for li in w.loops.values():
        for a, b in li.carried.values():
            scan(a)
            scan(b)
    mapping = {}
    # the same for a copy of a field of the removed node (`label_p = nodes[p].predicted_label` hoisted above the scan):
    # exact when that field is stored, in the iteration, only on other nodes (`nodes[q].F = ...` under q != p)
    ncands = set()

    def nscan(t):
        for x in subterms(t):
            if x[0] == "old" and x[1][0] == "attr" and x[1][1][0] == "idx" and x[1][1][1][0] == "attr" \
                    and x[1][1][1][2] == "nodes" and x[1][1][2][0] == "hremove":
                ncands.add(x)
    for e in w.events:
        for t in (e.target, e.value) + tuple(e.args or ()) + tuple(g for g, _ in e.guards):
            if t is not None:
                nscan(t)
    for li in w.loops.values():
        for a, b in li.carried.values():
            nscan(a)
            nscan(b)
    ws = write_summaries(w.repo) if ncands else {}
    for O in ncands:
        node, F = O[1][1], O[1][2]
        nodes_t, x = node[1], node[2]
        lid = x[2]
        ok = True
        for e in w.events:
            if lid not in e.loops:
                continue
            fs = facts(e.guards)
            differs = lambda q: mk_cmp("!=", x, q) in fs
            if e.kind == "store" and e.target[0] == "attr" and e.target[2] in (F, "_" + F):
                r = e.target[1]
                while r[0] == "old":
                    r = r[1]
                if not (r[0] == "idx" and r[1] == nodes_t and differs(r[2])):
                    ok = False
            elif e.kind == "store" and e.target in (nodes_t, ("attr", nodes_t[1], "nodes")) :
                ok = False
            elif e.kind == "call" and e.name not in ("<inline>", "update", "insert", "remove", "append", "is_empty") \
                    and e.target is not None and e.target[0] == "attr" and (F in ws.get(e.name, set()) or "nodes" in ws.get(e.name, set())):
                ok = False
            if not ok:
                break
        if ok:
            mapping[O] = O[1]
    for O in cands:
        H, x = O[1][1][1], O[1][2]
        lid = x[2]
        ok = True
        for e in w.events:
            if lid not in e.loops:
                if e.kind == "store" and e.target == ("attr", H, "cost"):
                    ok = False
                continue
            fs = facts(e.guards)
            differs = lambda q: mk_cmp("!=", x, q) in fs
            if e.kind == "store":
                if e.target == ("attr", H, "cost"):
                    ok = False
                elif e.target[0] == "idx" and e.target[1] in (("attr", H, "cost"), ("old", ("attr", H, "cost"))) \
                        and not differs(e.target[2]):
                    ok = False
            elif e.kind == "call" and e.target is not None and e.target[0] == "attr" and e.target[1] == H:
                if e.name in ("update", "insert"):
                    if not e.args or not differs(e.args[0]):
                        ok = False
                elif e.name not in ("remove", "is_empty", "is_full"):
                    ok = False
            elif e.kind == "call" and e.name != "<inline>" and any(a == H for a in (e.args or ())):
                ok = False
            if not ok:
                break
        if ok:
            mapping[O] = O[1]
    if not mapping:
        return 0

    def R(t):
        if t is None or not isinstance(t, tuple):
            return t
        if t in mapping:
            return mapping[t]
        return tuple(R(x) if isinstance(x, tuple) else x for x in t)
    w.events = [dataclasses.replace(e, target=R(e.target), value=R(e.value), args=tuple(R(a) for a in (e.args or ())),
                                    kwargs=tuple((k, R(v)) for k, v in (e.kwargs or ())),
                                    guards=tuple((R(g), pol) for g, pol in e.guards)) for e in w.events]
    for lid, li in list(w.loops.items()):
        li.cond = R(li.cond)
        li.domain = R(li.domain)
        li.guards = tuple((R(g), pol) for g, pol in li.guards)
        li.carried = {n: (R(a), R(b)) for n, (a, b) in li.carried.items()}
    for g, src in list(w.guard_src.items()):
        w.guard_src.setdefault(R(g), src)
    return len(mapping)


def is_log_call(ev) -> bool:
    """A call of a method of the module's `logger` (its arguments are formatted into a message, nothing else)."""
    if ev.kind != "call" or ev.target is None or ev.target[0] != "attr":
        return False
    r = ev.target[1]
    return ev.target[2] in ("debug", "info", "warning", "error", "exception", "critical", "log") and (
        r == ("free", "logger") or (r[0] == "mod" and r[1].endswith(("logger", "logging"))))


def is_neg_float_max(t: Term) -> bool:
    """-FLOAT_MAX in any of the spellings the repository uses."""
    fm = ("K", "FLOAT_MAX")
    if t == ("neg", fm):
        return True
    if t[0] == "bin" and t[1] == "*" and {t[2], t[3]} == {fm, ("const", -1)}:
        return True
    return False


def fact(g: Term, pol: bool) -> Term:
    """The guard as a positive term: (g, False) is the canonical negation of g."""
    return g if pol else mk_not(g)


def facts(guards) -> Tuple[Term, ...]:
    """Guards as positive terms, conjunctions flattened (nested `if`s and `and` are the same thing)."""
    out = []

    def add(t):
        if t[0] == "and":
            for x in t[1]:
                add(x)
        elif t != ("const", True):
            out.append(t)

    for g, p in guards:
        add(fact(g, p))
    return tuple(out)


def has_guard(guards, term: Term) -> bool:
    """Is `term` (positive form) among the guards, whatever polarity/spelling the source used?"""
    return term in facts(guards)


LIBRARY_CONSTANTS = ("EPSILON", "FLOAT_MAX", "NIL", "WHITE", "GRAY", "BLACK", "IRRELEVANT", "RELEVANT", "STANDARD",
                     "PROTOTYPE", "MAX_ARC_WEIGHT", "MAX_DENSITY")

ARRAY_VIEWS = ("ravel", "flatten", "reshape", "astype", "copy", "squeeze", "tolist")


NODE_NUMBER_FIELDS = ("idx", "pred", "root", "cost", "density", "radius", "status", "relevant", "n_plateaus",
                      "label", "predicted_label", "cluster_label")


def _float_valued(t: Term, depth: int = 0) -> bool:
    """A term that denotes a float the library produced: Node.cost / density / radius, Heap.cost[...], a pre-computed entry, a
    metric result, opf_accuracy(...), max / min / a conditional choice of such, a stale copy of one."""
    if depth > 8:
        return False
    if t[0] == "old":
        return _float_valued(t[1], depth + 1)
    if t[0] == "attr" and t[2] in ("cost", "density", "radius") and Walker._is_node_term(t[1]):
        return True
    if t[0] == "idx" and t[1][0] == "attr" and t[1][2] == "cost":
        return True
    if _matrix_rooted(t):
        return True
    if t[0] == "call" and ((t[1][0] == "attr" and t[1][2] == "distance_fn") or (t[1][0] == "param" and t[1][1] in ("distance_function", "distance_fn"))
                           or t[1] == ("mod", "opfython.math.general.opf_accuracy")
                           or (t[1][0] == "idx" and t[1][1] == ("mod", "opfython.math.distance.DISTANCES"))):
        return True
    if t[0] == "sel":
        return _float_valued(t[2], depth + 1) and _float_valued(t[3], depth + 1)
    if t[0] in ("max", "min"):
        return all(_float_valued(x, depth + 1) or (x[0] == "const" and isinstance(x[1], float)) for x in t[1])
    return False


def never_none(t: Term) -> bool:
    """A value that is an object of this walk or the result of a numpy constructor / array method: not None."""
    if t[0] in ("alloc", "new", "tuple", "dict", "list", "listcomp", "hremove"):
        return True  # (hremove: the element Heap.remove() hands back, a node number)
    if t[0] == "call" and t[1][0] == "mod" and t[1][1].startswith("numpy."):
        return True
    if t[0] == "call" and t[1][0] == "attr" and t[1][2] in ARRAY_VIEWS:
        return never_none(t[1][1])
    if t[0] == "call" and t[1][0] == "attr" and t[1][2] == "item" and not t[2] and not t[3] and t[1][1][0] == "idx":
        return True  # `I[i].item()`: the Python number held in an index / label array
    if t[0] == "sel":
        return never_none(t[2]) and never_none(t[3])
    if (t[0] == "iter" and t[1][0] == "call" and t[1][1] == ("builtin", "range")) or (
            t[0] == "iterproj" and t[3] in ((0,), ("pos",)) and t[1][0] == "call" and t[1][1] in (("builtin", "enumerate"), ("builtin", "zip"))):
        return True  # a loop counter
    if t[0] == "attr" and t[2] in NODE_NUMBER_FIELDS and Walker._is_node_term(t[1]):
        return True  # a numeric field of a node: its setter accepts numbers only (rule PROP-setter)
    if _matrix_rooted(t):
        return True  # a row / an entry of the pre-computed matrix
    if t[0] == "call" and t[1][0] == "attr" and t[1][2] == "distance_fn" and len(t[2]) == 2:
        return True  # the configured dissimilarity of two samples: a number (every registered metric returns one)
    if t[0] == "idx" and t[1][0] == "attr" and t[1][1] == ("self",) and t[1][2] in HEAP_ARRAYS:
        return True  # an entry of one of the heap's arrays: a number (rule H-init decides what they are filled with)
    return False


def none_test_of_merge(v: Term) -> Optional[Term]:
    """For v = sel(c, A, B) the term of `v is not None`, when each arm decides it: with c = `B is not None` and A never
    None it is c itself (the else-arm is reached only with B None)."""
    c, a, b = v[1], v[2], v[3]

    def arm(x, other_known):
        if x == ("const", None):
            return False
        if never_none(x):
            return True
        return other_known

    # what c says about an arm that is tested by c itself
    ka = kb = None
    if c == ("cmp", "is not", b, ("const", None)):
        kb = False  # else-arm: b is None
    if c == ("cmp", "is", b, ("const", None)):
        kb = None
    if c == ("cmp", "is", a, ("const", None)):
        ka = False  # then-arm: a is None
    if c == ("cmp", "is not", a, ("const", None)):
        ka = True
    if c == ("cmp", "is", b, ("const", None)):
        kb = True  # else-arm: b is not None
    ta, tb = arm(a, ka), arm(b, kb)
    if ta is None or tb is None:
        return None
    if ta == tb:
        return ("const", ta)
    return c if ta else mk_not(c)


def not_nil_forms(t: Term) -> List[Term]:
    """The spellings of `t != NIL` for a value that is a node index or NIL (= -1): t != NIL, t != -1, -1 < t, NIL < t,
    0 <= t - the same set of values for every t >= -1."""
    nil = [("K", "NIL"), ("const", -1)]
    return [mk_cmp("!=", t, n) for n in nil] + [("cmp", "<", n, t) for n in nil] + [("cmp", "<=", ("const", 0), t)]


def entry_returns(w: "Walker") -> List[Event]:
    """Return events of the entry function itself (not of helpers inlined into it)."""
    return [e for e in w.events if e.kind == "return" and e.fn is w.entry]


def guard_terms(ev: Event) -> List[Term]:
    """Guards as positive terms (negated when polarity is False)."""
    return [g if pol else mk_not(g) for g, pol in ev.guards]


def conj(t: Term) -> List[Term]:
    """Flatten an `and` term into its conjuncts."""
    return list(t[1]) if t[0] == "and" else [t]
