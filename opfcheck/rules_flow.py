"""Order-type-only information flow of arc weights (C11 rescaling clause, C01 rule 9).

Arc weights (selector terms, metric calls, reads of the pre-computed matrix) and
everything stored from them (H.cost, Node.cost, running minima) may reach only
  * comparisons against other weight-derived values, 0 or +-FLOAT_MAX,
  * max / min,
  * stores, the cost argument of H.update, and logger calls.
They must never reach arithmetic, exp/log, int(), an index position or a truth
test.  Then every decision of the algorithm depends on the weights only through
their order type, so a strictly increasing transform of the metric cannot change
any prototype, predecessor, label or prediction.
"""

from __future__ import annotations

from typing import Dict, List, Set

from .ir import Event, Term, Walker, show, subterms
from .kinds import node_of
from .schema import as_selector, is_matrix_read, is_metric_call


def K(n):
    return ("K", n)


ALLOWED_CONST = {("const", 0), ("const", 0.0), K("FLOAT_MAX"), ("neg", K("FLOAT_MAX")),
                 ("bin", "*", ("const", -1), K("FLOAT_MAX")), ("bin", "*", K("FLOAT_MAX"), ("const", -1))}


class Flow:
    def __init__(self, w: Walker):
        self.w = w
        # costs are weight-derived by construction of the forest (fit stores H.cost into Node.cost)
        self.tainted_fields: Set[str] = {"Node.cost", "Heap.cost"}
        self.memo: Dict[Term, bool] = {}
        self._fix()

    def is_source(self, t: Term) -> bool:
        return as_selector(t) is not None or is_metric_call(t) or is_matrix_read(t)

    def field_of(self, t: Term):
        """'Heap.cost' / 'Node.cost' ... for reads and store targets."""
        if t[0] == "idx" and t[1][0] == "attr" and t[1][2] == "cost":
            return "Heap.cost"
        if t[0] == "attr" and node_of(t[1]):
            return "Node." + t[2]
        if t[0] == "idx" and t[1][0] == "alloc":
            return "local:" + repr(t[1][4])
        return None

    def tainted(self, t: Term, depth: int = 0) -> bool:
        if t in self.memo:
            return self.memo[t]
        if depth > 40:
            return False
        tag = t[0]
        r = False
        if self.is_source(t):
            r = True
        elif tag == "old":
            r = self.tainted(t[1], depth + 1)
        elif tag in ("max", "min"):
            r = any(self.tainted(x, depth + 1) for x in t[1])
        elif tag == "sel":
            r = self.tainted(t[2], depth + 1) or self.tainted(t[3], depth + 1)
        elif tag == "phi":
            li = self.w.loops.get(t[1])
            if li and t[2] in li.carried:
                self.memo[t] = False
                a, b = li.carried[t[2]]
                r = self.tainted(a, depth + 1) or self.tainted(b, depth + 1)
        else:
            f = self.field_of(t)
            if f is not None and f in self.tainted_fields:
                r = True
        self.memo[t] = r
        return r

    def _fix(self) -> None:
        for _ in range(6):
            before = set(self.tainted_fields)
            self.memo.clear()
            for e in self.w.events:
                if e.kind == "store" and self.tainted(e.value):
                    f = self.field_of(e.target)
                    if f:
                        self.tainted_fields.add(f)
                if e.kind == "call" and e.name == "update" and len(e.args) == 2 and self.tainted(e.args[1]):
                    self.tainted_fields.add("Heap.cost")
            if before == self.tainted_fields:
                break
        self.memo.clear()


SCALE_FREE_TESTS = ("numpy.isnan", "numpy.isinf", "numpy.isfinite", "math.isnan", "math.isinf", "math.isfinite")


def _only_returned(w, lst) -> bool:
    """Apart from `.append(...)` the list occurs in return values only."""
    from .ir import subterms
    for e in w.events:
        if e.kind == "call" and e.target is not None and e.target[0] == "attr" and e.target[1] == lst and e.name == "append":
            continue
        if e.kind == "return" or (e.kind == "call" and e.value == lst) or (e.kind == "bind" and e.value == lst):
            continue
        for top in [x for x in (e.target, e.value) if x is not None] + list(e.args or ()) + [g for g, _ in e.guards]:
            if any(u == lst for u in subterms(top)):
                return False
    return True


def check_order_only(rep, w: Walker, pre: str = "", events: List[Event] = None) -> Dict[str, int]:
    from .common import require_scalar_fragment
    require_scalar_fragment(w, w.entry.qual)
    fl = Flow(w)
    stats = {"sources": 0, "uses": 0}
    seen = set()
    noted = set()

    def bad(ev: Event, t: Term, how: str):
        rep.ev(pre + "ORDER-ONLY", ev, False,
               f"arc weight / cost '{show(t)[:120]}' flows into {how}: the result then depends on the scale of the metric")

    def scan(t: Term, ev: Event, ctx: str):
        """ctx describes how the parent uses t."""
        key = (t, ctx)
        if key in seen:
            return
        seen.add(key)
        tag = t[0]
        if fl.tainted(t):
            stats["uses"] += 1
            if ctx not in ("value", "cmp", "ext", "arm", "log", "updatecost"):
                bad(ev, t, ctx)
                return
            if (ev.seq, ctx) not in noted:
                noted.add((ev.seq, ctx))
                rep.ev(pre + "ORDER-ONLY", ev, True, f"weight-derived value used as {ctx}",
                       construct=f"{ev.text()[:120]} [{ctx}]")
            if fl.is_source(t):
                stats["sources"] += 1
                # the selector's own sub-terms (indices, feature vectors) are not weights
                for s in t[1:]:
                    if isinstance(s, tuple):
                        for sub in subterms(s):
                            if sub is not t and fl.tainted(sub) and not fl.is_source(sub) and sub[0] not in ("sel",):
                                f = fl.field_of(sub)
                                if f:
                                    bad(ev, sub, "the computation of another arc weight")
                return
            if tag in ("max", "min"):
                for x in t[1]:
                    if not fl.tainted(x) and x not in ALLOWED_CONST and x[0] in ("K", "const"):
                        # min(w, 100000): a clip at a fixed number keeps the order of the weights only below it
                        bad(ev, t, f"an extremum with the scale-dependent value '{show(x)}'")
                    scan(x, ev, "ext")
            elif tag == "sel":
                scan(t[1], ev, "condition")
                scan(t[2], ev, "arm")
                scan(t[3], ev, "arm")
            elif tag == "old":
                scan(t[1], ev, ctx)
            return
        # untainted node: look inside
        if tag == "cmp":
            l, r = t[2], t[3]
            tl, tr = fl.tainted(l), fl.tainted(r)
            if tl or tr:
                stats["uses"] += 1
                other = r if tl else l
                if tl and tr:
                    scan(l, ev, "cmp")
                    scan(r, ev, "cmp")
                elif other in ALLOWED_CONST:
                    scan(l if tl else r, ev, "cmp")
                else:
                    bad(ev, l if tl else r, f"a comparison with the scale-dependent value '{show(other)}'")
            else:
                scan(l, ev, "operand")
                scan(r, ev, "operand")
            return
        if tag in ("and", "or"):
            for x in t[1]:
                scan(x, ev, "a truth test")
            return
        if tag == "not":
            scan(t[1], ev, "a truth test")
            return
        if tag in ("bin",):
            scan(t[2], ev, "arithmetic")
            scan(t[3], ev, "arithmetic")
            return
        if tag == "neg":
            scan(t[1], ev, "arithmetic")
            return
        if tag == "call" and t[1][0] == "mod" and t[1][1] in SCALE_FREE_TESTS:
            return  # NaN / infinity tests give the same answer for every positive rescaling of the weights
        if tag in ("call", "alloc", "new"):
            fname = show(t[1]) if tag == "call" else t[1]
            for a in t[2]:
                scan(a, ev, f"a call of {fname}")
            for _, v in t[3]:
                scan(v, ev, f"a call of {fname}")
            return
        if tag == "idx":
            scan(t[1], ev, "value")
            scan(t[2], ev, "an index position")
            return
        if tag == "attr":
            scan(t[1], ev, "value")
            return
        if tag in ("tuple", "list"):
            for x in t[1]:
                scan(x, ev, "value")
            return
        if tag == "sel":
            scan(t[1], ev, "a truth test")
            scan(t[2], ev, "arm")
            scan(t[3], ev, "arm")
            return
        if tag == "listcomp":
            scan(t[1], ev, "value")
            return

    for ev in events if events is not None else w.events:
        is_log = ev.kind == "call" and ev.target is not None and show(ev.target).startswith("logger.")
        if ev.kind == "store":
            scan(ev.value, ev, "value")
            tgt = ev.target
            while tgt[0] in ("idx", "attr"):
                if tgt[0] == "idx":
                    scan(tgt[2], ev, "an index position")
                tgt = tgt[1]
        elif ev.kind == "call":
            if is_log:
                continue
            if ev.name == "update" and len(ev.args) == 2:
                scan(ev.args[0], ev, "an index position")
                scan(ev.args[1], ev, "updatecost")
            elif ev.name in ("<inline>",):
                for a in ev.args:
                    scan(a, ev, "value")
            elif ev.value is not None and fl.is_source(ev.value):
                scan(ev.value, ev, "value")
            elif ev.name in SCALE_FREE_TESTS:
                pass
            elif ev.name == "append" and ev.target is not None and ev.target[0] == "attr" and ev.target[1][0] == "alloc" \
                    and ev.target[1][1] == "list" and _only_returned(w, ev.target[1]):
                # collecting the costs in a list of this call that is only handed back (`return preds, costs` when asked):
                # a store - what the caller does with the numbers is the caller's business
                for a in ev.args:
                    scan(a, ev, "value")
            else:
                for a in ev.args:
                    scan(a, ev, f"a call of {ev.name}")
                for _, v in ev.kwargs:
                    scan(v, ev, f"a call of {ev.name}")
        elif ev.kind == "return":
            scan(ev.value, ev, "value")
        for g, _ in ev.guards:
            scan(g, ev, "a truth test")
    rep.fn(pre + "ORDER-ONLY-summary", w.entry,
           f"{stats['uses']} uses of weight-derived values in {w.entry.qual} are order-only",
           True, "")
    return stats
