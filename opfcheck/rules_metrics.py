"""Obligations over the 47 metrics shared by C06, C08, C04 (premise) and C11 (monotone family)."""

from __future__ import annotations

import ast
from typing import Dict, Tuple

import sympy as sp

from .algebra import (S, MetricTranslator, MetricViolation, Ops, discharge, equal_forms, load_spec, normal_form, sign_of)
from .core import AnalysisError, Repo, unparse


class Metrics:
    def __new__(cls, repo: Repo):
        # one translation table per parsed tree (translations and normal forms are the expensive part)
        if "metrics" in repo.memo:
            return repo.memo["metrics"]
        obj = super().__new__(cls)
        repo.memo["metrics"] = obj
        return obj

    def __init__(self, repo: Repo):
        if getattr(self, "repo", None) is repo:
            return
        self.repo = repo
        self.spec = load_spec()
        self.mt = MetricTranslator(repo)
        self.registry = self.mt.registry()
        self.cache: Dict[Tuple[str, str], object] = {}
        self.lossy: Dict[str, str] = {}

    def names(self, include_lossy: bool = False):
        """Registry identifiers whose value is a module-level function (others are reported by REG-entry)
        and whose body could be translated (lossy bodies are reported by FORM / LOSSY)."""
        fns = self.mt.mi.functions
        out = []
        for n in sorted(self.registry):
            if self.registry[n] not in fns:
                continue
            if self.translated(n) is None and not include_lossy:
                continue
            out.append(n)
        return out

    def report_lossy(self, rep, pre: str, rule: str) -> None:
        for msg in getattr(self.mt, "registry_problems", []):
            rep.chk.ob(pre + rule, "opfython.math.distance", "DISTANCES", False, msg, file=self.mt.mi.relpath, line=1)
        self._report_lossy(rep, pre, rule)

    def _report_lossy(self, rep, pre: str, rule: str) -> None:
        for n in sorted(self.registry):
            if self.registry[n] in self.mt.mi.functions and self.translated(n) is None:
                fi = self.mt.mi.functions[self.registry[n]]
                rep.fn(pre + rule, fi, f"{n}: body is built from the operations of its closed form", False, self.lossy.get(n, ""))

    def domain(self, name: str) -> str:
        return self.spec.AXIOMS[name][0] if name in self.spec.AXIOMS else "R"

    def form_domain(self, name: str) -> str:
        return getattr(self.spec, "FORM_DOMAIN", {}).get(name, self.domain(name))

    def translated(self, name: str, domain: str = None):
        domain = domain or self.domain(name)
        key = (name, domain)
        if key not in self.cache:
            ops = Ops(domain)
            try:
                self.cache[key] = (self.mt.translate(self.registry[name], ops), ops)
            except MetricViolation as exc:
                self.lossy[name] = str(exc)
                self.cache[key] = None
        return self.cache[key]

    def rel(self, fi):
        return self.repo.modules[fi.module].relpath


def check_closed_forms(rep, M: Metrics, pre: str = "") -> int:
    n = 0
    M.report_lossy(rep, pre, "FORM")
    for name in M.names():
        if name not in M.spec.REFERENCE:
            rep.fn(pre + "FORM-known", M.repo.need_method("OPF", "__init__"), f"identifier {name!r}", False,
                   "registry identifier without a reference closed form")
            continue
        tr, ops = M.translated(name, M.form_domain(name))
        ref = M.spec.REFERENCE[name](ops)
        ok = equal_forms(tr.expr, ref, ops)
        n += 1
        detail = ""
        if not ok:
            detail = (f"normal form of the code  {sp.sstr(normal_form(tr.expr, ops))[:200]}  differs from the "
                      f"reference  {sp.sstr(normal_form(ref, ops))[:200]}")
        rep.fn(pre + "FORM", tr.fi, f"{name}: body == published closed form (symbolic length n)", ok, detail)
    return n


def check_symmetry(rep, M: Metrics, pre: str = "") -> int:
    n = 0
    for name in M.names():
        dom, ax = M.spec.AXIOMS.get(name, ("R", ""))
        if "s" not in ax:
            continue
        tr, ops = M.translated(name, M.form_domain(name))
        sw = tr.expr.subs({ops.X: ops.Y, ops.Y: ops.X}, simultaneous=True)
        ok = equal_forms(tr.expr, sw, ops)
        n += 1
        rep.fn(pre + "SYM", tr.fi, f"{name}: normal form invariant under x <-> y", ok,
               "the body is not symmetric in its arguments although the axiom table claims symmetry")
    return n


def check_zero_self(rep, M: Metrics, pre: str = "") -> int:
    n = 0
    for name in M.names():
        dom, ax = M.spec.AXIOMS.get(name, ("R", ""))
        if "z" not in ax:
            continue
        tr, ops = M.translated(name, M.form_domain(name))
        z = normal_form(tr.expr.subs(ops.Y, ops.X), ops)
        try:
            ok = sp.simplify(z) == 0
        except Exception:
            ok = False
        if not ok:
            from .algebra import merge_sums
            try:
                ok = sp.simplify(merge_sums(sp.expand(z), ops)) == 0
            except Exception:
                ok = False
        n += 1
        rep.fn(pre + "ZERO", tr.fi, f"{name}: d(x, x) simplifies to 0", ok,
               f"substituting y := x leaves '{sp.sstr(z)[:160]}'")
    return n


def check_definedness(rep, M: Metrics, pre: str = "") -> int:
    n = 0
    for name in M.names():
        if name not in M.spec.AXIOMS:
            continue  # an identifier without a domain / axiom entry is C06's finding (FORM-known), not a finiteness verdict
        tr, ops = M.translated(name)
        if ops.domain == "P" and not tr.decorated:
            # strictly positive arguments are what the shifting decorator provides; without it the
            # metric sees the caller's vectors, whose components may be exactly 0
            tr, ops = M.translated(name, "R+")
        seen = set()
        for ob in tr.obligations:
            key = (ob.kind, sp.srepr(ob.expr))
            if key in seen:
                continue
            seen.add(key)
            ok, why = discharge(ob, ops)
            n += 1
            what = {"sqrt": "operand of a fractional power must be >= 0", "log": "operand of log must be > 0",
                    "div": "divisor must be non-zero"}[ob.kind]
            rep.chk.ob(pre + "FINITE", tr.fi.qual, f"{name}: {ob.kind}({ob.src})", ok,
                       "" if ok else f"{what} on the metric's domain ({ops.domain}) in floating point, but {why} "
                       "(a real-arithmetic bound that is attained does not count)",
                       file=M.rel(tr.fi), line=ob.line)
    return n


def check_decorator_domain(rep, M: Metrics, pre: str = "") -> int:
    """A metric with a divisor / log operand that is not provably non-zero on inputs >= 0 must be shifted."""
    n = 0
    for name in M.names():
        tr, ops = M.translated(name, "R+")
        need = []
        for ob in tr.obligations:
            if ob.kind in ("div", "log"):
                ok, why = discharge(ob, ops)
                if not ok:
                    need.append(ob)
        if need:
            n += 1
            rep.fn(pre + "SHIFT", tr.fi, f"{name}: needs the zero-avoiding shift ({need[0].kind}({need[0].src}))",
                   tr.decorated, "divides by / takes the log of a value that is 0 for inputs containing zeros, "
                   "but is not wrapped by avoid_zero_division")
    return n


def check_value_axioms(rep, M: Metrics, pre: str = "") -> int:
    """n / t: theorem table on the reference form, transferred by code == reference."""
    n = 0
    M.report_lossy(rep, pre, "AXIOMS")
    for name in M.names():
        dom, ax = M.spec.AXIOMS.get(name, ("R", ""))
        for a in ("n", "t"):
            if a not in ax:
                continue
            tr, ops = M.translated(name, M.form_domain(name))
            ref = M.spec.REFERENCE[name](ops)
            ok = equal_forms(tr.expr, ref, ops)
            thm = M.spec.THEOREMS[a].get(name, M.spec.THEOREMS[a].get("*"))
            n += 1
            rep.fn(pre + ("NONNEG" if a == "n" else "TRIANGLE"), tr.fi,
                   f"{name}: {'non-negative' if a == 'n' else 'triangle inequality'} by [{thm}] on the reference form",
                   ok and thm is not None,
                   "the body no longer equals the reference form the theorem is about" if thm else "no theorem listed")
    return n


def check_monotone_family(rep, M: Metrics, pre: str = "") -> int:
    n = 0
    s = sp.Symbol("s", positive=True)
    for name in M.spec.MONOTONE_FAMILY:
        if name not in M.registry:
            rep.fn(pre + "MONO", M.repo.need_method("OPF", "__init__"), f"{name} registered", False,
                   "identifier of the Euclidean family is missing from the registry")
            continue
        tr, ops = M.translated(name)
        nf = normal_form(tr.expr, ops)
        base = S(ops.X ** 2) - 2 * S(ops.X * ops.Y) + S(ops.Y ** 2)
        g = nf.subs(S(ops.X ** 2), s + 2 * S(ops.X * ops.Y) - S(ops.Y ** 2))
        g = sp.simplify(g)
        ok = not g.has(S) and not g.has(ops.X) and not g.has(ops.Y)
        detail = "the body is not a function of sum((x - y)^2) alone"
        if ok and (g.has(sp.Min) or g.has(sp.Max) or g.has(sp.Piecewise) or g.has(sp.Abs) or g.has(sp.floor)):
            ok = False
            detail = (f"g(s) = {sp.sstr(g)} contains a clamp / piecewise step: it is not strictly increasing on all of "
                      "[0, inf), so distinct distances can receive the same weight")
        elif ok:
            dg = sp.simplify(sp.diff(g, s))
            try:
                g0 = sp.limit(g, s, 0, "+")
            except Exception:
                g0 = sp.simplify(g.subs(s, 0))
            ok = bool(dg.is_positive) and g0 == 0
            detail = f"g(s) = {sp.sstr(g)}: g'(s) = {sp.sstr(dg)} must be > 0 for s > 0 and g(0) = {sp.sstr(g0)} must be 0"
        n += 1
        rep.fn(pre + "MONO", tr.fi, f"{name} = g(sum((x-y)^2)) with g strictly increasing, g(0) = 0", ok, detail)
    return n


# ---------------------------------------------------------------------------
# registry / whitelist / constructor agreement (C06 a)
# ---------------------------------------------------------------------------


def whitelist(repo: Repo):
    ci = repo.find_class("OPF")
    st = ci.setters.get("distance")
    if st is None:
        raise AnalysisError("OPF.distance setter not found")
    for n in ast.walk(st.node):
        comp = n.comparators[0] if isinstance(n, ast.Compare) and len(n.ops) == 1 else None
        if isinstance(comp, ast.Name):
            # the whitelist as a module-level constant
            mi = repo.modules[st.module]
            for node2 in mi.tree.body:
                if isinstance(node2, ast.Assign) and any(isinstance(t, ast.Name) and t.id == comp.id for t in node2.targets):
                    comp = node2.value
        if isinstance(comp, ast.Attribute) and isinstance(comp.value, ast.Name) and comp.value.id in ("self", "OPF", "cls"):
            # the whitelist as a class-level constant (`VALID = (...)` / `VALID = tuple(d.DISTANCES)`), assigned once
            hits = [x for x in ci.node.body if isinstance(x, ast.Assign) and len(x.targets) == 1
                    and isinstance(x.targets[0], ast.Name) and x.targets[0].id == comp.attr]
            stores = [x for m2 in repo.modules.values() for x in ast.walk(m2.tree) if isinstance(x, ast.Attribute)
                      and x.attr == comp.attr and isinstance(x.ctx, (ast.Store, ast.Del))]
            if len(hits) == 1 and not stores:
                comp = hits[0].value
                if isinstance(comp, ast.Call) and isinstance(comp.func, ast.Name) and comp.func.id in ("tuple", "list", "sorted", "frozenset", "set") \
                        and len(comp.args) == 1 and not comp.keywords:
                    comp = comp.args[0]  # the names of the registry
        if isinstance(comp, ast.Call) and isinstance(comp.func, ast.Attribute) and isinstance(comp.func.value, ast.Name) \
                and not comp.args and not comp.keywords and isinstance(n, ast.Compare) and isinstance(n.ops[0], ast.NotIn):
            # `distance not in d.available_distances()` with the accessor returning tuple(DISTANCES) / list / sorted / .keys()
            mi0 = repo.modules[st.module]
            dmod0 = repo.modules.get("opfython.math.distance")
            if dmod0 is not None and mi0.imports.get(comp.func.value.id) == "opfython.math.distance" and comp.func.attr in dmod0.functions:
                fb = [x for x in dmod0.functions[comp.func.attr].node.body if not (isinstance(x, ast.Expr) and isinstance(x.value, ast.Constant))]
                if len(fb) == 1 and isinstance(fb[0], ast.Return) and fb[0].value is not None:
                    v = fb[0].value
                    if isinstance(v, ast.Call) and isinstance(v.func, ast.Name) and v.func.id in ("tuple", "list", "sorted", "frozenset", "set") \
                            and len(v.args) == 1 and not v.keywords:
                        v = v.args[0]
                    if isinstance(v, ast.Call) and isinstance(v.func, ast.Attribute) and v.func.attr == "keys" and not v.args:
                        v = v.func.value
                    if isinstance(v, ast.Name) and v.id == "DISTANCES":
                        from .algebra import MetricTranslator
                        return st, sorted(MetricTranslator(repo).registry()), n
        if isinstance(n, ast.Compare) and len(n.ops) == 1 and isinstance(n.ops[0], ast.NotIn) \
                and isinstance(comp, (ast.List, ast.Tuple, ast.Set)):
            vals = []
            for e in comp.elts:
                if not (isinstance(e, ast.Constant) and isinstance(e.value, str)):
                    raise AnalysisError("non-literal entry in the distance whitelist")
                vals.append(e.value)
            # the failing branch must raise
            return st, vals, n
        if isinstance(n, ast.Compare) and len(n.ops) == 1 and isinstance(n.ops[0], ast.NotIn) \
                and isinstance(comp, (ast.Attribute, ast.Name, ast.Call)):
            # membership in the registry itself (`not in d.DISTANCES` / `.keys()`): the whitelist IS the registry
            c2 = comp.func.value if isinstance(comp, ast.Call) and isinstance(comp.func, ast.Attribute) \
                and comp.func.attr == "keys" and not comp.args else comp
            mi = repo.modules[st.module]
            txt = unparse(c2)
            head, _, tail = txt.rpartition(".")
            dmod = repo.modules.get("opfython.math.distance")
            if dmod is not None and tail != "DISTANCES" and (mi.imports.get(head) == "opfython.math.distance"
                                                             or mi.imports.get(txt, "").startswith("opfython.math.distance.")):
                # a view of the registry's names kept next to it (`DISTANCE_NAMES = tuple(DISTANCES)`), bound once
                nm = tail if head else mi.imports[txt].rpartition(".")[2]
                binds = [x for x in dmod.tree.body if isinstance(x, ast.Assign) and any(isinstance(t, ast.Name) and t.id == nm for t in x.targets)]
                stores = [x for m2 in repo.modules.values() for x in ast.walk(m2.tree) if isinstance(x, ast.Attribute)
                          and x.attr == nm and isinstance(x.ctx, (ast.Store, ast.Del))]
                if len(binds) == 1 and not stores:
                    v = binds[0].value
                    if isinstance(v, ast.Call) and isinstance(v.func, ast.Name) and v.func.id in ("tuple", "list", "sorted", "frozenset", "set") \
                            and len(v.args) == 1 and not v.keywords:
                        v = v.args[0]
                    if isinstance(v, ast.Call) and isinstance(v.func, ast.Attribute) and v.func.attr == "keys" and not v.args:
                        v = v.func.value
                    if isinstance(v, ast.Name) and v.id == "DISTANCES":
                        from .algebra import MetricTranslator
                        return st, sorted(MetricTranslator(repo).registry()), n
            if (tail == "DISTANCES" and mi.imports.get(head) == "opfython.math.distance") or \
                    mi.imports.get(txt) == "opfython.math.distance.DISTANCES":
                from .algebra import MetricTranslator
                return st, sorted(MetricTranslator(repo).registry()), n
    raise AnalysisError("distance whitelist (`if distance not in [...]`) not found")


def check_registry(rep, M: Metrics, pre: str = "") -> None:
    repo = M.repo
    st, wl, node = whitelist(repo)
    reg = M.registry
    rep.fn(pre + "REG-count", st, f"registry has {len(reg)} identifiers, whitelist {len(wl)}",
           len(reg) == 47 and len(set(wl)) == 47 and len(wl) == 47,
           "the library documents 47 identifiers", line=node.lineno)
    only_reg = sorted(set(reg) - set(wl))
    only_wl = sorted(set(wl) - set(reg))
    rep.fn(pre + "REG-same-set", st, "identifiers accepted by the models == identifiers in the registry",
           not only_reg and not only_wl,
           f"only in registry: {only_reg}; only in whitelist: {only_wl}", line=node.lineno)
    # the whitelist test guards a raise, and the setter stores the value
    # (the membership test may be one disjunct of the rejecting condition: `not isinstance(v, str) or v not in ...`)
    raises = [n for n in ast.walk(st.node) if isinstance(n, ast.If) and (n.test is node or (
        isinstance(n.test, ast.BoolOp) and isinstance(n.test.op, ast.Or) and any(v is node for v in n.test.values)))
        and any(isinstance(b, ast.Raise) for b in n.body)]
    rep.fn(pre + "REG-reject", st, "an identifier outside the whitelist is rejected", len(raises) == 1,
           "the whitelist test does not raise", line=node.lineno)
    dist = repo.module("opfython.math.distance")
    for key, val in sorted(reg.items()):
        ok = val == f"{key}_distance" and val in dist.functions
        rep.fn(pre + "REG-entry", dist.functions.get(val, st), f"DISTANCES[{key!r}] is {val}", ok,
               f"registry entry {key!r} resolves to '{val}', expected the module-level function {key}_distance")
    # OPF.__init__: whitelist check precedes the lookup, lookup uses the same identifier
    from .ir import Walker
    init = repo.need_method("OPF", "__init__")
    from .common import registry_accessor
    acc = registry_accessor(repo)
    w = Walker(repo, init, self_class="OPF", inline=lambda f: acc(f) or (
        f.cls == "OPF" and f.name.startswith("_") and not f.name.startswith("__") and f.name != "_read_distances"))
    st_d = [e for e in w.events if e.kind == "store" and e.target == ("attr", ("self",), "distance")]
    st_f = [e for e in w.events if e.kind == "store" and e.target == ("attr", ("self",), "distance_fn")]
    okd = len(st_d) == 1 and st_d[0].value == ("param", "distance")
    lookup = ("idx", ("mod", "opfython.math.distance.DISTANCES"), ("param", "distance"))
    okf = len(st_f) == 1 and st_f[0].value in (lookup, ("idx", ("mod", "opfython.math.distance.DISTANCES"),
                                                        ("attr", ("self",), "distance")))
    rep.fn(pre + "REG-lookup", init, "distance_fn = DISTANCES[<the validated identifier>]", okd and okf,
           "OPF.__init__ must validate `distance` through the property and look the same identifier up in the registry")
    if okd and okf:
        rep.ev(pre + "REG-order", st_f[0], st_d[0].seq < st_f[0].seq, "the whitelist check must precede the lookup")
    # every model constructor forwards its `distance` argument
    for cls in ("SupervisedOPF", "SemiSupervisedOPF", "KNNSupervisedOPF", "UnsupervisedOPF"):
        fi = repo.need_method(cls, "__init__")
        if fi.cls != cls:
            continue
        wi = Walker(repo, fi, self_class=cls, inline=lambda f: False)
        sup = [e for e in wi.events if e.kind == "call" and e.name == "__init__"
               and e.target[1][0] == "call" and e.target[1][1] == ("builtin", "super")]
        ok = len(sup) == 1 and (
            (sup[0].args[:1] == (("param", "distance"),)) or (("distance", ("param", "distance")) in sup[0].kwargs))
        rep.fn(pre + "REG-forward", fi, f"{cls}.__init__ forwards `distance` to its base class", ok,
               "the `distance` option does not reach OPF.__init__ unchanged")


def check_shift_wrapper(rep, M: Metrics, pre: str = "") -> None:
    """The zero-avoiding decorator must hand the metric (x + EPSILON, y + EPSILON) with an EPSILON whose
    small powers neither underflow nor overflow on inversion - the premise of the sign analysis
    ("decorated arguments are strictly positive, no overflow/underflow")."""
    from .effects import Effects
    from .ir import Walker

    repo = M.repo
    dec = repo.need_function("opfython.utils.decorator", "avoid_zero_division")
    inner = [n for n in dec.node.body if isinstance(n, ast.FunctionDef)]
    if len(inner) != 1:
        raise AnalysisError("avoid_zero_division: expected one inner function")
    from .core import FunctionInfo
    fi = FunctionInfo(dec.module, None, f"{dec.name}.<locals>.{inner[0].name}", inner[0], [])
    # private helpers of the decorator module are part of the wrapper
    w = Walker(repo, fi, inline=lambda f: f.module == dec.module and f.cls is None and f.name.startswith("_"))
    calls = [e for e in w.events if e.kind == "call" and e.target == ("free", dec.params[0])]
    ok = False
    detail = "the wrapper must call the metric exactly once with (x + c.EPSILON, y + c.EPSILON)"
    if len(calls) == 1 and len(calls[0].args) == 2 and len(fi.params) == 2:
        want = tuple(("bin", "+", *sorted([("K", "EPSILON"), ("param", p)], key=repr)) for p in fi.params)

        def values(t):
            """The VALUE an argument has: copies and the promotion numpy would apply anyway do not change it (whether a
            copy is a copy is the effect analysis' question, PURE-metric / OWN-param)."""
            if not isinstance(t, tuple) or not t:
                return t
            t = tuple(values(x) for x in t)
            if t[0] == "call" and t[1][0] == "attr" and len(t[1]) == 3:
                v, meth = t[1][1], t[1][2]
                if meth == "copy" and not t[2]:
                    return v
                if meth == "astype" and len(t[2]) == 1 and t[2][0] in (
                        ("call", ("mod", "numpy.result_type"), (v, ("K", "EPSILON")), ()),
                        ("call", ("mod", "numpy.result_type"), (("K", "EPSILON"), v), ())):
                    return v
            if t[0] == "call" and t[1] in (("mod", "numpy.array"), ("mod", "numpy.asarray"), ("mod", "numpy.copy")) \
                    and len(t[2]) == 1 and not t[3]:
                return t[2][0]
            if t[0] in ("call", "alloc") and (t[1] in (("mod", "numpy.array"), ("mod", "numpy.asarray")) or t[1] in ("numpy.array", "numpy.asarray")) \
                    and len(t[2]) == 1 and dict(t[3]).keys() == {"dtype"} and dict(t[3])["dtype"] in (
                        ("call", ("mod", "numpy.result_type"), (t[2][0], ("K", "EPSILON")), ()),
                        ("call", ("mod", "numpy.result_type"), (("K", "EPSILON"), t[2][0]), ())):
                return t[2][0]  # a copy in the very type `v + EPSILON` has: the sum is the same number
            if t[0] == "sel" and t[2] == t[3]:
                return t[2]
            return t
        ok = tuple(values(a) for a in calls[0].args) == want and not calls[0].guards
        rets = [e for e in w.events if e.kind == "return" and e.fn is w.entry]
        ok = ok and len(rets) == 1 and rets[0].value == calls[0].value
        import dataclasses
        calls = [dataclasses.replace(calls[0], args=tuple(values(a) for a in calls[0].args))]
        if not ok:
            detail = f"the metric receives ({', '.join(str(__import__('opfcheck.ir', fromlist=['show']).show(a)) for a in calls[0].args)})"
            # a recognisably wrong argument (a vector handed on unshifted, shifted by something else, the two exchanged) is a
            # finding; an argument built by type / dtype / shape dispatch, scratch buffers or `out=` is a form these rules
            # cannot evaluate (exit 2)
            from .ir import subterms as _st
            vals = calls[0].args
            def dispatchy(v):
                for u in _st(v):
                    if u[0] == "sel":
                        for c in _st(u[1]):
                            if (c[0] == "attr" and c[2] in ("dtype", "ndim", "kind", "flags")) or (
                                    c[0] == "call" and c[1] in (("builtin", "type"), ("builtin", "isinstance"), ("builtin", "hasattr"),
                                                                ("builtin", "getattr"))):
                                return True
                    if u[0] in ("call", "alloc") and len(u) > 3 and isinstance(u[3], tuple) and any(
                            isinstance(kv, tuple) and len(kv) == 2 and kv[0] == "out" for kv in u[3]):
                        return True
                return False
            if any(dispatchy(v) for v in vals) and not calls[0].guards and len(rets) == 1 and rets[0].value == calls[0].value \
                    and all(any(u in (("K", "EPSILON"),) for u in _st(v)) for v in vals):
                raise AnalysisError("avoid_zero_division: the shifted arguments are built by type / dtype dispatch or through "
                                    f"buffers ('{detail[:120]}'); which value reaches the metric cannot be read off - outside the analysable fragment")
    rep.fn(pre + "SHIFT-args", fi, "decorated metrics see (x + EPSILON, y + EPSILON)", ok, detail)
    eps = repo.constants.get("EPSILON")
    okv = isinstance(eps, float) and 1e-100 <= eps <= 1e-6
    rep.fn(pre + "SHIFT-constant", fi, f"EPSILON = {eps!r}: EPSILON^3 and 1/EPSILON^3 are normal floats", okv,
           "with a shift this small (large) products of shifted zeros underflow to 0 (swamp the data): ratio and log "
           "metrics return inf/NaN on vectors containing zeros")
