"""Static-analysis checkers for the 20 fixed properties of gugarosa/opfython.

Nothing in this package imports or executes opfython: every verdict is computed
from `ast.parse` of the files under $OPF_REPO (default /repo) at run time.
"""
