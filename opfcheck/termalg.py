"""IR term -> sympy expression (atoms become symbols), for formula obligations in the models
(C12 pdf / normalisation / cost, C14 query density, C10 normalisation)."""

from __future__ import annotations

from typing import Dict

import sympy as sp

from .ir import Term, show

FUNCS = {
    "numpy.exp": sp.exp, "math.exp": sp.exp, "numpy.log": sp.log, "math.log": sp.log,
    "numpy.sqrt": sp.sqrt, "math.sqrt": sp.sqrt, "numpy.fabs": sp.Abs, "numpy.abs": sp.Abs,
    "builtin.abs": sp.Abs, "numpy.absolute": sp.Abs, "builtin.float": lambda x: x,
}


class TermAlgebra:
    def __init__(self):
        self.atoms: Dict[Term, sp.Symbol] = {}

    def atom(self, t: Term) -> sp.Symbol:
        if t[0] == "old":
            t = t[1]
        if t not in self.atoms:
            self.atoms[t] = sp.Symbol(f"a{len(self.atoms)}", real=True)
        return self.atoms[t]

    def conv(self, t: Term):
        tag = t[0]
        if tag == "const":
            v = t[1]
            if isinstance(v, bool) or not isinstance(v, (int, float)):
                return self.atom(t)
            return sp.nsimplify(v) if isinstance(v, float) and v == int(v) else (sp.Integer(v) if isinstance(v, int) else sp.Float(v))
        if tag == "bin":
            op, l, r = t[1], self.conv(t[2]), self.conv(t[3])
            if op == "+":
                return l + r
            if op == "-":
                return l - r
            if op == "*":
                return l * r
            if op == "/":
                return l / r
            if op == "**":
                return l ** r
            return self.atom(t)
        if tag == "neg":
            return -self.conv(t[1])
        if tag in ("max", "min"):
            f = sp.Max if tag == "max" else sp.Min
            return f(*[self.conv(x) for x in t[1]])
        if tag == "call":
            f = t[1]
            name = f[1] if f[0] == "mod" else ("builtin." + f[1] if f[0] == "builtin" else None)
            if name in FUNCS and len(t[2]) == 1 and not t[3]:
                return FUNCS[name](self.conv(t[2][0]))
            return self.atom(t)
        if tag == "old":
            return self.conv(t[1])
        return self.atom(t)

    def equal(self, a, b) -> bool:
        d = sp.simplify(sp.expand(a - b))
        if d == 0:
            return True
        try:
            return sp.simplify(sp.together(d)) == 0
        except Exception:
            return False
