"""C06 / p1 demo: the named metrics must keep computing their closed forms.

Exits 0 when `hassanat`, `jensen`, `jensen_shannon`, `topsoe`, `max_symmetric`
and `min_symmetric` (reached through the DISTANCES registry and through
OPF(distance=...).distance_fn) are bit-identical to the original functions on
every call of every history below; exits 1 otherwise.

Run as: cd /tmp/wt/C06 && PYTHONPATH=/tmp/wt/C06 /venv/bin/python demo.py
"""

import logging
import math
import sys
from functools import wraps

import numpy as np
from numba import njit

logging.disable(logging.CRITICAL)

import opfython.math.distance as distance  # noqa: E402
from opfython.core.opf import OPF  # noqa: E402

# --------------------------------------------------------------------------
# Verbatim copy of the original code (only `cache=True` is dropped, as the
# copy does not live in a file numba could attach a cache to)
# --------------------------------------------------------------------------
EPSILON = 1e-20


def avoid_zero_division(f):
    @wraps(f)
    def _avoid_zero_division(x, y):
        x = x + EPSILON
        y = y + EPSILON

        return f(x, y)

    return _avoid_zero_division


@avoid_zero_division
@njit
def ref_hassanat_distance(x, y):
    # Creates an empty variable to hold each dimension's
    dist = np.zeros(x.shape[0])

    # Creates a binary mask
    mask = np.minimum(x, y) >= 0

    # Iterates through all dimensions
    for i in range(x.shape[0]):
        if mask[i] is True:
            dist[i] = 1 - (1 + np.minimum(x[i], y[i])) / (1 + np.maximum(x[i], y[i]))

        else:
            dist[i] = 1 - (
                1 + np.minimum(x[i], y[i]) + np.fabs(np.minimum(x[i], y[i]))
            ) / (1 + np.maximum(x[i], y[i]) + np.fabs(np.minimum(x[i], y[i])))

    return np.sum(dist)


@avoid_zero_division
@njit
def ref_jensen_distance(x, y):
    dist = (x * np.log(x) + y * np.log(y)) / 2 - ((x + y) / 2) * np.log((x + y) / 2)

    return 0.5 * np.sum(dist)


@avoid_zero_division
@njit
def ref_jensen_shannon_distance(x, y):
    dist1 = x * np.log((2 * x) / (x + y))
    dist2 = y * np.log((2 * y) / (x + y))

    return 0.5 * (np.sum(dist1) + np.sum(dist2))


@avoid_zero_division
@njit
def ref_topsoe_distance(x, y):
    dist1 = x * np.log((2 * x) / (x + y))
    dist2 = y * np.log((2 * y) / (x + y))

    return np.sum(dist1) + np.sum(dist2)


@avoid_zero_division
@njit
def ref_max_symmetric_distance(x, y):
    dist1 = (x - y) ** 2 / x
    dist2 = (x - y) ** 2 / y

    return np.maximum(np.sum(dist1), np.sum(dist2))


@avoid_zero_division
@njit
def ref_min_symmetric_distance(x, y):
    dist1 = (x - y) ** 2 / x
    dist2 = (x - y) ** 2 / y

    return np.minimum(np.sum(dist1), np.sum(dist2))


REFERENCE = {
    "hassanat": ref_hassanat_distance,
    "jensen": ref_jensen_distance,
    "jensen_shannon": ref_jensen_shannon_distance,
    "topsoe": ref_topsoe_distance,
    "max_symmetric": ref_max_symmetric_distance,
    "min_symmetric": ref_min_symmetric_distance,
}

# Metrics that are defined over all reals (the others need positive vectors)
ALL_REALS = {"hassanat"}

NAMES = [
    "additive_symmetric", "average_euclidean", "bhattacharyya", "bray_curtis",
    "canberra", "chebyshev", "chi_squared", "chord", "clark", "cosine", "dice",
    "divergence", "euclidean", "gaussian", "gower", "hamming", "hassanat",
    "hellinger", "jaccard", "jeffreys", "jensen", "jensen_shannon",
    "k_divergence", "kulczynski", "kullback_leibler", "log_euclidean",
    "log_squared_euclidean", "lorentzian", "manhattan", "matusita",
    "max_symmetric", "mean_censored_euclidean", "min_symmetric", "neyman",
    "non_intersection", "pearson", "sangvi", "soergel", "squared",
    "squared_chord", "squared_euclidean", "statistic", "topsoe",
    "vicis_symmetric1", "vicis_symmetric2", "vicis_symmetric3",
    "vicis_wave_hedges",
]

failures = []


def same(a, b):
    a, b = float(a), float(b)
    if math.isnan(a) or math.isnan(b):
        return math.isnan(a) and math.isnan(b)
    return np.float64(a).tobytes() == np.float64(b).tobytes()


def check(tag, name, fn, x, y):
    # Every call gets fresh copies, so that no side can disturb the other
    got = fn(x.copy(), y.copy())
    want = REFERENCE[name](x.copy(), y.copy())
    if not same(got, want):
        failures.append(
            f"{tag}: {name}(len={x.shape[0]}) = {got!r}, original = {want!r}\n"
            f"      x = {x.tolist()}\n      y = {y.tolist()}"
        )


def positive(rng, n):
    return rng.uniform(0.05, 6.0, n)


def signed(rng, n):
    return rng.uniform(-4.0, 4.0, n)


def tie_heavy(rng, n, lo=0):
    # Few distinct values, hence many equal coordinates between x and y
    return rng.integers(lo, 3, n).astype(float)


def build_inputs():
    rng = np.random.default_rng(20261003)
    inputs = []
    lengths = [4, 1, 7, 2, 12, 3, 9, 4, 5, 1, 16, 6, 2, 8, 4, 3, 11, 4, 1, 10]
    for k, n in enumerate(lengths):
        inputs.append(("pos", positive(rng, n), positive(rng, n)))
        inputs.append(("signed", signed(rng, n), signed(rng, n)))
        if k % 2 == 0:
            inputs.append(("ties", tie_heavy(rng, n), tie_heavy(rng, n)))
            inputs.append(("ties-signed", tie_heavy(rng, n, -2), tie_heavy(rng, n, -2)))
    # Probability vectors (with an exact zero), identical vectors, integer
    # and single precision vectors
    p = rng.dirichlet(np.ones(6))
    q = rng.dirichlet(np.ones(6))
    p[2] = 0.0
    inputs.append(("prob", p, q))
    v = positive(rng, 5)
    inputs.append(("identical", v, v.copy()))
    inputs.append(("int", np.arange(1, 6), np.arange(5, 0, -1)))
    inputs.append(
        ("float32", positive(rng, 4).astype(np.float32), positive(rng, 4).astype(np.float32))
    )
    inputs.append(("empty", np.zeros(0), np.zeros(0)))
    return inputs


# --------------------------------------------------------------------------
# 0. Registry and models agree on the 47 identifiers
# --------------------------------------------------------------------------
if sorted(distance.DISTANCES) != sorted(NAMES) or list(distance.DISTANCES) != NAMES:
    failures.append("registry: DISTANCES does not hold the 47 identifiers in order")

models = {}
for name in NAMES:
    try:
        models[name] = OPF(distance=name)
    except Exception as exc:  # pylint: disable=broad-except
        failures.append(f"registry: OPF(distance={name!r}) raised {exc!r}")
        continue
    if models[name].distance_fn is not distance.DISTANCES.get(name):
        failures.append(f"registry: OPF(distance={name!r}).distance_fn is not DISTANCES[{name!r}]")

# --------------------------------------------------------------------------
# 1. Seeded sweep, lengths deliberately go up and down between calls
# --------------------------------------------------------------------------
inputs = build_inputs()
n_calls = 0
for kind, x, y in inputs:
    for name in REFERENCE:
        if name not in ALL_REALS and kind in ("signed", "ties-signed"):
            continue
        check(f"sweep[{kind}] registry", name, distance.DISTANCES[name], x, y)
        if name in models:
            check(f"sweep[{kind}] model", name, models[name].distance_fn, x, y)
        n_calls += 2

# --------------------------------------------------------------------------
# 2. The specific history: a long vector first, a short one afterwards
#    (e.g. one model fitted on 9 features, the next one on 4 features)
# --------------------------------------------------------------------------
long_x = np.asarray([5.1, 3.5, 1.4, 0.3, 2.0, 7.5, 0.1, 6.3, 9.9])
long_y = np.asarray([0.2, 8.4, 4.7, 3.2, 0.5, 0.4, 6.1, 0.2, 0.3])
short_x = np.asarray([5.1, 3.5, 1.4, 0.3])
short_y = np.asarray([5.4, 3.4, 1.7, 0.2])

check("history long", "hassanat", distance.DISTANCES["hassanat"], long_x, long_y)
check("history short-after-long", "hassanat", distance.DISTANCES["hassanat"], short_x, short_y)
check("history short-again", "hassanat", OPF(distance="hassanat").distance_fn, short_x, short_y)
check("history one-dim", "hassanat", distance.DISTANCES["hassanat"], short_x[:1], short_y[:1])

# The pinned value of the test-suite, but reached after the long vectors
got = distance.hassanat_distance(short_x, short_y)
if got != 0.2571314102564104:
    failures.append(f"history pinned: hassanat(short) = {got!r}, expected 0.2571314102564104")

print(f"{len(inputs)} input pairs, {n_calls} compared calls in the sweep")
if failures:
    print(f"FAIL: {len(failures)} mismatches against the original metrics")
    for line in failures[:12]:
        print("  " + line)
    sys.exit(1)

print("OK: all metrics are bit-identical to the original ones")
sys.exit(0)
