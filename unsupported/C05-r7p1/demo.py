"""Demo for property C05 (indexed heap is a correct priority queue), pair p1.

Runs the library heap side by side with a verbatim copy of the original
implementation on seeded operation histories (both policies, several
capacities, tie-heavy costs), compares every observable after every call
and additionally checks the property itself.  Exit status 0 = no difference.
"""

import random
import sys

import numpy as np

import opfython.utils.constants as c
from opfython.core.heap import Heap

# --------------------------------------------------------------------------
# Verbatim copy of the original opfython/core/heap.py (reference behaviour)
# --------------------------------------------------------------------------
_ORIGINAL_SOURCE = r'''"""Standard Heap implementation.
"""

from typing import List, Optional

import opfython.utils.constants as c
import opfython.utils.exception as e


class Heap:
    """A standard implementation of a Heap structure."""

    def __init__(self, size: int = 1, policy: str = "min") -> None:
        """Initialization method.

        Args:
            size: Maximum size of the heap.
            policy: Heap's policy (`min` or `max`).

        """

        self.size = size
        self.policy = policy

        self.cost = [c.FLOAT_MAX for i in range(size)]
        self.color = [c.WHITE for i in range(size)]
        self.p = [-1 for i in range(size)]
        self.pos = [-1 for i in range(size)]

        self.last = -1

    @property
    def size(self) -> int:
        """Maximum size of the heap."""

        return self._size

    @size.setter
    def size(self, size: int) -> None:
        if not isinstance(size, int):
            raise e.TypeError("`size` should be an integer")
        if size < 1:
            raise e.ValueError("`size` should be > 0")

        self._size = size

    @property
    def policy(self) -> str:
        """Policy that rules the heap."""

        return self._policy

    @policy.setter
    def policy(self, policy: str) -> None:
        if policy not in ["min", "max"]:
            raise e.ValueError("`policy` should be `min` or `max`")

        self._policy = policy

    @property
    def cost(self) -> List[float]:
        """List of nodes' costs."""

        return self._cost

    @cost.setter
    def cost(self, cost: List[float]) -> None:
        if not isinstance(cost, list):
            raise e.TypeError("`cost` should be a list")

        self._cost = cost

    @property
    def color(self) -> List[int]:
        """List of nodes' colors."""

        return self._color

    @color.setter
    def color(self, color: List[int]) -> None:
        if not isinstance(color, list):
            raise e.TypeError("`color` should be a list")

        self._color = color

    @property
    def p(self) -> List[int]:
        """List of nodes' values."""

        return self._p

    @p.setter
    def p(self, p: List[int]) -> None:
        if not isinstance(p, list):
            raise e.TypeError("`p` should be a list")

        self._p = p

    @property
    def pos(self) -> List[int]:
        """List of nodes' positioning markers."""

        return self._pos

    @pos.setter
    def pos(self, pos: List[int]) -> None:
        if not isinstance(pos, list):
            raise e.TypeError("`pos` should be a list")

        self._pos = pos

    @property
    def last(self) -> int:
        """Last element identifier."""

        return self._last

    @last.setter
    def last(self, last: int) -> None:
        if not isinstance(last, int):
            raise e.TypeError("`last` should be an integer")
        if last < -1:
            raise e.ValueError("`last` should be > -1")

        self._last = last

    def is_full(self) -> bool:
        """Checks if the heap is full.

        Returns:
            (bool): A boolean indicating whether the heap is full.

        """

        if self.last == (self.size - 1):
            return True

        return False

    def is_empty(self) -> bool:
        """Checks if the heap is empty.

        Returns:
            (bool): A boolean indicating whether the heap is empty.

        """

        if self.last == -1:
            return True

        return False

    def dad(self, i: int) -> int:
        """Gathers the position of the node's dad.

        Args:
            i: Node's position.

        Returns:
            (int): The position of node's dad.

        """

        return int(((i - 1) / 2))

    def left_son(self, i: int) -> int:
        """Gathers the position of the node's left son.

        Args:
            i: Node's position.

        Returns:
            (int): The position of node's left son

        """

        return int((2 * i + 1))

    def right_son(self, i: int) -> int:
        """Gathers the position of the node's right son.

        Args:
            i: Node's position.

        Returns:
            (int): The position of node's right son.

        """

        return int((2 * i + 2))

    def go_up(self, i: int) -> None:
        """Goes up in the heap.

        Args:
            i: Position to be achieved.

        """

        j = self.dad(i)

        if self.policy == "min":
            # While the heap exists and the cost of post-node is bigger than current node
            while i > 0 and self.cost[self.p[j]] > self.cost[self.p[i]]:
                self.p[j], self.p[i] = self.p[i], self.p[j]

                self.pos[self.p[i]] = i
                self.pos[self.p[j]] = j

                i = j
                j = self.dad(i)

        else:
            # While the heap exists and the cost of post-node is smaller than current node
            while i > 0 and self.cost[self.p[j]] < self.cost[self.p[i]]:
                self.p[j], self.p[i] = self.p[i], self.p[j]

                self.pos[self.p[i]] = i
                self.pos[self.p[j]] = j

                i = j
                j = self.dad(i)

    def go_down(self, i: int) -> None:
        """Goes down in the heap.

        Args:
            i: Position to be achieved.

        """

        left = self.left_son(i)
        right = self.right_son(i)

        j = i

        if self.policy == "min":
            # Checks if left node is not the last and its cost is smaller than previous
            if left <= self.last and self.cost[self.p[left]] < self.cost[self.p[i]]:
                j = left

            # Checks if right node is not the last and its cost is smaller than previous
            if right <= self.last and self.cost[self.p[right]] < self.cost[self.p[j]]:
                j = right

        else:
            # Checks if left node is not the last and its cost is bigger than previous
            if left <= self.last and self.cost[self.p[left]] > self.cost[self.p[i]]:
                j = left

            # Checks if right node is not the last and its cost is bigger than previous
            if right <= self.last and self.cost[self.p[right]] > self.cost[self.p[j]]:
                j = right

        if j != i:
            self.p[j], self.p[i] = self.p[i], self.p[j]

            self.pos[self.p[i]] = i
            self.pos[self.p[j]] = j

            self.go_down(j)

    def insert(self, p: int) -> bool:
        """Inserts a new node into the heap.

        Args:
            p: Node's value to be inserted.

        Returns:
            (bool): Boolean indicating whether insertion was performed correctly.

        """

        if not self.is_full():
            self.last += 1

            self.p[self.last] = p
            self.color[p] = c.GRAY
            self.pos[p] = self.last

            self.go_up(self.last)

            return True

        return False

    def remove(self) -> int:
        """Removes a node from the heap.

        Returns:
            (int): The removed node value.

        """

        if not self.is_empty():
            p = self.p[0]

            self.pos[p] = -1
            self.color[p] = c.BLACK

            self.p[0] = self.p[self.last]

            self.pos[self.p[0]] = 0
            self.p[self.last] = -1

            self.last -= 1

            self.go_down(0)

            return p

        return False

    def update(self, p: int, cost: float) -> None:
        """Updates a node with a new value.

        Args:
            p: Node's position.
            cost: Node's cost.

        """

        self.cost[p] = cost

        if self.color[p] == c.BLACK:
            pass

        if self.color[p] == c.WHITE:
            self.insert(p)
        else:
            self.go_up(self.pos[p])
'''

_ref_ns = {"__name__": "reference_heap"}
exec(compile(_ORIGINAL_SOURCE, "reference_heap.py", "exec"), _ref_ns)
RefHeap = _ref_ns["Heap"]

FAILURES = []


def fail(msg):
    FAILURES.append(msg)
    print("FAIL:", msg)


def snapshot(h):
    return (
        list(h.p),
        list(h.pos),
        list(h.color),
        list(h.cost),
        h.last,
        h.is_empty(),
        h.is_full(),
    )


class Driver:
    """Applies the same call to the library heap and to the reference heap."""

    def __init__(self, size, policy, tag):
        self.tag = tag
        self.policy = policy
        self.size = size
        self.new = Heap(size=size, policy=policy)
        self.ref = RefHeap(size=size, policy=policy)
        self.queued = {}  # node -> cost (model of what must be in the queue)
        self.returned = []
        self.n_calls = 0
        self.compare("init")

    def better(self, a, b):
        return a < b if self.policy == "min" else a > b

    def compare(self, what):
        self.n_calls += 1
        a, b = snapshot(self.new), snapshot(self.ref)
        if a != b:
            fail("%s: state differs from original after call #%d (%s)\n   new=%r\n   ref=%r"
                 % (self.tag, self.n_calls, what, a, b))
            return False
        if self.new.is_empty() != (len(self.queued) == 0):
            fail("%s: is_empty() untruthful after %s" % (self.tag, what))
        if self.new.is_full() != (len(self.queued) == self.size):
            fail("%s: is_full() untruthful after %s" % (self.tag, what))
        return True

    def set_cost(self, p, cost):
        self.new.cost[p] = cost
        self.ref.cost[p] = cost

    def insert(self, p, expect_ok):
        ra, rb = self.new.insert(p), self.ref.insert(p)
        if ra is not rb:
            fail("%s: insert(%d) returned %r, original %r" % (self.tag, p, ra, rb))
        if ra is not expect_ok:
            fail("%s: insert(%d) returned %r, expected %r" % (self.tag, p, ra, expect_ok))
        if expect_ok:
            self.queued[p] = self.new.cost[p]
        return self.compare("insert(%d)" % p)

    def update(self, p, cost):
        self.new.update(p, cost)
        self.ref.update(p, cost)
        if self.ref.color[p] == c.GRAY:
            self.queued[p] = cost
        return self.compare("update(%d, %r)" % (p, cost))

    def remove(self):
        ra, rb = self.new.remove(), self.ref.remove()
        what = "remove()"
        if not self.queued:
            if ra is not False:
                fail("%s: remove() on empty heap returned %r" % (self.tag, ra))
        else:
            # the property itself, checked on the library heap
            if ra is False or ra not in self.queued:
                fail("%s: remove() returned %r which is not queued %r"
                     % (self.tag, ra, sorted(self.queued)))
            else:
                mine = self.queued[ra]
                for q, cq in self.queued.items():
                    if self.better(cq, mine):
                        fail("%s: remove() returned node %d (cost %r) while node %d (cost %r) is queued"
                             % (self.tag, ra, mine, q, cq))
                        break
            self.returned.append(ra)
        if type(ra) is not type(rb) or ra != rb:
            fail("%s: remove() returned %r, original %r" % (self.tag, ra, rb))
        # the model follows the reference
        if rb is not False:
            self.queued.pop(rb, None)
        return self.compare(what)

    def drain(self):
        guard = 0
        while self.queued and guard < 4 * self.size + 4:
            guard += 1
            if not self.remove():
                return False
        return True


def random_history(seed, size, policy, cost_mode):
    rng = random.Random(seed)
    tag = "seed=%d size=%d policy=%s costs=%s" % (seed, size, policy, cost_mode)
    d = Driver(size, policy, tag)

    def draw():
        if cost_mode == "ties":
            return float(rng.randint(0, 3))
        if cost_mode == "int":
            return rng.randint(-5, 5)
        if cost_mode == "np":
            return np.float64(rng.randint(0, 40)) / 4
        return rng.uniform(-100.0, 100.0)

    def improve(cost):
        step = draw()
        step = abs(step) if step != 0 else 1
        if cost_mode == "ties" and rng.random() < 0.3:
            step = 0  # "improving" update that leaves the cost as it was
        return cost - step if policy == "min" else cost + step

    inserted = []
    n_ops = rng.randint(3 * size, 8 * size + 5)
    for _ in range(n_ops):
        white = [p for p in range(size) if d.ref.color[p] == c.WHITE]
        gray = sorted(d.queued)
        r = rng.random()
        if r < 0.30 and white:
            p = rng.choice(white)
            d.set_cost(p, draw())
            ok = d.insert(p, True)
            inserted.append(p)
        elif r < 0.50 and white:
            p = rng.choice(white)
            ok = d.update(p, draw())
            inserted.append(p)
        elif r < 0.72 and gray:
            p = rng.choice(gray)
            ok = d.update(p, improve(d.queued[p]))
        elif r < 0.92:
            ok = d.remove()  # also exercises remove() on an empty heap
        elif len(d.queued) == size:
            ok = d.insert(rng.randrange(size), False)  # insert on a full heap
        else:
            ok = d.remove()
        if not ok:
            return
    if not d.drain():
        return
    if sorted(d.returned) != sorted(inserted):
        fail("%s: inserted %r but removed %r" % (tag, sorted(inserted), sorted(d.returned)))
    # failure reports must not disturb later behaviour
    if d.new.remove() is not False or d.ref.remove() is not False:
        fail("%s: remove() on drained heap did not report failure" % tag)
    d.compare("remove() on drained heap")


def full_then_reuse(policy):
    """Fill to capacity, bounce an insert, drain completely."""
    size = 6
    d = Driver(size, policy, "full/%s" % policy)
    costs = [4.0, 2.0, 2.0, 7.0, 1.0, 4.0]
    for p in range(size):
        d.update(p, costs[p])
    d.insert(3, False)
    d.insert(0, False)
    d.drain()
    d.remove()
    if sorted(d.returned) != list(range(size)):
        fail("full/%s: removed %r" % (policy, d.returned))


def specific_history():
    """The node in the LAST used slot must be promoted while sifting down.

    min-heap with costs 1, 2, 3 laid out as [0, 1, 2].  The first removal moves
    node 2 (cost 3) to the root; its only son is node 1 (cost 2) and sits exactly
    in slot `last`.  It has to be swapped up, otherwise the next removal returns
    cost 3 while cost 2 is still queued.  Same for the mirrored max-heap.
    """
    for policy, costs in (("min", [1.0, 2.0, 3.0]), ("max", [3.0, 2.0, 1.0])):
        d = Driver(3, policy, "specific/%s" % policy)
        for p, cost in enumerate(costs):
            d.update(p, cost)
        order = []
        for _ in range(3):
            d.remove()
            order.append(d.returned[-1] if d.returned else None)
        if order != [0, 1, 2]:
            fail("specific/%s: removal order %r, expected [0, 1, 2]" % (policy, order))

    # a deeper one: 7 nodes, the slot `last` holds the better of two sons
    d = Driver(7, "min", "specific/deep")
    for p, cost in enumerate([1.0, 5.0, 2.0, 6.0, 7.0, 4.0, 3.0]):
        d.update(p, cost)
    d.drain()
    if [d.new.cost[p] for p in d.returned] != [1.0, 2.0, 3.0, 4.0, 5.0, 6.0, 7.0]:
        fail("specific/deep: removal order %r" % (d.returned,))


def main():
    specific_history()

    n = 0
    for policy in ("min", "max"):
        full_then_reuse(policy)
        for cost_mode in ("ties", "float", "int", "np"):
            for size in (1, 2, 3, 4, 7, 8, 16, 33):
                for rep in range(3):
                    seed = 1000 * size + 10 * rep + (0 if policy == "min" else 5) + len(cost_mode)
                    random_history(seed, size, policy, cost_mode)
                    n += 1
                    if len(FAILURES) > 12:
                        break

    print("%d seeded histories run, %d failure(s)" % (n, len(FAILURES)))
    return 1 if FAILURES else 0


if __name__ == "__main__":
    sys.exit(main())
