"""C18 / p1 demo: converter (opf2txt / opf2csv / opf2json) against a verbatim copy of the original.

Exit 0: library output is byte-identical to the original converter on every generated file and the
        three converted files load/parse to the very same ids, labels and float32 features.
Exit 1: some difference was found.
"""

import json as j
import os
import shutil
import struct
import sys
import tempfile

import numpy as np

from opfython.stream import loader, parser
from opfython.utils import converter

# --------------------------------------------------------------------------- #
# Verbatim copy of the original opfython/utils/converter.py bodies (reference) #
# --------------------------------------------------------------------------- #


def _ref_read(opf_path):
    header_format = "<iii"
    header_size = struct.calcsize(header_format)

    with open(opf_path, "rb") as f:
        header_data = struct.unpack(header_format, f.read(header_size))

        n_samples = header_data[0]
        n_features = header_data[2]

        file_format = "<ii"
        for _ in range(n_features):
            file_format += "f"

        data_size = struct.calcsize(file_format)

        rows = []
        for _ in range(n_samples):
            data = struct.unpack(file_format, f.read(data_size))
            rows.append(data)

    return rows


def ref_opf2txt(opf_path, output_file=None):
    samples = []
    for data in _ref_read(opf_path):
        # Note that we subtract 1 from `labels` column
        samples.append((data[0], data[1] - 1, *data[2:]))

    if not output_file:
        output_file = opf_path.split(".")[0] + ".txt"

    np.savetxt(output_file, samples, delimiter=" ")


def ref_opf2csv(opf_path, output_file=None):
    samples = []
    for data in _ref_read(opf_path):
        samples.append((data[0], data[1] - 1, *data[2:]))

    if not output_file:
        output_file = opf_path.split(".")[0] + ".csv"

    np.savetxt(output_file, samples, delimiter=",")


def ref_opf2json(opf_path, output_file=None):
    json = {"data": []}
    for data in _ref_read(opf_path):
        json["data"].append(
            {"id": data[0], "label": data[1] - 1, "features": list(data[2:])}
        )

    if not output_file:
        output_file = opf_path.split(".")[0] + ".json"

    with open(output_file, "w") as f:
        j.dump(json, f)


# --------------------------------------------------------------------------- #

FAILURES = []


def fail(msg):
    FAILURES.append(msg)
    print("FAIL:", msg)


def write_opf(path, ids, labels, feats, n_labels=None, trailing=b""):
    """Writes an OPF binary file; `labels` are 1-based as in the OPF format."""

    n, d = feats.shape
    if n_labels is None:
        n_labels = int(max(labels)) if n else 0

    with open(path, "wb") as f:
        f.write(struct.pack("<iii", n, n_labels, d))
        for i in range(n):
            f.write(struct.pack("<ii", int(ids[i]), int(labels[i])))
            f.write(np.asarray(feats[i], dtype="<f4").tobytes())
        f.write(trailing)


def make_dataset(case, rng):
    """Returns (ids, labels(1-based), feats(float32), n_labels, trailing)."""

    n = int(rng.integers(1, 40))
    d = int(rng.integers(1, 7))
    k = int(rng.integers(1, 5))
    trailing = b""
    n_labels = None

    kind = case % 8

    if kind == 0:  # plain
        ids = np.arange(n)
        feats = rng.normal(size=(n, d))
    elif kind == 1:  # tie-heavy: few distinct feature values, duplicated rows
        ids = np.arange(n)
        feats = rng.integers(0, 3, size=(n, d)).astype(float)
    elif kind == 2:  # shuffled, non-contiguous ids
        ids = rng.permutation(5 * n)[:n]
        feats = rng.normal(size=(n, d)) * 1e3
    elif kind == 3:  # header whose n_labels is unrelated to n_features (+ trailing bytes)
        ids = np.arange(n) + 1
        feats = rng.normal(size=(n, d))
        n_labels = d + 5
        trailing = b"\x01\x02\x03"
    elif kind == 4:  # extreme magnitudes, values that are not exact in decimal
        ids = np.arange(n)
        feats = rng.normal(size=(n, d)) * 10.0 ** rng.integers(-30, 30, size=(n, d))
    elif kind == 5:  # single sample / single feature corner
        n, d = (1, d) if case % 16 == 5 else (n, 1)
        ids = np.arange(n)
        feats = rng.normal(size=(n, d))
    elif kind == 6:  # large identifiers (row ids taken from a very large collection)
        ids = rng.integers(2**24, 2**31 - 1, size=n)
        feats = rng.normal(size=(n, d))
    else:  # negative ids, many labels
        ids = -np.arange(n) - 1
        k = min(n, 9)
        feats = rng.integers(-2, 2, size=(n, d)) / 3.0

    feats = np.asarray(feats, dtype=np.float32).reshape(n, d)

    # Sequential 1-based labels, every label present at least once
    labels = np.concatenate((np.arange(min(k, n)), rng.integers(0, min(k, n), size=n - min(k, n)))) + 1
    labels = rng.permutation(labels)

    return ids, labels, feats, n_labels, trailing


def read_bytes(path):
    with open(path, "rb") as f:
        return f.read()


def check_file(tag, opf, workdir, ids, labels, feats):
    outs = {}
    for ext, lib, ref in (
        ("txt", converter.opf2txt, ref_opf2txt),
        ("csv", converter.opf2csv, ref_opf2csv),
        ("json", converter.opf2json, ref_opf2json),
    ):
        got = os.path.join(workdir, "got_%s.%s" % (tag, ext))
        exp = os.path.join(workdir, "exp_%s.%s" % (tag, ext))

        lib(opf, got)
        ref(opf, exp)

        if read_bytes(got) != read_bytes(exp):
            fail("%s: .%s output differs from the original converter" % (tag, ext))

        outs[ext] = got

    if len(ids) == 0:
        return

    # The property itself: the three files load / parse to the stored data
    loaded = {
        "txt": loader.load_txt(outs["txt"]),
        "csv": loader.load_csv(outs["csv"]),
        "json": loader.load_json(outs["json"]),
    }

    for ext, data in loaded.items():
        data = np.atleast_2d(data)
        X, Y = parser.parse_loader(data)

        if not np.array_equal(data[:, 0], np.asarray(ids, dtype=float)):
            fail("%s: .%s identifiers are not preserved" % (tag, ext))
        if not np.array_equal(Y, np.asarray(labels) - 1):
            fail("%s: .%s labels are not the stored labels shifted to 0" % (tag, ext))
        if not np.array_equal(X, feats.astype(np.float64), equal_nan=True):
            fail("%s: .%s features are not the stored float32 values" % (tag, ext))


def main():
    workdir = tempfile.mkdtemp(prefix="c18p1")

    try:
        # (1) 48 seeded datasets
        for case in range(48):
            rng = np.random.default_rng(1000 + case)
            ids, labels, feats, n_labels, trailing = make_dataset(case, rng)

            opf = os.path.join(workdir, "d%02d.dat" % case)
            write_opf(opf, ids, labels, feats, n_labels, trailing)

            check_file("case%02d" % case, opf, workdir, ids, labels, feats)

        # (2) the specific input: identifiers beyond 2**24 that differ in the low bits
        ids = np.array([2**24 + 1, 2**24 + 3, 123456789, 2**31 - 1, 7, 16777217 + 2**20])
        labels = np.array([1, 2, 1, 3, 2, 3])
        feats = np.array(
            [[0.1, 0.2], [0.1, 0.2], [1.5, -2.5], [3.0, 3.0], [0.1, 0.2], [1e-7, 1e7]],
            dtype=np.float32,
        )
        opf = os.path.join(workdir, "bigids.dat")
        write_opf(opf, ids, labels, feats)
        check_file("big-ids", opf, workdir, ids, labels, feats)

        # (3) empty dataset and default output names
        opf = os.path.join(workdir, "empty.dat")
        write_opf(opf, np.zeros(0), np.zeros(0), np.zeros((0, 3), dtype=np.float32))
        check_file("empty", opf, workdir, [], [], np.zeros((0, 3)))

        opf = os.path.join(workdir, "default.dat")
        write_opf(opf, ids, labels, feats)
        converter.opf2txt(opf)
        converter.opf2csv(opf)
        converter.opf2json(opf)
        for ext, ref in (("txt", ref_opf2txt), ("csv", ref_opf2csv), ("json", ref_opf2json)):
            exp = os.path.join(workdir, "default_exp." + ext)
            ref(opf, exp)
            if read_bytes(os.path.join(workdir, "default." + ext)) != read_bytes(exp):
                fail("default output name: .%s differs" % ext)

        # (4) the shipped boat dataset
        for ext, lib, ref in (
            ("txt", converter.opf2txt, ref_opf2txt),
            ("csv", converter.opf2csv, ref_opf2csv),
            ("json", converter.opf2json, ref_opf2json),
        ):
            got = os.path.join(workdir, "boat_got." + ext)
            exp = os.path.join(workdir, "boat_exp." + ext)
            lib("data/boat.dat", got)
            ref("data/boat.dat", exp)
            if read_bytes(got) != read_bytes(exp):
                fail("boat: .%s differs" % ext)

    finally:
        shutil.rmtree(workdir, ignore_errors=True)

    if FAILURES:
        print("%d failure(s)" % len(FAILURES))
        sys.exit(1)

    print("OK")


if __name__ == "__main__":
    import logging

    logging.disable(logging.CRITICAL)
    main()
