"""Demo for C20 / p2: numerical hygiene of opf_accuracy / opf_accuracy_per_label.

Exits 0 when `opfython.math.general.opf_accuracy` and `opf_accuracy_per_label` behave exactly
like the original implementation (inlined below as reference), non-zero otherwise.
"""

import sys
import warnings

import numpy as np

from opfython.math import general as g

warnings.simplefilter("ignore", RuntimeWarning)


# --------------------------------------------------------------------------- #
# Verbatim copies of the original functions (reference)
# --------------------------------------------------------------------------- #
def ref_opf_accuracy(labels, preds):
    labels = np.asarray(labels)
    preds = np.asarray(preds)

    n_class = np.max(labels) + 1

    errors = np.zeros((n_class, 2))
    counts = np.bincount(labels)

    for label, pred in zip(labels, preds):
        if label != pred:
            errors[pred][0] += 1
            errors[label][1] += 1

    errors[:, 1] /= counts
    errors[:, 0] /= np.nansum(counts) - counts
    errors = np.nansum(errors, axis=1)

    accuracy = 1 - (np.sum(errors) / (2 * n_class))

    return accuracy


def ref_opf_accuracy_per_label(labels, preds):
    labels = np.asarray(labels)
    preds = np.asarray(preds)

    n_class = np.max(labels) + 1

    errors = np.zeros(n_class)
    _, counts = np.unique(labels, return_counts=True)

    for label, pred in zip(labels, preds):
        if label != pred:
            errors[label] += 1

    errors /= counts
    accuracy = 1 - errors

    return accuracy


# --------------------------------------------------------------------------- #
failures = []


def check(cond, msg):
    if not cond:
        failures.append(msg)
        print("FAIL:", msg)


def same(a, b):
    a = np.asarray(a)
    b = np.asarray(b)
    return a.shape == b.shape and a.dtype == b.dtype and a.tobytes() == b.tobytes()


def definition(labels, preds, k):
    """OPF accuracy straight from its definition."""
    labels = np.asarray(labels)
    preds = np.asarray(preds)
    n = labels.shape[0]
    total = 0.0
    for c in range(k):
        n_c = int(np.sum(labels == c))
        fp = int(np.sum((preds == c) & (labels != c)))
        fn = int(np.sum((labels == c) & (preds != c)))
        if n - n_c > 0:
            total += fp / (n - n_c)
        total += fn / n_c
    return 1 - total / (2 * k)


def make_case(rng, kind):
    k = int(rng.integers(1, 7))
    n = int(rng.integers(k, 80))
    # every class 0..K-1 present among the true labels
    labels = np.concatenate([np.arange(k), rng.integers(0, k, size=n - k)])
    rng.shuffle(labels)
    if kind == 0:  # random predictions
        preds = rng.integers(0, k, size=n)
    elif kind == 1:  # mostly right: a few false positives per class
        preds = labels.copy()
        flip = rng.random(n) < 0.15
        preds[flip] = rng.integers(0, k, size=int(flip.sum()))
    elif kind == 2:  # everything predicted as one class (all-or-nothing rates)
        preds = np.full(n, int(rng.integers(0, k)))
    elif kind == 3:  # perfect
        preds = labels.copy()
    elif kind == 4:  # balanced classes, cyclic shift: everything wrong
        labels = np.repeat(np.arange(k), 3)
        preds = (labels + 1) % k
    else:  # balanced classes with identical error patterns (tie-heavy rates)
        labels = np.repeat(np.arange(k), 4)
        preds = labels.copy()
        preds[::4] = (preds[::4] + 1) % k
    return k, labels, preds


rng = np.random.default_rng(2009)
n_cases = 0
for i in range(72):
    k, labels, preds = make_case(rng, i % 6)
    for conv in (np.asarray, list):
        lab, pre = conv(labels), conv(preds)
        if conv is list:
            lab, pre = [int(x) for x in lab], [int(x) for x in pre]

        ref_acc = ref_opf_accuracy(lab, pre)
        ref_per = ref_opf_accuracy_per_label(lab, pre)

        acc = g.opf_accuracy(lab, pre)
        per = g.opf_accuracy_per_label(lab, pre)

        check(
            type(acc) is type(ref_acc) and same(acc, ref_acc),
            f"case {i}: opf_accuracy {acc!r} differs from the original {ref_acc!r}",
        )
        check(same(per, ref_per), f"case {i}: opf_accuracy_per_label differs from the original")

        # Property-level checks
        check(0 <= acc <= 1, f"case {i}: accuracy {acc} outside [0, 1]")
        check((acc == 1) == bool(np.all(labels == preds)), f"case {i}: accuracy == 1 iff all correct")
        check(
            abs(acc - definition(labels, preds, k)) < 1e-12,
            f"case {i}: accuracy {acc} does not match its definition {definition(labels, preds, k)}",
        )
        recall = np.array([np.mean(preds[labels == c] == c) for c in range(k)])
        check(np.allclose(per, recall, rtol=0, atol=1e-12), f"case {i}: per-label accuracy is not recall")
        n_cases += 1

# Repeated calls with the same arrays must not change anything (no in-place side effects)
labels = np.array([0, 1, 2, 2, 1, 0, 2, 2])
preds = np.array([0, 2, 2, 1, 1, 0, 2, 0])
lab_copy, pre_copy = labels.copy(), preds.copy()
first = g.opf_accuracy(labels, preds)
second = g.opf_accuracy(labels, preds)
check(same(first, second), "repeated call gives another accuracy")
check(same(labels, lab_copy) and same(preds, pre_copy), "inputs modified in place")

# --------------------------------------------------------------------------- #
# The specific input: a class that collects FEWER false positives than there are samples
# of the other classes (a fractional false-positive rate). The unit test only has
# all-or-nothing rates (2 / 2).
# --------------------------------------------------------------------------- #
labels = [0, 0, 1, 1, 1]
preds = [0, 0, 0, 1, 1]
acc = g.opf_accuracy(labels, preds)
expected = 1 - ((1 / 3) + (1 / 3)) / 4  # fp(0) = 1 / 3, fn(1) = 1 / 3
check(acc == ref_opf_accuracy(labels, preds), f"fractional fp rate: {acc!r} != original {ref_opf_accuracy(labels, preds)!r}")
check(abs(acc - expected) < 1e-12, f"fractional fp rate: accuracy {acc!r}, definition gives {expected!r}")

# Two prediction vectors with the same misses but differently spread false positives
# (2 / 8 for one class versus 1 / 8 for two classes).
labels = [0, 0, 0, 0, 1, 1, 1, 1, 2, 2, 2, 2]
good = [0, 0, 0, 0, 1, 1, 1, 0, 2, 2, 2, 0]
bad = [0, 0, 0, 0, 1, 1, 1, 2, 2, 2, 2, 1]
a_good, a_bad = g.opf_accuracy(labels, good), g.opf_accuracy(labels, bad)
check(
    same(a_good, ref_opf_accuracy(labels, good)) and same(a_bad, ref_opf_accuracy(labels, bad)),
    f"spread false positives: ({a_good!r}, {a_bad!r}) differs from the original",
)

print(f"{n_cases} cases compared, {len(failures)} failures")
sys.exit(1 if failures else 0)
