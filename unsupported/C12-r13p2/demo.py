"""C12 / p2 demo: pythonic-idioms commit on KNNSubgraph.calculate_pdf.
Exit 0 = behaviour identical to the original code, exit 1 = a difference was found."""

import logging
import sys
import warnings

logging.disable(logging.CRITICAL)
warnings.simplefilter("ignore")

import numpy as np

import opfython.math.distance as distance
import opfython.utils.constants as c
from opfython.subgraphs.knn import KNNSubgraph


# --------------------------------------------------------------------------
# Verbatim copies of the ORIGINAL methods (reference behaviour)
# --------------------------------------------------------------------------
class RefKNN(KNNSubgraph):
    def calculate_pdf(
        self, n_neighbours, distance_function, pre_computed_distance=False,
        pre_distances=None,
    ):
        self.constant = 2 * self.density / 9

        self.min_density = c.FLOAT_MAX
        self.max_density = -c.FLOAT_MAX

        pdf = np.zeros(self.n_nodes)
        for i in range(self.n_nodes):
            pdf[i] = 0
            n_pdf = 1

            for k in range(n_neighbours):
                j = int(self.nodes[i].adjacency[k])

                if pre_computed_distance:
                    distance = pre_distances[self.nodes[i].idx][self.nodes[j].idx]

                else:
                    distance = distance_function(
                        self.nodes[i].features, self.nodes[j].features
                    )

                pdf[i] += np.exp(-distance / self.constant)
                n_pdf += 1

            pdf[i] /= n_pdf

            if pdf[i] < self.min_density:
                self.min_density = pdf[i]
            if pdf[i] > self.max_density:
                self.max_density = pdf[i]

        if self.min_density == self.max_density:
            for i in range(self.n_nodes):
                self.nodes[i].density = c.MAX_DENSITY
                self.nodes[i].cost = c.MAX_DENSITY - 1
        else:
            for i in range(self.n_nodes):
                self.nodes[i].density = (
                    (c.MAX_DENSITY - 1)
                    * (pdf[i] - self.min_density)
                    / (self.max_density - self.min_density)
                ) + 1
                self.nodes[i].cost = self.nodes[i].density - 1

    def create_arcs(
        self, k, distance_function, pre_computed_distance=False, pre_distances=None
    ):
        distances = np.zeros(k + 1)
        neighbours_idx = np.zeros(k + 1)
        max_distances = np.zeros(k)

        self.density = 0.0

        for i in range(self.n_nodes):
            distances.fill(c.FLOAT_MAX)

            for j in range(self.n_nodes):
                if j != i:
                    if pre_computed_distance:
                        distances[k] = pre_distances[self.nodes[i].idx][
                            self.nodes[j].idx
                        ]
                    else:
                        distances[k] = distance_function(
                            self.nodes[i].features, self.nodes[j].features
                        )

                    neighbours_idx[k] = j
                    cur_k = k

                    while cur_k > 0 and distances[cur_k] < distances[cur_k - 1]:
                        distances[cur_k], distances[cur_k - 1] = (
                            distances[cur_k - 1],
                            distances[cur_k],
                        )

                        neighbours_idx[cur_k], neighbours_idx[cur_k - 1] = (
                            neighbours_idx[cur_k - 1],
                            neighbours_idx[cur_k],
                        )

                        cur_k -= 1

            self.nodes[i].radius = 0.0
            self.nodes[i].n_plateaus = 0

            for l in range(k - 1, -1, -1):
                if distances[l] != c.FLOAT_MAX:
                    if distances[l] > self.density:
                        self.density = distances[l]
                    if distances[l] > self.nodes[i].radius:
                        self.nodes[i].radius = distances[l]
                    if distances[l] > max_distances[l]:
                        max_distances[l] = distances[l]

                    self.nodes[i].adjacency.insert(0, neighbours_idx[l])

        if self.density < 0.00001:
            self.density = 1

        return max_distances

    def eliminate_maxima_height(self, height):
        if height > 0:
            for i in range(self.n_nodes):
                self.nodes[i].cost = np.maximum(self.nodes[i].density - height, 0)


# --------------------------------------------------------------------------
def same(a, b):
    """Bit-identical comparison (NaN == NaN, 0.0 != -0.0 is not required)."""
    a = np.asarray(a, dtype=float)
    b = np.asarray(b, dtype=float)
    return a.shape == b.shape and np.array_equal(a, b, equal_nan=True)


def snapshot(g):
    return {
        "adjacency": [[float(a) for a in n.adjacency] for n in g.nodes],
        "radius": [float(n.radius) for n in g.nodes],
        "n_plateaus": [n.n_plateaus for n in g.nodes],
        "density": [float(n.density) for n in g.nodes],
        "cost": [float(n.cost) for n in g.nodes],
        "model": [float(g.density), float(g.constant), float(g.min_density),
                  float(g.max_density)],
    }


def compare(tag, g, r, failures):
    sg, sr = snapshot(g), snapshot(r)
    for key in sg:
        if key == "adjacency":
            ok = len(sg[key]) == len(sr[key]) and all(
                same(x, y) for x, y in zip(sg[key], sr[key])
            )
        else:
            ok = same(sg[key], sr[key])
        if not ok:
            failures.append(f"{tag}: {key} differs")


METRICS = [
    distance.euclidean_distance,
    distance.log_squared_euclidean_distance,
    distance.manhattan_distance,
    distance.chi_squared_distance,
    distance.canberra_distance,
]


def make_inputs():
    """(name, X, I, k, pre matrix or None, metric)"""
    cases = []
    for seed in range(36):
        rng = np.random.default_rng(1000 + seed)
        n = int(rng.integers(2, 15))
        d = int(rng.integers(1, 4))
        kind = seed % 6
        if kind == 0:  # random cloud
            X = rng.random((n, d))
        elif kind == 1:  # lattice, many equal distances
            X = rng.integers(0, 3, size=(n, d)).astype(float)
        elif kind == 2:  # duplicates
            base = rng.random((max(1, n // 3), d))
            X = base[rng.integers(0, len(base), size=n)]
        elif kind == 3:  # tiny cloud: density bound falls back to 1
            X = 1e-7 * rng.random((n, d))
        elif kind == 4:  # all identical
            X = np.ones((n, d)) * 0.5
        else:  # regular grid
            side = int(np.ceil(np.sqrt(n)))
            X = np.array([[a, b] for a in range(side) for b in range(side)][:n], float)
        k = int(rng.integers(1, n + 2))  # also k > n - 1
        metric = METRICS[seed % len(METRICS)]
        pre, I = None, None
        if seed % 3 == 1:  # pre-computed, non-identity indexes, asymmetric
            m = n + 4
            I = rng.permutation(m)[:n]
            if seed % 2:
                pre = rng.integers(0, 4, size=(m, m)).astype(float)
            else:
                pre = rng.random((m, m))
            np.fill_diagonal(pre, 0.0)
        cases.append((f"case{seed}", X, I, k, pre, metric))
    return cases


HEIGHTS = [2.5, 0, 0.0, -1.0, 1, 999.0, 1e-3, float("nan"), np.float64(0.0), 500]


def run_history(cls, X, I, k, pre, metric, height, second_height):
    g = cls(X.copy(), None, None if I is None else I.copy())
    pc = pre is not None
    out = []
    md = g.create_arcs(k, metric, pc, pre)
    out.append(np.array(md, float))
    kk = min(k, g.n_nodes - 1)
    g.calculate_pdf(kk, metric, pc, pre)
    steps = [snapshot(g)]
    g.eliminate_maxima_height(height)
    steps.append(snapshot(g))
    g.eliminate_maxima_height(second_height)
    steps.append(snapshot(g))
    # repeated fit on the same object
    g.destroy_arcs()
    k2 = max(1, kk - 1)
    out.append(np.array(g.create_arcs(k2, metric, pc, pre), float))
    g.calculate_pdf(k2, metric, pc, pre)
    g.eliminate_maxima_height(second_height)
    return g, out, steps


def main():
    failures = []
    n_checked = 0
    for idx, (name, X, I, k, pre, metric) in enumerate(make_inputs()):
        h1 = HEIGHTS[idx % len(HEIGHTS)]
        h2 = HEIGHTS[(idx * 3 + 1) % len(HEIGHTS)]
        g, out_g, steps_g = run_history(KNNSubgraph, X, I, k, pre, metric, h1, h2)
        r, out_r, steps_r = run_history(RefKNN, X, I, k, pre, metric, h1, h2)
        for a, b in zip(out_g, out_r):
            if not same(a, b):
                failures.append(f"{name}: returned per-rank maxima differ")
        for step, (a, b) in enumerate(zip(steps_g, steps_r)):
            for key in a:
                if key == "adjacency":
                    ok = all(same(x, y) for x, y in zip(a[key], b[key]))
                else:
                    ok = same(a[key], b[key])
                if not ok:
                    failures.append(
                        f"{name}: {key} differs after step {step} (h1={h1}, h2={h2})"
                    )
        compare(name + " final", g, r, failures)
        n_checked += 1

    # ----------------------------------------------------------------------
    # The specific input: pre-computed distances of a LARGER dataset, the
    # subgraph holds rows 5, 2, 7, 0 of it (non-identity indexes).
    # ----------------------------------------------------------------------
    rng = np.random.default_rng(7)
    P = rng.random((8, 2)) * 4
    M = np.sqrt(((P[:, None, :] - P[None, :, :]) ** 2).sum(-1))
    I = np.array([5, 2, 7, 0, 3])
    g = KNNSubgraph(P[I], None, I)
    k = 2
    g.create_arcs(k, distance.euclidean_distance, True, M)
    g.calculate_pdf(k, distance.euclidean_distance, True, M)
    raw = []
    for node in g.nodes:
        js = [int(a) for a in node.adjacency[:k]]
        raw.append(
            sum(np.exp(-M[node.idx][g.nodes[j].idx] / g.constant) for j in js) / (k + 1)
        )
    lo, hi = min(raw), max(raw)
    expected = [(c.MAX_DENSITY - 1) * (v - lo) / (hi - lo) + 1 for v in raw]
    got = [float(n.density) for n in g.nodes]
    if not np.allclose(got, expected, rtol=1e-9, atol=1e-9):
        failures.append(
            "specific: densities from a pre-computed matrix with non-identity "
            f"indexes are wrong: {got} != {expected}"
        )
    if not np.isclose(g.min_density, lo) or not np.isclose(g.max_density, hi):
        failures.append("specific: recorded min/max of the raw estimates are wrong")
    if not np.allclose([float(n.cost) for n in g.nodes], [d - 1 for d in expected]):
        failures.append("specific: cost is not density - 1")

    if failures:
        print(f"FAIL ({len(failures)} differences)")
        for f in failures[:15]:
            print("  -", f)
        return 1
    print(f"OK: {n_checked} seeded inputs + specific history identical to the original")
    return 0


if __name__ == "__main__":
    sys.exit(main())
