"""C19 / p2 - save() / load() round trip after the numerical-hygiene commit
(named constants in the k-NN subgraph, range re-check of the costs on un-pickling).

Exit 0: (1) KNNSubgraph.create_arcs / calculate_pdf give bit-identical results to the
ORIGINAL code (inlined below, verbatim) and (2) every saved-and-reloaded model
equals the original one (forest state, configuration, predictions).  Exit 1 otherwise.

Run as:  cd /tmp/wt/C19 && PYTHONPATH=/tmp/wt/C19 /venv/bin/python demo.py
"""

import logging
import os
import sys
import atexit
import shutil
import tempfile
import warnings

import numpy as np

logging.disable(logging.CRITICAL)
warnings.filterwarnings("ignore")

import opfython.math.distance as d  # noqa: E402
import opfython.utils.constants as c  # noqa: E402
from opfython.subgraphs import KNNSubgraph  # noqa: E402
from opfython.models import (  # noqa: E402
    KNNSupervisedOPF,
    SemiSupervisedOPF,
    SupervisedOPF,
    UnsupervisedOPF,
)

TMP = tempfile.mkdtemp(prefix="c19p2_")
atexit.register(shutil.rmtree, TMP, ignore_errors=True)
FAILURES = []


def fail(msg):
    FAILURES.append(msg)
    if len(FAILURES) <= 25:
        print("FAIL:", msg)


# --------------------------------------------------------------------------
# Reference: the original KNNSubgraph.calculate_pdf / create_arcs (verbatim)
# --------------------------------------------------------------------------
def ref_calculate_pdf(
    self, n_neighbours, distance_function, pre_computed_distance=False, pre_distances=None
):
    self.constant = 2 * self.density / 9

    self.min_density = c.FLOAT_MAX
    self.max_density = -c.FLOAT_MAX

    pdf = np.zeros(self.n_nodes)
    for i in range(self.n_nodes):
        pdf[i] = 0
        n_pdf = 1

        for k in range(n_neighbours):
            j = int(self.nodes[i].adjacency[k])

            if pre_computed_distance:
                distance = pre_distances[self.nodes[i].idx][self.nodes[j].idx]

            else:
                distance = distance_function(
                    self.nodes[i].features, self.nodes[j].features
                )

            pdf[i] += np.exp(-distance / self.constant)
            n_pdf += 1

        pdf[i] /= n_pdf

        if pdf[i] < self.min_density:
            self.min_density = pdf[i]
        if pdf[i] > self.max_density:
            self.max_density = pdf[i]

    if self.min_density == self.max_density:
        for i in range(self.n_nodes):
            self.nodes[i].density = c.MAX_DENSITY
            self.nodes[i].cost = c.MAX_DENSITY - 1
    else:
        for i in range(self.n_nodes):
            self.nodes[i].density = (
                (c.MAX_DENSITY - 1)
                * (pdf[i] - self.min_density)
                / (self.max_density - self.min_density)
            ) + 1
            self.nodes[i].cost = self.nodes[i].density - 1


def ref_create_arcs(
    self, k, distance_function, pre_computed_distance=False, pre_distances=None
):
    distances = np.zeros(k + 1)
    neighbours_idx = np.zeros(k + 1)
    max_distances = np.zeros(k)

    self.density = 0.0

    for i in range(self.n_nodes):
        distances.fill(c.FLOAT_MAX)

        for j in range(self.n_nodes):
            if j != i:
                if pre_computed_distance:
                    distances[k] = pre_distances[self.nodes[i].idx][self.nodes[j].idx]
                else:
                    distances[k] = distance_function(
                        self.nodes[i].features, self.nodes[j].features
                    )

                neighbours_idx[k] = j
                cur_k = k

                while cur_k > 0 and distances[cur_k] < distances[cur_k - 1]:
                    distances[cur_k], distances[cur_k - 1] = (
                        distances[cur_k - 1],
                        distances[cur_k],
                    )

                    neighbours_idx[cur_k], neighbours_idx[cur_k - 1] = (
                        neighbours_idx[cur_k - 1],
                        neighbours_idx[cur_k],
                    )

                    cur_k -= 1

        self.nodes[i].radius = 0.0
        self.nodes[i].n_plateaus = 0

        for l in range(k - 1, -1, -1):
            if distances[l] != c.FLOAT_MAX:
                if distances[l] > self.density:
                    self.density = distances[l]
                if distances[l] > self.nodes[i].radius:
                    self.nodes[i].radius = distances[l]
                if distances[l] > max_distances[l]:
                    max_distances[l] = distances[l]

                self.nodes[i].adjacency.insert(0, neighbours_idx[l])

    if self.density < 0.00001:
        self.density = 1

    return max_distances


# --------------------------------------------------------------------------
# Canonical, type-aware and bit-exact picture of a model
# --------------------------------------------------------------------------
def canon(o):
    if isinstance(o, np.ndarray):
        return ("nd", str(o.dtype), o.shape, np.ascontiguousarray(o).tobytes())
    if isinstance(o, np.generic):
        return ("ng", type(o).__name__, o.tobytes())
    if isinstance(o, float):
        return ("f", o.hex())
    if isinstance(o, (bool, int, str, type(None))):
        return (type(o).__name__, o)
    if isinstance(o, (list, tuple)):
        return (type(o).__name__, tuple(canon(x) for x in o))
    if isinstance(o, dict):
        return ("d", tuple((k, canon(o[k])) for k in sorted(o)))
    if hasattr(o, "py_func"):
        return ("fn", o.py_func.__module__, o.py_func.__name__)
    if callable(o):
        return ("fn", getattr(o, "__module__", None), getattr(o, "__qualname__", None))
    if hasattr(o, "__dict__"):
        return ("obj", type(o).__qualname__, canon(vars(o)))
    return ("repr", repr(o))


def first_diff(a, b, path="model"):
    """Human readable location of the first difference between two canon() values."""
    if a == b:
        return None
    if (
        isinstance(a, tuple)
        and isinstance(b, tuple)
        and len(a) == len(b)
        and a
        and a[0] == b[0]
    ):
        if a[0] == "d" and len(a) == 2:
            ka = [k for k, _ in a[1]]
            kb = [k for k, _ in b[1]]
            if ka != kb:
                return "%s: keys %s != %s" % (path, ka, kb)
            for (k, va), (_, vb) in zip(a[1], b[1]):
                d = first_diff(va, vb, path + "." + str(k))
                if d:
                    return d
        if a[0] in ("list", "tuple") and len(a[1]) == len(b[1]):
            for i, (va, vb) in enumerate(zip(a[1], b[1])):
                d = first_diff(va, vb, "%s[%d]" % (path, i))
                if d:
                    return d
        if a[0] == "obj" and a[1] == b[1]:
            return first_diff(a[2], b[2], path)
    sa, sb = repr(a), repr(b)
    return "%s: %s != %s" % (path, sa[:80], sb[:80])


# --------------------------------------------------------------------------
# Work-loads
# --------------------------------------------------------------------------
METRICS = [
    "log_squared_euclidean",
    "euclidean",
    "manhattan",
    "chi_squared",
    "canberra",
    "squared_euclidean",
    "kullback_leibler",  # asymmetric
    "bray_curtis",
]
KINDS = ["sup", "semi", "knn", "unsup"]


def make(kind, metric=None):
    kw = {} if metric is None else {"distance": metric}
    if kind == "sup":
        return SupervisedOPF(**kw)
    if kind == "semi":
        return SemiSupervisedOPF(**kw)
    if kind == "knn":
        return KNNSupervisedOPF(max_k=3, **kw)
    return UnsupervisedOPF(min_k=1, max_k=3, **kw)


SCALES = [1.0, 40.0, 1e-3, 7.0]


def pool(seed, ties, n):
    rng = np.random.RandomState(1000 + seed)
    if ties:
        # small integer grid: many duplicated points and equal distances
        X = rng.randint(1, 4, size=(n, 2)).astype(np.float64)
        if seed % 4 == 1:
            X *= 3.0
    else:
        # raw measurements come in all sorts of units
        X = (rng.rand(n, 3) + 0.05) * SCALES[seed % len(SCALES)]
    Y = rng.randint(1, 3, size=n)
    Y[0], Y[1] = 1, 2
    return rng, X, Y


def matrix(rng, X, ties):
    """A (deliberately asymmetric) pre-computed matrix that is NOT the model's metric."""
    n = len(X)
    M = np.abs(X[:, None, :] - X[None, :, :]).max(axis=2) * 3.0
    if ties:
        M = M + np.tril(np.ones((n, n)), -1)
    else:
        M = M + 0.25 * rng.rand(n, n)
    np.fill_diagonal(M, 0.0)
    return M


def scenario(kind, metric, pre, seed, ties):
    """Returns (fitted model, predict-args)."""
    n = 26
    rng, X, Y = pool(seed, ties, n)
    perm = rng.permutation(n)
    m = make(kind, metric)

    if pre:
        if kind == "knn":
            # the k-NN classifier wants an n_train x n_train matrix: every sample lives in it
            M = matrix(rng, X, ties)
            m.pre_computed_distance = True
            m.pre_distances = M
            I_tr = perm
            I_va = perm[::3]
            I_te = perm[1::2]
            m.fit(X[I_tr], Y[I_tr], X[I_va], Y[I_va], I_train=I_tr, I_val=I_va)
            return m, (X[I_te], I_te)
        M = matrix(rng, X, ties)
        m.pre_computed_distance = True
        m.pre_distances = M
        I_tr, I_un, I_te = perm[:12], perm[12:18], perm[18:]
        if kind == "sup":
            m.fit(X[I_tr], Y[I_tr], I_tr)
        elif kind == "semi":
            m.fit(X[I_tr], Y[I_tr], X[I_un], I_train=I_tr, I_unlabeled=I_un)
        else:
            m.fit(X[I_tr], Y[I_tr], I_tr)
            m.propagate_labels()
        return m, (X[I_te], I_te)

    I_tr, I_un, I_te = perm[:12], perm[12:18], perm[18:]
    if kind == "sup":
        m.fit(X[I_tr], Y[I_tr])
    elif kind == "semi":
        m.fit(X[I_tr], Y[I_tr], X[I_un])
    elif kind == "knn":
        m.fit(X[I_tr], Y[I_tr], X[I_un], Y[I_un])
    else:
        m.fit(X[I_tr], Y[I_tr])
        m.propagate_labels()
    return m, (X[I_te],)


def predict(m, args):
    out = m.predict(*args)
    if isinstance(out, tuple):
        return tuple(list(map(int, o)) for o in out)
    return list(map(int, out))


def check_functions(case_no, metric, pre, seed, ties):
    """create_arcs / calculate_pdf against the inlined original code."""
    tag = "#%d functions/%s/pre=%s/seed=%d/ties=%s" % (case_no, metric, pre, seed, ties)
    n = 22
    rng, X, Y = pool(seed, ties, n)
    I = rng.permutation(n) if pre else None
    M = matrix(rng, X, ties) if pre else None
    fn = d.DISTANCES[metric]

    for k in (1, 2, 4):
        new, ref = KNNSubgraph(X, Y, I), KNNSubgraph(X, Y, I)
        r_new = new.create_arcs(k, fn, pre, M)
        r_ref = ref_create_arcs(ref, k, fn, pre, M)
        if canon(r_new) != canon(r_ref):
            fail("%s k=%d: create_arcs() returns something else" % (tag, k))
        diff = first_diff(canon(ref), canon(new), "subgraph")
        if diff:
            fail("%s k=%d: create_arcs(): %s" % (tag, k, diff))
        for kk in range(1, k + 1):
            new.calculate_pdf(kk, fn, pre, M)
            ref_calculate_pdf(ref, kk, fn, pre, M)
            diff = first_diff(canon(ref), canon(new), "subgraph")
            if diff:
                fail("%s k=%d/%d: calculate_pdf(): %s" % (tag, k, kk, diff))


def check_case(case_no, kind, metric, pre, seed, ties):
    tag = "#%d %s/%s/pre=%s/seed=%d/ties=%s" % (case_no, kind, metric, pre, seed, ties)
    m, args = scenario(kind, metric, pre, seed, ties)

    # predict once before saving (leaves relevance marks in the forest)
    p0 = predict(m, args)
    snap0 = canon(m)

    f = os.path.join(TMP, "model_%d.pkl" % case_no)
    m.save(f)
    diff = first_diff(snap0, canon(m))
    if diff:
        fail("%s: save() altered the original: %s" % (tag, diff))

    for what, r in (
        ("default-constructed", make(kind)),
        ("constructed alike", make(kind, metric)),
    ):
        r.load(f)
        diff = first_diff(snap0, canon(r))
        if diff:
            fail("%s: loaded (%s) != original: %s" % (tag, what, diff))
        p1 = predict(r, args)
        if p1 != p0:
            fail(
                "%s: predictions of loaded (%s) differ: %s vs %s" % (tag, what, p1, p0)
            )

    # a second generation must still be the same model
    r.save(f)
    r2 = make(kind)
    r2.load(f)
    diff = first_diff(canon(r), canon(r2))
    if diff:
        fail("%s: second generation differs: %s" % (tag, diff))

    if predict(m, args) != p0:
        fail("%s: original changed its mind after save()" % tag)


def specific_history():
    """The input that exposes the slip: raw (un-normalised) features under the default
    metric, whose arc weights - hence path costs - go far beyond MAX_ARC_WEIGHT."""
    rng = np.random.RandomState(11)
    n = 60
    # two interleaved classes measured in "centimetres"
    X = np.vstack(
        [rng.normal(0.0, 1.0, size=(n // 2, 2)), rng.normal(1.5, 1.0, size=(n // 2, 2))]
    ) * 30.0
    Y = np.array([1] * (n // 2) + [2] * (n // 2))
    perm = rng.permutation(n)
    I_tr, I_te = perm[:30], perm[30:]

    m = SupervisedOPF()
    m.fit(X[I_tr], Y[I_tr])
    before = predict(m, (X[I_te],))
    costs = [float(nd.cost) for nd in m.subgraph.nodes]

    f = os.path.join(TMP, "specific.pkl")
    m.save(f)
    r = SupervisedOPF()
    r.load(f)
    after = predict(r, (X[I_te],))
    loaded_costs = [float(nd.cost) for nd in r.subgraph.nodes]

    print(
        "specific: largest path cost %.1f (MAX_ARC_WEIGHT = %d)"
        % (max(costs), c.MAX_ARC_WEIGHT)
    )
    if loaded_costs != costs:
        bad = [i for i in range(len(costs)) if costs[i] != loaded_costs[i]]
        fail(
            "specific: %d path costs changed on reload, e.g. node %d: %r -> %r"
            % (len(bad), bad[0], costs[bad[0]], loaded_costs[bad[0]])
        )
    if after != before:
        n_diff = sum(1 for x, y in zip(after, before) if x != y)
        fail("specific: %d of %d predictions differ after reload" % (n_diff, len(after)))

    # the same for the semi-supervised flavour and for the copy kept by learn()
    s = SemiSupervisedOPF(distance="squared_euclidean")
    s.fit(X[I_tr[:20]], Y[I_tr[:20]], X[I_tr[20:]])
    before = predict(s, (X[I_te],))
    s.save(f)
    r = SemiSupervisedOPF()
    r.load(f)
    if predict(r, (X[I_te],)) != before:
        fail("specific: semi-supervised predictions differ after reload")


def main():
    case_no = 0
    for seed in range(8):
        for pre in (False, True):
            metric = METRICS[(seed * 3 + case_no) % len(METRICS)]
            ties = (seed + case_no) % 2 == 0
            if ties and metric == "kullback_leibler":
                metric = "manhattan"
            check_functions(case_no, metric, pre, seed, ties)
            case_no += 1

    for seed in range(6):
        for kind in KINDS:
            for pre in (False, True):
                metric = METRICS[(seed * 3 + case_no) % len(METRICS)]
                ties = (seed + case_no) % 2 == 0
                if ties and metric == "kullback_leibler":
                    metric = "manhattan"
                check_case(case_no, kind, metric, pre, seed, ties)
                case_no += 1

    specific_history()

    print("cases: %d, failures: %d" % (case_no, len(FAILURES)))
    return 1 if FAILURES else 0


if __name__ == "__main__":
    sys.exit(main())
