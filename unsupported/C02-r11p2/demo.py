"""Demo for pair p2 (property C02 - prototypes are the class-boundary endpoints of an MST).

Run as: cd /tmp/wt/C02 && PYTHONPATH=/tmp/wt/C02 /venv/bin/python demo.py

Part 1 compares SupervisedOPF / SemiSupervisedOPF against a reference that does
not use the library's data classes at all: a verbatim copy of the original Heap
and of the original `_find_prototypes` / `fit` / `predict` loops working on
plain lists. It also checks that every way of duplicating a fitted classifier
(copy.deepcopy, pickle, and the new copy() helpers when they exist) yields the
same node fields as the original generic deep copy did.

Part 2 is the call history that exposes the slip: `learn()`, which keeps the
best classifier through `copy.deepcopy(self)` and restores it at the end.
"""

import copy
import logging as _pylog
import pickle
import sys
import warnings

import numpy as np

_pylog.disable(_pylog.CRITICAL)
warnings.simplefilter("ignore")  # 0/0 for the unused label 0 in opf_accuracy

import opfython.math.general as g  # noqa: E402
import opfython.math.random as r  # noqa: E402
import opfython.utils.constants as c  # noqa: E402
from opfython.models.semi_supervised import SemiSupervisedOPF  # noqa: E402
from opfython.models.supervised import SupervisedOPF  # noqa: E402


# --------------------------------------------------------------------------- #
# Reference heap: verbatim copy of the original opfython.core.heap.Heap
# (property boiler-plate removed, algorithms untouched)
# --------------------------------------------------------------------------- #
class RefHeap:
    def __init__(self, size=1, policy="min"):
        self.size = size
        self.policy = policy

        self.cost = [c.FLOAT_MAX for i in range(size)]
        self.color = [c.WHITE for i in range(size)]
        self.p = [-1 for i in range(size)]
        self.pos = [-1 for i in range(size)]

        self.last = -1

    def is_full(self):
        if self.last == (self.size - 1):
            return True

        return False

    def is_empty(self):
        if self.last == -1:
            return True

        return False

    def dad(self, i):
        return int(((i - 1) / 2))

    def left_son(self, i):
        return int((2 * i + 1))

    def right_son(self, i):
        return int((2 * i + 2))

    def go_up(self, i):
        j = self.dad(i)

        if self.policy == "min":
            while i > 0 and self.cost[self.p[j]] > self.cost[self.p[i]]:
                self.p[j], self.p[i] = self.p[i], self.p[j]

                self.pos[self.p[i]] = i
                self.pos[self.p[j]] = j

                i = j
                j = self.dad(i)

        else:
            while i > 0 and self.cost[self.p[j]] < self.cost[self.p[i]]:
                self.p[j], self.p[i] = self.p[i], self.p[j]

                self.pos[self.p[i]] = i
                self.pos[self.p[j]] = j

                i = j
                j = self.dad(i)

    def go_down(self, i):
        left = self.left_son(i)
        right = self.right_son(i)

        j = i

        if self.policy == "min":
            if left <= self.last and self.cost[self.p[left]] < self.cost[self.p[i]]:
                j = left

            if right <= self.last and self.cost[self.p[right]] < self.cost[self.p[j]]:
                j = right

        else:
            if left <= self.last and self.cost[self.p[left]] > self.cost[self.p[i]]:
                j = left

            if right <= self.last and self.cost[self.p[right]] > self.cost[self.p[j]]:
                j = right

        if j != i:
            self.p[j], self.p[i] = self.p[i], self.p[j]

            self.pos[self.p[i]] = i
            self.pos[self.p[j]] = j

            self.go_down(j)

    def insert(self, p):
        if not self.is_full():
            self.last += 1

            self.p[self.last] = p
            self.color[p] = c.GRAY
            self.pos[p] = self.last

            self.go_up(self.last)

            return True

        return False

    def remove(self):
        if not self.is_empty():
            p = self.p[0]

            self.pos[p] = -1
            self.color[p] = c.BLACK

            self.p[0] = self.p[self.last]

            self.pos[self.p[0]] = 0
            self.p[self.last] = -1

            self.last -= 1

            self.go_down(0)

            return p

        return False

    def update(self, p, cost):
        self.cost[p] = cost

        if self.color[p] == c.BLACK:
            pass

        if self.color[p] == c.WHITE:
            self.insert(p)
        else:
            self.go_up(self.pos[p])


# --------------------------------------------------------------------------- #
# Reference training on plain lists (same statements, same order as the original)
# --------------------------------------------------------------------------- #
class RefForest:
    def __init__(self, X, Y, I, weight, X_unlabeled=None, I_unlabeled=None):
        self.weight = weight  # weight(idx_a, feat_a, idx_b, feat_b)
        self.feat = [np.asarray(x) for x in X]
        self.idx = [int(I[i]) if I is not None else i for i in range(len(X))]
        self.label = [int(y) for y in Y]
        n = len(self.feat)
        self.status = [c.STANDARD] * n
        self.cost = [0.0] * n
        self.pred = [c.NIL] * n
        self.predicted_label = [0] * n
        self.relevant = [c.IRRELEVANT] * n
        self.idx_nodes = []

        self._find_prototypes()

        if X_unlabeled is not None:
            for i, feature in enumerate(X_unlabeled):
                self.idx.append(int(I_unlabeled[i]) if I_unlabeled is not None else n + i)
                self.feat.append(np.asarray(feature))
                self.label.append(0)
                self.status.append(c.STANDARD)
                self.cost.append(0.0)
                self.pred.append(c.NIL)
                self.predicted_label.append(0)
                self.relevant.append(c.IRRELEVANT)

        self._compete(relabel=X_unlabeled is not None)

    def w(self, p, q):
        return self.weight(self.idx[p], self.feat[p], self.idx[q], self.feat[q])

    def _find_prototypes(self):
        n = len(self.feat)
        h = RefHeap(n)

        self.pred[0] = c.NIL

        h.insert(0)

        while not h.is_empty():
            p = h.remove()

            self.cost[p] = h.cost[p]

            pred = self.pred[p]
            if pred != c.NIL:
                if self.label[p] != self.label[pred]:
                    if self.status[p] != c.PROTOTYPE:
                        self.status[p] = c.PROTOTYPE

                    if self.status[pred] != c.PROTOTYPE:
                        self.status[pred] = c.PROTOTYPE

            for q in range(n):
                if h.color[q] != c.BLACK:
                    if p != q:
                        weight = self.w(p, q)

                        if weight < h.cost[q]:
                            self.pred[q] = p

                            h.update(q, weight)

    def _compete(self, relabel):
        n = len(self.feat)
        h = RefHeap(size=n)

        for i in range(n):
            if self.status[i] == c.PROTOTYPE:
                self.pred[i] = c.NIL
                self.predicted_label[i] = self.label[i]

                h.cost[i] = 0
                h.insert(i)
            else:
                h.cost[i] = c.FLOAT_MAX

        while not h.is_empty():
            p = h.remove()

            self.idx_nodes.append(p)
            self.cost[p] = h.cost[p]

            for q in range(n):
                if p != q:
                    if h.cost[p] < h.cost[q]:
                        weight = self.w(p, q)

                        current_cost = np.maximum(h.cost[p], weight)

                        if current_cost < h.cost[q]:
                            self.pred[q] = p
                            self.predicted_label[q] = self.predicted_label[p]

                            if relabel:
                                self.label[q] = self.predicted_label[q]

                            h.update(q, current_cost)

    def mark(self, i):
        while self.pred[i] != c.NIL:
            self.relevant[i] = c.RELEVANT
            i = self.pred[i]

        self.relevant[i] = c.RELEVANT

    def predict(self, X_val, I_val=None):
        preds = []
        n = len(self.feat)
        for i, x in enumerate(X_val):
            x = np.asarray(x)
            xi = int(I_val[i]) if I_val is not None else i
            j = 0

            k = self.idx_nodes[j]
            conqueror = k

            weight = self.weight(self.idx[k], self.feat[k], xi, x)

            min_cost = np.maximum(self.cost[k], weight)

            current_label = self.predicted_label[k]

            while j < (n - 1) and min_cost > self.cost[self.idx_nodes[j + 1]]:
                l = self.idx_nodes[j + 1]

                weight = self.weight(self.idx[l], self.feat[l], xi, x)

                temp_min_cost = np.maximum(self.cost[l], weight)
                if temp_min_cost < min_cost:
                    min_cost = temp_min_cost
                    conqueror = l
                    current_label = self.predicted_label[l]

                j += 1
                k = l

            preds.append(current_label)

            if conqueror > -1:
                self.mark(conqueror)

        return preds

    def snapshot(self):
        return {
            "idx": list(self.idx),
            "label": list(self.label),
            "status": list(self.status),
            "cost": [repr(float(x)) for x in self.cost],
            "pred": list(self.pred),
            "predicted_label": list(self.predicted_label),
            "relevant": list(self.relevant),
            "idx_nodes": list(self.idx_nodes),
        }


# --------------------------------------------------------------------------- #
# Helpers
# --------------------------------------------------------------------------- #
FAILURES = []

NODE_FIELDS = (
    "idx",
    "label",
    "predicted_label",
    "cluster_label",
    "cost",
    "density",
    "radius",
    "n_plateaus",
    "adjacency",
    "root",
    "status",
    "pred",
    "relevant",
)


def fail(msg):
    FAILURES.append(msg)
    print("MISMATCH:", msg)


def snapshot(sg):
    return {
        "idx": [n.idx for n in sg.nodes],
        "label": [n.label for n in sg.nodes],
        "status": [n.status for n in sg.nodes],
        "cost": [repr(float(n.cost)) for n in sg.nodes],
        "pred": [n.pred for n in sg.nodes],
        "predicted_label": [n.predicted_label for n in sg.nodes],
        "relevant": [n.relevant for n in sg.nodes],
        "idx_nodes": list(sg.idx_nodes),
    }


def compare(tag, a, b):
    for key in a:
        if a[key] != b[key]:
            fail("%s: field `%s` differs from the original behaviour" % (tag, key))
            return False
    return True


def full_dump(sg):
    rows = []
    for n in sg.nodes:
        row = [(f, repr(getattr(n, f))) for f in NODE_FIELDS]
        row.append(("features", n.features.tobytes()))
        rows.append(row)
    return rows, list(sg.idx_nodes), sg.trained, sg.n_features, sg.n_nodes


def check_duplicates(tag, opf):
    """Every way of duplicating a fitted model must keep every node field."""
    want = full_dump(opf.subgraph)
    dups = {
        "copy.deepcopy(model)": copy.deepcopy(opf).subgraph,
        "copy.deepcopy(subgraph)": copy.deepcopy(opf.subgraph),
        "pickle round trip": pickle.loads(pickle.dumps(opf)).subgraph,
    }
    if hasattr(opf.subgraph, "copy"):
        dups["subgraph.copy()"] = opf.subgraph.copy()
    for name, sg in dups.items():
        got = full_dump(sg)
        if got != want:
            bad = sorted(
                {
                    fa[0]
                    for ra, rb in zip(got[0], want[0])
                    for fa, fb in zip(ra, rb)
                    if fa != fb
                }
            )
            fail("%s: %s loses node fields %s" % (tag, name, bad))
        if any(a is b for a, b in zip(sg.nodes, opf.subgraph.nodes)):
            fail("%s: %s shares node objects" % (tag, name))
        if any(
            np.shares_memory(a.features, b.features)
            for a, b in zip(sg.nodes, opf.subgraph.nodes)
        ):
            fail("%s: %s shares feature buffers" % (tag, name))


def sym_table(rng, m, kind):
    if kind == "distinct":
        t = (rng.permutation(m * m).astype(float) + 1.0).reshape(m, m)
    elif kind == "ties":
        t = rng.integers(1, 4, size=(m, m)).astype(float)
    else:
        t = np.ones((m, m))
    t = np.triu(t, 1)
    return t + t.T


def make_data(rng, n, n_classes, kind):
    if kind == "grid":
        X = rng.integers(0, 4, size=(n, 2)).astype(float) + 1.0
    elif kind == "dup":
        base = rng.random((max(2, n // 3), 3)) + 0.1
        X = base[rng.integers(0, len(base), size=n)]
    else:
        X = rng.random((n, 3)) + 0.1
    Y = rng.integers(1, n_classes + 1, size=n)
    Y[:n_classes] = np.arange(1, n_classes + 1)
    return X, Y


def fn_weight(opf):
    return lambda ia, fa, ib, fb: opf.distance_fn(fa, fb)


def table_weight(table):
    return lambda ia, fa, ib, fb: table[ia][ib]


# --------------------------------------------------------------------------- #
# Part 1
# --------------------------------------------------------------------------- #
def part1():
    n_cases = 0
    metrics = ["log_squared_euclidean", "euclidean", "manhattan"]
    kinds = ["random", "grid", "dup"]

    for seed in range(21):
        rng = np.random.default_rng(1000 + seed)
        metric, kind = metrics[seed % 3], kinds[(seed // 3) % 3]
        n = int(rng.integers(6, 22))
        X, Y = make_data(rng, n, int(rng.integers(2, 4)), kind)
        Xv, _ = make_data(rng, 7, 2, kind)
        tag = "fn/%s/%s/seed%d" % (metric, kind, seed)

        opf = SupervisedOPF(distance=metric)
        opf.fit(X, Y)
        ref = RefForest(X, Y, None, fn_weight(opf))
        compare(tag + " fit", snapshot(opf.subgraph), ref.snapshot())
        check_duplicates(tag + " fitted", opf)
        if opf.predict(Xv) != ref.predict(Xv):
            fail(tag + " predictions differ")
        compare(tag + " after predict", snapshot(opf.subgraph), ref.snapshot())
        check_duplicates(tag + " after predict", opf)
        n_cases += 1

    for seed in range(15):
        rng = np.random.default_rng(2000 + seed)
        kind = ["distinct", "ties", "ones"][seed % 3]
        n = int(rng.integers(5, 16))
        X, Y = make_data(rng, n, 2 + seed % 2, "random")
        Xv, _ = make_data(rng, 6, 2, "random")
        table = sym_table(rng, n + 12, kind)
        if seed % 2:
            ids = rng.permutation(n + 12)
            I, Iv = ids[:n], ids[n : n + 6]
        else:
            I, Iv = None, np.arange(n, n + 6)
        tag = "table/%s/seed%d" % (kind, seed)

        opf = SupervisedOPF()
        opf.pre_computed_distance = True
        opf.pre_distances = table
        opf.fit(X, Y, I)
        ref = RefForest(X, Y, I, table_weight(table))
        compare(tag + " fit", snapshot(opf.subgraph), ref.snapshot())
        if opf.predict(Xv, Iv) != ref.predict(Xv, Iv):
            fail(tag + " predictions differ")
        compare(tag + " after predict", snapshot(opf.subgraph), ref.snapshot())
        check_duplicates(tag, opf)
        n_cases += 1

    for seed in range(8):
        rng = np.random.default_rng(3000 + seed)
        n, u = int(rng.integers(5, 14)), int(rng.integers(3, 9))
        X, Y = make_data(rng, n, 2 + seed % 2, kinds[seed % 3])
        Xu, _ = make_data(rng, u, 2, kinds[seed % 3])
        opf = SemiSupervisedOPF()
        opf.fit(X, Y, Xu)
        ref = RefForest(X, Y, None, fn_weight(opf), X_unlabeled=Xu)
        compare("semi/seed%d fit" % seed, snapshot(opf.subgraph), ref.snapshot())
        check_duplicates("semi/seed%d" % seed, opf)
        n_cases += 1

    print("part 1: %d seeded cases compared" % n_cases)


# --------------------------------------------------------------------------- #
# Part 2: learn() keeps the best classifier through copy.deepcopy(self)
# --------------------------------------------------------------------------- #
class RefLearnOPF(SupervisedOPF):
    """Original `learn`, verbatim, except that the best classifier is duplicated by a
    pickle round trip - which is what the generic deep copy of the original amounts to
    and which no `__deepcopy__` / `copy()` hook can influence."""

    def learn(self, X_train, Y_train, X_val, Y_val, n_iterations=10):
        max_acc = -1
        previous_acc = 0

        t = 0
        while True:
            self.fit(X_train, Y_train)

            preds = self.predict(X_val)

            acc = g.opf_accuracy(Y_val, preds)
            if acc > max_acc:
                max_acc = acc
                best_opf = pickle.loads(pickle.dumps(self))

            errors = np.argwhere(Y_val != preds).flatten()

            non_prototypes = 0
            for n in self.subgraph.nodes:
                if n.status != c.PROTOTYPE:
                    non_prototypes += 1

            for err in errors:
                ctr = non_prototypes

                while ctr > 0:
                    j = int(r.generate_uniform_random_number(0, len(X_train))[0])

                    if self.subgraph.nodes[j].status != c.PROTOTYPE:
                        X_train[j, :], X_val[err, :] = (
                            X_val[err, :].copy(),
                            X_train[j, :].copy(),
                        )
                        Y_train[j], Y_val[err] = Y_val[err], Y_train[j]

                        non_prototypes -= 1
                        ctr = 0

                    else:
                        ctr -= 1

            delta = np.fabs(acc - previous_acc)
            previous_acc = acc

            t += 1

            if delta < 0.0001 or t == n_iterations:
                self.__dict__.update(best_opf.__dict__)

                break


def part2():
    for seed in range(6):
        rng = np.random.default_rng(5000 + seed)
        kind = ["random", "grid"][seed % 2]
        Xt, Yt = make_data(rng, 16, 2 + seed % 2, kind)
        Xv, Yv = make_data(rng, 12, 2 + seed % 2, kind)
        tag = "learn/%s/seed%d" % (kind, seed)

        lib, ref = SupervisedOPF(distance="euclidean"), RefLearnOPF(distance="euclidean")
        np.random.seed(seed)
        lib.learn(Xt.copy(), Yt.copy(), Xv.copy(), Yv.copy(), n_iterations=4)
        np.random.seed(seed)
        ref.learn(Xt.copy(), Yt.copy(), Xv.copy(), Yv.copy(), n_iterations=4)

        if full_dump(lib.subgraph) != full_dump(ref.subgraph):
            got, want = full_dump(lib.subgraph), full_dump(ref.subgraph)
            bad = sorted(
                {
                    fa[0]
                    for ra, rb in zip(got[0], want[0])
                    for fa, fb in zip(ra, rb)
                    if fa != fb
                }
            )
            fail("%s: the learned classifier differs in node fields %s" % (tag, bad))

        # The property itself on the classifier `learn` hands back: re-derive the
        # prototypes from the features / labels stored in its own nodes.
        sg = lib.subgraph
        feats = [n.features for n in sg.nodes]
        labels = [n.label for n in sg.nodes]
        again = RefForest(feats, labels, None, fn_weight(lib))
        got = [n.status for n in sg.nodes]
        if got != again.status:
            fail(
                "%s: prototypes after learn() %s are not the MST boundary endpoints %s"
                % (
                    tag,
                    [i for i, s in enumerate(got) if s == c.PROTOTYPE],
                    [i for i, s in enumerate(again.status) if s == c.PROTOTYPE],
                )
            )
        for lab in set(labels):
            if not any(
                n.status == c.PROTOTYPE and n.label == lab for n in sg.nodes
            ):
                fail("%s: class %d has no prototype after learn()" % (tag, lab))
        for i, n in enumerate(sg.nodes):
            if again.status[i] == c.PROTOTYPE and (
                n.cost != 0 or n.predicted_label != n.label
            ):
                fail("%s: prototype %d lost cost 0 / its label" % (tag, i))

    print("part 2: learn() history checked")


if __name__ == "__main__":
    part1()
    part2()
    if FAILURES:
        print("FAILED: %d mismatches" % len(FAILURES))
        sys.exit(1)
    print("OK")
    sys.exit(0)
