"""Demo for pair p2 of property C16 (KNN-supervised training keeps the smallest best k).

Exits 0 when `KNNSupervisedOPF` behaves exactly like the original implementation
(inlined verbatim below as `RefKNNSupervisedOPF`) and non-zero otherwise.
"""

import logging
import sys
import time
from typing import List, Optional

import numpy as np

import opfython.math.general as g
import opfython.utils.constants as c
import opfython.utils.exception as e
from opfython.core import OPF, Heap
from opfython.models.knn_supervised import KNNSupervisedOPF
from opfython.subgraphs import KNNSubgraph

logging.disable(logging.CRITICAL)
logger = logging.getLogger("demo.reference")


class RefKNNSupervisedOPF(KNNSupervisedOPF):
    """Verbatim copy of the original `_clustering`, `_learn`, `fit` and `predict`."""

    def _clustering(self, force_prototype: bool = False) -> None:
        """Clusters the subgraph.

        Args:
            force_prototype: Whether clustering should for each class to have at least one prototype.

        """

        for i in range(self.subgraph.n_nodes):
            for j in self.subgraph.nodes[i].adjacency:
                j = int(j)

                if self.subgraph.nodes[i].density == self.subgraph.nodes[j].density:
                    insert = True

                    for l in self.subgraph.nodes[j].adjacency:
                        l = int(l)

                        if i == l:
                            insert = False

                    if insert:
                        self.subgraph.nodes[j].adjacency.insert(0, i)

        h = Heap(size=self.subgraph.n_nodes, policy="max")

        for i in range(self.subgraph.n_nodes):
            h.cost[i] = self.subgraph.nodes[i].cost

            self.subgraph.nodes[i].pred = c.NIL
            self.subgraph.nodes[i].root = i

            h.insert(i)

        while not h.is_empty():
            p = h.remove()

            self.subgraph.idx_nodes.append(p)

            if self.subgraph.nodes[p].pred == c.NIL:
                h.cost[p] = self.subgraph.nodes[p].density
                self.subgraph.nodes[p].predicted_label = self.subgraph.nodes[p].label

            self.subgraph.nodes[p].cost = h.cost[p]

            for q in self.subgraph.nodes[p].adjacency:
                q = int(q)

                if h.color[q] != c.BLACK:
                    current_cost = np.minimum(h.cost[p], self.subgraph.nodes[q].density)

                    # If prototypes should be forced to belong to a class
                    if force_prototype:
                        if self.subgraph.nodes[p].label != self.subgraph.nodes[q].label:
                            current_cost = -c.FLOAT_MAX

                    if current_cost > h.cost[q]:
                        self.subgraph.nodes[q].pred = p
                        self.subgraph.nodes[q].root = self.subgraph.nodes[p].root
                        self.subgraph.nodes[q].predicted_label = self.subgraph.nodes[
                            p
                        ].predicted_label

                        h.update(q, current_cost)

    def _learn(
        self,
        X_train: np.array,
        Y_train: np.array,
        I_train: np.array,
        X_val: np.array,
        Y_val: np.array,
        I_val: np.array,
    ) -> None:
        """Learns the best `k` value over the validation set.

        Args:
            X_train: Array of training features.
            Y_train: Array of training labels.
            I_train: Array of training indexes.
            X_val: Array of validation features.
            Y_val: Array of validation labels.
            I_val: Array of validation indexes.

        """

        logger.info("Learning best `k` value ...")

        self.subgraph = KNNSubgraph(X_train, Y_train, I_train)

        if self.pre_computed_distance:
            if (
                self.pre_distances.shape[0] != self.subgraph.n_nodes
                or self.pre_distances.shape[1] != self.subgraph.n_nodes
            ):
                raise e.BuildError(
                    "Pre-computed distance matrix should have the size of `n_nodes x n_nodes`"
                )

        max_acc = -1.0

        for k in range(1, self.max_k + 1):
            self.subgraph.best_k = k

            self.subgraph.create_arcs(
                k, self.distance_fn, self.pre_computed_distance, self.pre_distances
            )
            self.subgraph.calculate_pdf(
                k, self.distance_fn, self.pre_computed_distance, self.pre_distances
            )

            self._clustering()

            preds = self.predict(X_val, I_val)

            acc = g.opf_accuracy(Y_val, preds)
            if acc > max_acc:
                max_acc = acc
                best_k = k

            logger.info("Accuracy over k = %d: %s", k, acc)

            self.subgraph.destroy_arcs()

        self.subgraph.best_k = best_k

    def fit(
        self,
        X_train: np.array,
        Y_train: np.array,
        X_val: np.array,
        Y_val: np.array,
        I_train: Optional[np.array] = None,
        I_val: Optional[np.array] = None,
    ) -> None:
        """Fits data in the classifier.

        Args:
            X_train: Array of training features.
            Y_train: Array of training labels.
            X_val: Array of validation features.
            Y_val: Array of validation labels.
            I_train: Array of training indexes.
            I_val: Array of validation indexes.

        """

        logger.info("Fitting classifier ...")

        start = time.time()

        # Performing the learning process in order to find the best `k` value
        self._learn(X_train, Y_train, I_train, X_val, Y_val, I_val)

        self.subgraph.create_arcs(
            self.subgraph.best_k,
            self.distance_fn,
            self.pre_computed_distance,
            self.pre_distances,
        )
        self.subgraph.calculate_pdf(
            self.subgraph.best_k,
            self.distance_fn,
            self.pre_computed_distance,
            self.pre_distances,
        )

        self._clustering(force_prototype=True)

        self.subgraph.destroy_arcs()

        self.subgraph.trained = True

        end = time.time()

        train_time = end - start

        logger.info("Classifier has been fitted with k = %d.", self.subgraph.best_k)
        logger.info("Training time: %s seconds.", train_time)

    def predict(self, X_test: np.array, I_test: Optional[np.array] = None) -> List[int]:
        """Predicts new data using the pre-trained classifier.

        Args:
            X_test: Array of features.
            I_test: Array of indexes.

        Returns:
            (List[int]): A list of predictions for each record of the data.

        """

        logger.info("Predicting data ...")

        start = time.time()

        pred_subgraph = KNNSubgraph(X_test, I=I_test)

        best_k = self.subgraph.best_k

        distances = np.zeros(best_k + 1)
        neighbours_idx = np.zeros(best_k + 1)

        for i in range(pred_subgraph.n_nodes):
            cost = c.FLOAT_MAX * -1

            distances.fill(c.FLOAT_MAX)

            for j in range(self.subgraph.n_nodes):
                if self.pre_computed_distance:
                    distances[best_k] = self.pre_distances[
                        pred_subgraph.nodes[i].idx
                    ][self.subgraph.nodes[j].idx]
                else:
                    distances[best_k] = self.distance_fn(
                        pred_subgraph.nodes[i].features,
                        self.subgraph.nodes[j].features,
                    )

                neighbours_idx[best_k] = j
                cur_k = best_k

                # While current `k` is bigger than 0 and the `k` distance is smaller than `k-1` distance
                while cur_k > 0 and distances[cur_k] < distances[cur_k - 1]:
                    distances[cur_k], distances[cur_k - 1] = (
                        distances[cur_k - 1],
                        distances[cur_k],
                    )

                    neighbours_idx[cur_k], neighbours_idx[cur_k - 1] = (
                        neighbours_idx[cur_k - 1],
                        neighbours_idx[cur_k],
                    )

                    cur_k -= 1

            density = 0.0
            for k in range(best_k):
                density += np.exp(-distances[k] / self.subgraph.constant)
            density /= best_k

            density = (
                (c.MAX_DENSITY - 1)
                * (density - self.subgraph.min_density)
                / (self.subgraph.max_density - self.subgraph.min_density + c.EPSILON)
            ) + 1

            for k in range(best_k):
                if distances[k] != c.FLOAT_MAX:
                    neighbour = int(neighbours_idx[k])

                    temp_cost = np.minimum(self.subgraph.nodes[neighbour].cost, density)
                    if temp_cost > cost:
                        cost = temp_cost

                        pred_subgraph.nodes[i].predicted_label = self.subgraph.nodes[
                            neighbour
                        ].predicted_label

        preds = [pred.predicted_label for pred in pred_subgraph.nodes]

        end = time.time()

        predict_time = end - start

        logger.info("Data has been predicted.")
        logger.info("Prediction time: %s seconds.", predict_time)

        return preds


# --------------------------------------------------------------------------------------
# Harness
# --------------------------------------------------------------------------------------

ACCS = []
_orig_accuracy = g.opf_accuracy


def _recording_accuracy(labels, preds):
    acc = _orig_accuracy(labels, preds)
    ACCS.append(float(acc))
    return acc


g.opf_accuracy = _recording_accuracy


def snapshot(opf):
    sg = opf.subgraph
    return (
        sg.best_k,
        repr(float(sg.constant)),
        repr(float(sg.density)),
        repr(float(sg.min_density)),
        repr(float(sg.max_density)),
        tuple(sg.idx_nodes),
        tuple(
            (
                n.idx,
                n.label,
                n.predicted_label,
                n.pred,
                n.root,
                repr(float(n.cost)),
                repr(float(n.density)),
                repr(float(n.radius)),
                n.n_plateaus,
                tuple(int(a) for a in n.adjacency),
            )
            for n in sg.nodes
        ),
    )


def run(cls, case):
    ACCS.clear()
    opf = cls(max_k=case["max_k"], distance=case["distance"])
    if case["pre"] is not None:
        opf.pre_computed_distance = True
        opf.pre_distances = case["pre"].copy()
    out = []
    for _ in range(case["repeat"]):
        opf.fit(
            case["X_train"].copy(),
            case["Y_train"].copy(),
            case["X_val"].copy(),
            case["Y_val"].copy(),
            None if case["I_train"] is None else case["I_train"].copy(),
            None if case["I_val"] is None else case["I_val"].copy(),
        )
        accs = list(ACCS)
        ACCS.clear()
        preds = opf.predict(case["X_test"].copy(), case["I_test"])
        out.append((accs, snapshot(opf), [int(p) for p in preds]))
    return out


METRICS = [
    "log_squared_euclidean",
    "euclidean",
    "manhattan",
    "squared_euclidean",
    "chi_squared",
    "canberra",
]


def make_case(seed):
    rng = np.random.RandomState(seed)
    n_class = int(rng.randint(2, 4))
    n_train = int(rng.randint(8, 22))
    n_val = int(rng.randint(n_class, 9))
    n_test = 6
    tie_heavy = seed % 2 == 0
    def feats(n):
        if tie_heavy:
            return rng.randint(0, 4, size=(n, 2)).astype(float)
        return rng.rand(n, 3) * 4
    X_train = feats(n_train)
    Y_train = rng.randint(0, n_class, size=n_train)
    Y_train[:n_class] = np.arange(n_class)
    X_val = feats(n_val)
    Y_val = rng.randint(0, n_class, size=n_val)
    Y_val[:n_class] = np.arange(n_class)
    X_test = feats(n_test)
    case = dict(
        X_train=X_train, Y_train=Y_train, X_val=X_val, Y_val=Y_val, X_test=X_test,
        I_train=None, I_val=None, I_test=None, pre=None,
        max_k=int(rng.randint(1, min(7, n_train - 1) + 1)),
        distance=METRICS[seed % len(METRICS)],
        repeat=2 if seed % 5 == 0 else 1,
    )
    if seed % 3 == 0:
        # Pre-computed (asymmetric, tie-heavy) distances with non-identity indexes
        pre = rng.randint(1, 6, size=(n_train, n_train)).astype(float)
        np.fill_diagonal(pre, 0.0)
        case["pre"] = pre
        case["I_train"] = rng.permutation(n_train)
        case["I_val"] = rng.randint(0, n_train, size=n_val)
        case["I_test"] = rng.randint(0, n_train, size=n_test)
    return case


def specific_case():
    """Accuracies are [5/6, 5/6, 1, 1, 1] for k = 1..5: the best is tied and k = 3 must be kept."""
    X_train = np.array(
        [[0.0], [1.0], [2.0], [3.0], [10.0], [11.0], [12.0], [13.0], [6.0], [7.0]]
    )
    Y_train = np.array([0, 0, 0, 0, 1, 1, 1, 1, 1, 0])
    X_val = np.array([[0.5], [2.5], [10.5], [12.5], [6.4], [6.6]])
    Y_val = np.array([0, 0, 1, 1, 0, 1])
    return dict(
        X_train=X_train, Y_train=Y_train, X_val=X_val, Y_val=Y_val,
        X_test=np.array([[5.0], [8.0], [6.5], [1.5], [11.5], [7.2]]),
        I_train=None, I_val=None, I_test=None, pre=None,
        max_k=5, distance="euclidean", repeat=1,
    )


def main():
    failures = 0
    n_ties = 0
    cases = [("seed %d" % s, make_case(s)) for s in range(40)]
    cases.append(("specific tie case", specific_case()))

    for name, case in cases:
        ref = run(RefKNNSupervisedOPF, case)
        new = run(KNNSupervisedOPF, case)

        for (accs, snap, _preds) in new:
            best = max(accs)
            expected_k = accs.index(best) + 1
            if accs.count(best) > 1:
                n_ties += 1
            if len(accs) != case["max_k"] or snap[0] != expected_k:
                failures += 1
                print(
                    "PROPERTY VIOLATED (%s): accuracies %s -> expected k = %d, got k = %d"
                    % (name, accs, expected_k, snap[0])
                )

        if ref != new:
            failures += 1
            print(
                "MISMATCH with the original (%s): original best_k = %s, current best_k = %s"
                % (name, [r[1][0] for r in ref], [r[1][0] for r in new])
            )

    print("%d cases, %d fits with tied best accuracy, %d failure(s)" % (len(cases), n_ties, failures))
    return 1 if failures else 0


if __name__ == "__main__":
    sys.exit(main())
