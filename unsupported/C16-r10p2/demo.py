"""C16 / p2 - KNNSupervisedOPF: training keeps the smallest k whose validation accuracy is highest.

Exit 0: every observable result equals the reference (verbatim copy of the original code) and the
        kept k is the smallest k with the highest accuracy returned by `opf_accuracy`.
Exit 1: otherwise.

Run as: cd /tmp/wt/C16 && PYTHONPATH=/tmp/wt/C16 /venv/bin/python demo.py
"""

import logging
import sys
import time
import warnings

import numpy as np

logging.disable(logging.CRITICAL)
warnings.filterwarnings("ignore")

import opfython.math.general as g  # noqa: E402
import opfython.utils.constants as c  # noqa: E402
import opfython.utils.exception as e  # noqa: E402
from opfython.core import Heap  # noqa: E402
from opfython.models.knn_supervised import KNNSupervisedOPF  # noqa: E402
from opfython.subgraphs import KNNSubgraph  # noqa: E402


class RefKNNSupervisedOPF(KNNSupervisedOPF):
    """Reference: verbatim copy of the ORIGINAL training / prediction code."""

    def _clustering(self, force_prototype=False):
        for i in range(self.subgraph.n_nodes):
            for j in self.subgraph.nodes[i].adjacency:
                j = int(j)

                if self.subgraph.nodes[i].density == self.subgraph.nodes[j].density:
                    insert = True

                    for l in self.subgraph.nodes[j].adjacency:
                        l = int(l)

                        if i == l:
                            insert = False

                    if insert:
                        self.subgraph.nodes[j].adjacency.insert(0, i)

        h = Heap(size=self.subgraph.n_nodes, policy="max")

        for i in range(self.subgraph.n_nodes):
            h.cost[i] = self.subgraph.nodes[i].cost

            self.subgraph.nodes[i].pred = c.NIL
            self.subgraph.nodes[i].root = i

            h.insert(i)

        while not h.is_empty():
            p = h.remove()

            self.subgraph.idx_nodes.append(p)

            if self.subgraph.nodes[p].pred == c.NIL:
                h.cost[p] = self.subgraph.nodes[p].density
                self.subgraph.nodes[p].predicted_label = self.subgraph.nodes[p].label

            self.subgraph.nodes[p].cost = h.cost[p]

            for q in self.subgraph.nodes[p].adjacency:
                q = int(q)

                if h.color[q] != c.BLACK:
                    current_cost = np.minimum(h.cost[p], self.subgraph.nodes[q].density)

                    if force_prototype:
                        if self.subgraph.nodes[p].label != self.subgraph.nodes[q].label:
                            current_cost = -c.FLOAT_MAX

                    if current_cost > h.cost[q]:
                        self.subgraph.nodes[q].pred = p
                        self.subgraph.nodes[q].root = self.subgraph.nodes[p].root
                        self.subgraph.nodes[q].predicted_label = self.subgraph.nodes[
                            p
                        ].predicted_label

                        h.update(q, current_cost)

    def _learn(self, X_train, Y_train, I_train, X_val, Y_val, I_val):
        self.subgraph = KNNSubgraph(X_train, Y_train, I_train)

        if self.pre_computed_distance:
            if (
                self.pre_distances.shape[0] != self.subgraph.n_nodes
                or self.pre_distances.shape[1] != self.subgraph.n_nodes
            ):
                raise e.BuildError(
                    "Pre-computed distance matrix should have the size of `n_nodes x n_nodes`"
                )

        max_acc = -1.0

        for k in range(1, self.max_k + 1):
            self.subgraph.best_k = k

            self.subgraph.create_arcs(
                k, self.distance_fn, self.pre_computed_distance, self.pre_distances
            )
            self.subgraph.calculate_pdf(
                k, self.distance_fn, self.pre_computed_distance, self.pre_distances
            )

            self._clustering()

            preds = self.predict(X_val, I_val)

            acc = g.opf_accuracy(Y_val, preds)
            if acc > max_acc:
                max_acc = acc
                best_k = k

            self.subgraph.destroy_arcs()

        self.subgraph.best_k = best_k

    def fit(self, X_train, Y_train, X_val, Y_val, I_train=None, I_val=None):
        self._learn(X_train, Y_train, I_train, X_val, Y_val, I_val)

        self.subgraph.create_arcs(
            self.subgraph.best_k,
            self.distance_fn,
            self.pre_computed_distance,
            self.pre_distances,
        )
        self.subgraph.calculate_pdf(
            self.subgraph.best_k,
            self.distance_fn,
            self.pre_computed_distance,
            self.pre_distances,
        )

        self._clustering(force_prototype=True)

        self.subgraph.destroy_arcs()

        self.subgraph.trained = True

    def predict(self, X_test, I_test=None):
        pred_subgraph = KNNSubgraph(X_test, I=I_test)

        best_k = self.subgraph.best_k

        distances = np.zeros(best_k + 1)
        neighbours_idx = np.zeros(best_k + 1)

        for i in range(pred_subgraph.n_nodes):
            cost = c.FLOAT_MAX * -1

            distances.fill(c.FLOAT_MAX)

            for j in range(self.subgraph.n_nodes):
                if self.pre_computed_distance:
                    distances[best_k] = self.pre_distances[
                        pred_subgraph.nodes[i].idx
                    ][self.subgraph.nodes[j].idx]
                else:
                    distances[best_k] = self.distance_fn(
                        pred_subgraph.nodes[i].features,
                        self.subgraph.nodes[j].features,
                    )

                neighbours_idx[best_k] = j
                cur_k = best_k

                while cur_k > 0 and distances[cur_k] < distances[cur_k - 1]:
                    distances[cur_k], distances[cur_k - 1] = (
                        distances[cur_k - 1],
                        distances[cur_k],
                    )

                    neighbours_idx[cur_k], neighbours_idx[cur_k - 1] = (
                        neighbours_idx[cur_k - 1],
                        neighbours_idx[cur_k],
                    )

                    cur_k -= 1

            density = 0.0
            for k in range(best_k):
                density += np.exp(-distances[k] / self.subgraph.constant)
            density /= best_k

            density = (
                (c.MAX_DENSITY - 1)
                * (density - self.subgraph.min_density)
                / (self.subgraph.max_density - self.subgraph.min_density + c.EPSILON)
            ) + 1

            for k in range(best_k):
                if distances[k] != c.FLOAT_MAX:
                    neighbour = int(neighbours_idx[k])

                    temp_cost = np.minimum(self.subgraph.nodes[neighbour].cost, density)
                    if temp_cost > cost:
                        cost = temp_cost

                        pred_subgraph.nodes[i].predicted_label = self.subgraph.nodes[
                            neighbour
                        ].predicted_label

        return [pred.predicted_label for pred in pred_subgraph.nodes]


METRICS = ["log_squared_euclidean", "euclidean", "manhattan", "squared_euclidean", "chebyshev"]


def make_data(seed):
    """Seeded train / validation split.

    Seeds below 1000: small integer grid, balanced validation classes - tie-heavy: many candidates
    have the same number of validation errors. Seeds from 1000 on: gaussian blobs, unbalanced
    classes, another metric and (every third one) pre-computed distances with permuted indexes.
    """

    r = np.random.RandomState(seed)
    if seed < 1000:
        n_class = int(r.choice([2, 3, 4]))
        per_class = int(r.choice([3, 4, 5, 6]))
        n_train = int(r.randint(10, 25))
        X_train = r.randint(0, 5, size=(n_train, 2)).astype(float)
        Y_train = r.randint(0, n_class, size=n_train)
        Y_train[:n_class] = np.arange(n_class)
        Y_val = np.repeat(np.arange(n_class), per_class)
        X_val = r.randint(0, 5, size=(len(Y_val), 2)).astype(float)
        max_k = int(r.randint(2, 7))
        return X_train, Y_train, X_val, Y_val, max_k, "log_squared_euclidean", None, None, None

    n_class = int(r.randint(2, 4))
    n_train = int(r.randint(10, 22))
    centers = r.uniform(-3, 3, size=(n_class, 3))
    Y_train = r.randint(0, n_class, size=n_train)
    Y_train[:n_class] = np.arange(n_class)
    X_train = centers[Y_train] + r.normal(0, 1.5, size=(n_train, 3))
    metric = METRICS[int(r.randint(0, len(METRICS)))]
    max_k = int(r.randint(1, 7))
    if seed % 3 == 0:
        # pre-computed distances, addressed through permuted indexes; validation = some training rows
        I_train = r.permutation(n_train)
        rows = r.choice(n_train, size=n_train // 2, replace=False)
        X_val, Y_val, I_val = X_train[rows], Y_train[rows], I_train[rows]
        Y_val = Y_val.copy()
        Y_val[0] = n_class - 1  # the largest label is present
        return X_train, Y_train, X_val, Y_val, max_k, metric, I_train, I_val, True
    n_val = int(r.randint(6, 16))
    Y_val = r.randint(0, n_class, size=n_val)
    Y_val[0] = n_class - 1
    X_val = centers[Y_val] + r.normal(0, 1.5, size=(n_val, 3))
    return X_train, Y_train, X_val, Y_val, max_k, metric, None, None, None


def build(cls, data):
    X_train, Y_train, X_val, Y_val, max_k, metric, I_train, I_val, pre = data
    opf = cls(max_k=max_k, distance=metric)
    if pre:
        n = len(X_train)
        D = np.zeros((n, n))
        for a in range(n):
            for b in range(n):
                D[I_train[a]][I_train[b]] = opf.distance_fn(X_train[a], X_train[b])
        opf.pre_computed_distance = True
        opf.pre_distances = D
    return opf


def snapshot(opf, data):
    X_val, I_val = data[2], data[7]
    sg = opf.subgraph
    nodes = [
        (nd.predicted_label, nd.pred, nd.root, float(nd.cost), float(nd.density), float(nd.radius))
        for nd in sg.nodes
    ]
    return (
        sg.best_k,
        float(sg.constant),
        float(sg.density),
        float(sg.min_density),
        float(sg.max_density),
        nodes,
        [int(p) for p in opf.predict(X_val, I_val)],
    )


def fit(opf, data):
    X_train, Y_train, X_val, Y_val, _, _, I_train, I_val, _ = data
    opf.fit(X_train, Y_train, X_val, Y_val, I_train, I_val)


def main():
    start = time.time()
    failures = 0

    # 30 tie-heavy inputs + the four inputs known to hold candidates whose accuracies differ only
    # in the last bits + 24 blob inputs (other metrics, unbalanced classes, pre-computed distances)
    seeds = list(range(30)) + [129, 143, 243, 292] + list(range(1000, 1024))

    for seed in seeds:
        data = make_data(seed)

        ref = build(RefKNNSupervisedOPF, data)
        fit(ref, data)
        expected = snapshot(ref, data)

        # criterion values observed from outside, by wrapping `opf_accuracy`
        accs = []
        inner = g.opf_accuracy

        def spy(labels, preds):
            value = inner(labels, preds)
            accs.append(value)
            return value

        opf = build(KNNSupervisedOPF, data)
        g.opf_accuracy = spy
        try:
            fit(opf, data)
            # a second fit of the same estimator has to give the same model
            fit(opf, data)
        finally:
            g.opf_accuracy = inner
        got = snapshot(opf, data)

        max_k = data[4]
        ok = True
        if len(accs) != 2 * max_k or accs[:max_k] != accs[max_k:]:
            print("FAIL seed=%d: unexpected criterion calls %s" % (seed, accs))
            ok = False
        else:
            best_k = 1
            for k in range(2, max_k + 1):
                if accs[k - 1] > accs[best_k - 1]:
                    best_k = k
            if opf.subgraph.best_k != best_k:
                print(
                    "FAIL seed=%d: kept k = %d, but k = %d is the smallest k with the highest accuracy; "
                    "accuracies = %s" % (seed, opf.subgraph.best_k, best_k, [repr(float(a)) for a in accs[:max_k]])
                )
                ok = False
        if got != expected:
            print(
                "FAIL seed=%d: differs from the original (best_k %d vs %d, predictions equal: %s)"
                % (seed, got[0], expected[0], got[-1] == expected[-1])
            )
            ok = False
        if not ok:
            failures += 1

    print("inputs: %d, failures: %d, %.1fs" % (len(seeds), failures, time.time() - start))
    return 1 if failures else 0


if __name__ == "__main__":
    sys.exit(main())
