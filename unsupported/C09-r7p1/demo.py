"""C09 / p1 demo: KNNSupervisedOPF.predict, numpy-idiomatic k-nearest scan.

Exit 0  : behaviour identical to the original implementation and predictions are
          independent of batch position / batch composition / earlier calls.
Exit !=0: otherwise.

Run as: cd /tmp/wt/C09 && PYTHONPATH=/tmp/wt/C09 /venv/bin/python demo.py
"""

import logging
import sys
import time
from typing import List, Optional

logging.disable(logging.CRITICAL)

import warnings

import numpy as np

warnings.filterwarnings("ignore", category=RuntimeWarning)

import opfython.utils.constants as c
from opfython.models.knn_supervised import KNNSupervisedOPF
from opfython.subgraphs import KNNSubgraph
from opfython.utils import logging as _l

logger = _l.get_logger(__name__)


class RefKNN(KNNSupervisedOPF):
    """Reference: verbatim copy of the ORIGINAL `predict` (fit calls it through `_learn`)."""

    def predict(self, X_test: np.array, I_test: Optional[np.array] = None) -> List[int]:
        """Predicts new data using the pre-trained classifier.

        Args:
            X_test: Array of features.
            I_test: Array of indexes.

        Returns:
            (List[int]): A list of predictions for each record of the data.

        """

        logger.info("Predicting data ...")

        start = time.time()

        pred_subgraph = KNNSubgraph(X_test, I=I_test)

        best_k = self.subgraph.best_k

        distances = np.zeros(best_k + 1)
        neighbours_idx = np.zeros(best_k + 1)

        for i in range(pred_subgraph.n_nodes):
            cost = c.FLOAT_MAX * -1

            distances.fill(c.FLOAT_MAX)

            for j in range(self.subgraph.n_nodes):
                if self.pre_computed_distance:
                    distances[best_k] = self.pre_distances[
                        pred_subgraph.nodes[i].idx
                    ][self.subgraph.nodes[j].idx]
                else:
                    distances[best_k] = self.distance_fn(
                        pred_subgraph.nodes[i].features,
                        self.subgraph.nodes[j].features,
                    )

                neighbours_idx[best_k] = j
                cur_k = best_k

                # While current `k` is bigger than 0 and the `k` distance is smaller than `k-1` distance
                while cur_k > 0 and distances[cur_k] < distances[cur_k - 1]:
                    distances[cur_k], distances[cur_k - 1] = (
                        distances[cur_k - 1],
                        distances[cur_k],
                    )

                    neighbours_idx[cur_k], neighbours_idx[cur_k - 1] = (
                        neighbours_idx[cur_k - 1],
                        neighbours_idx[cur_k],
                    )

                    cur_k -= 1

            density = 0.0
            for k in range(best_k):
                density += np.exp(-distances[k] / self.subgraph.constant)
            density /= best_k

            density = (
                (c.MAX_DENSITY - 1)
                * (density - self.subgraph.min_density)
                / (self.subgraph.max_density - self.subgraph.min_density + c.EPSILON)
            ) + 1

            for k in range(best_k):
                if distances[k] != c.FLOAT_MAX:
                    neighbour = int(neighbours_idx[k])

                    temp_cost = np.minimum(self.subgraph.nodes[neighbour].cost, density)
                    if temp_cost > cost:
                        cost = temp_cost

                        pred_subgraph.nodes[i].predicted_label = self.subgraph.nodes[
                            neighbour
                        ].predicted_label

        preds = [pred.predicted_label for pred in pred_subgraph.nodes]

        end = time.time()

        predict_time = end - start

        logger.info("Data has been predicted.")
        logger.info("Prediction time: %s seconds.", predict_time)

        return preds


FAILURES = []


def fail(msg):
    FAILURES.append(msg)
    print("FAIL:", msg)


def blobs(rng, n, n_classes, n_feat, spread):
    centers = rng.uniform(1.0, 9.0, size=(n_classes, n_feat))
    Y = rng.integers(0, n_classes, size=n)
    X = centers[Y] + rng.normal(0, spread, size=(n, n_feat))
    return np.abs(X) + 0.05, Y + 1


def grid(rng, n, n_classes, n_feat):
    # tie-heavy: small integer coordinates, many duplicates and equal distances
    X = rng.integers(1, 4, size=(n, n_feat)).astype(float)
    Y = rng.integers(1, n_classes + 1, size=n)
    return X, Y


def model_state(opf):
    sg = opf.subgraph
    return (
        sg.best_k,
        sg.constant,
        sg.min_density,
        sg.max_density,
        [n.cost for n in sg.nodes],
        [n.predicted_label for n in sg.nodes],
        [n.pred for n in sg.nodes],
        list(sg.idx_nodes),
    )


def make_pair(max_k, distance, D=None):
    ref, cur = RefKNN(max_k=max_k, distance=distance), KNNSupervisedOPF(max_k=max_k, distance=distance)
    if D is not None:
        for o in (ref, cur):
            o.pre_computed_distance = True
            o.pre_distances = D
    return ref, cur


def check_feature_case(tag, rng, X, Y, max_k, distance):
    n = len(X)
    n_tr, n_va = int(n * 0.5), int(n * 0.25)
    Xtr, Ytr = X[:n_tr], Y[:n_tr]
    Xva, Yva = X[n_tr : n_tr + n_va], Y[n_tr : n_tr + n_va]
    Xte = X[n_tr + n_va :]

    ref, cur = make_pair(max_k, distance)
    ref.fit(Xtr, Ytr, Xva, Yva)
    cur.fit(Xtr, Ytr, Xva, Yva)
    if model_state(ref) != model_state(cur):
        fail(f"{tag}: fitted model differs from original")
        return

    batches = [Xte, Xte[::-1], np.concatenate([Xte, Xtr[:5], Xte[:3]]), Xtr, Xte[:1]]
    for b, B in enumerate(batches):
        r, p = ref.predict(B), cur.predict(B)
        if r != p or any(type(v) is not int for v in p):
            fail(f"{tag}: batch {b} differs from original: {r} vs {p}")
        if model_state(ref) != model_state(cur):
            fail(f"{tag}: model changed by predict")

    # property: batch vs singletons vs permuted batch vs repeated call
    whole = cur.predict(Xte)
    single = [cur.predict(Xte[i : i + 1])[0] for i in range(len(Xte))]
    perm = rng.permutation(len(Xte))
    permuted = cur.predict(Xte[perm])
    again = cur.predict(Xte)
    if whole != single:
        fail(f"{tag}: batch prediction != one-by-one prediction")
    if [permuted[list(perm).index(i)] for i in range(len(Xte))] != whole:
        fail(f"{tag}: prediction changes when the batch is permuted")
    if again != whole:
        fail(f"{tag}: prediction changes on a repeated call")


def check_precomputed_case(tag, rng, N, max_k, kind):
    # A pool of N samples known only through a distance matrix; training, validation
    # and test samples are arbitrary (non-identity, non-contiguous) rows of that pool.
    if kind == "sym":
        P = rng.uniform(0.5, 5.0, size=(N, 3))
        D = np.sqrt(((P[:, None, :] - P[None, :, :]) ** 2).sum(-1))
    elif kind == "asym":
        D = rng.uniform(0.1, 4.0, size=(N, N))
        np.fill_diagonal(D, 0.0)
    elif kind == "ties":
        D = rng.integers(1, 4, size=(N, N)).astype(float)
        np.fill_diagonal(D, 0.0)
    else:  # integer dtype matrix
        D = rng.integers(1, 6, size=(N, N))
        np.fill_diagonal(D, 0)
    labels = rng.integers(1, 4, size=N)
    feats = rng.uniform(1, 2, size=(N, 2))  # ignored by the pre-computed path

    # `fit` insists on an `n_train x n_train` matrix, so the training samples are the
    # first `n_tr` pool rows (fed in shuffled order, i.e., node position != idx) and the
    # matrix is extended with the unseen rows once the model is fitted.
    n_tr = N // 2
    I_tr = rng.permutation(n_tr)
    I_va = rng.permutation(n_tr)[: N // 4]
    I_te = n_tr + rng.permutation(N - n_tr)

    ref, cur = make_pair(max_k, "euclidean", D[:n_tr, :n_tr].copy())
    ref.fit(feats[I_tr], labels[I_tr], feats[I_va], labels[I_va], I_tr, I_va)
    cur.fit(feats[I_tr], labels[I_tr], feats[I_va], labels[I_va], I_tr, I_va)
    if model_state(ref) != model_state(cur):
        fail(f"{tag}: fitted model differs from original")
        return
    ref.pre_distances = D
    cur.pre_distances = D

    for b, I in enumerate([I_te, I_te[::-1], np.concatenate([I_te, I_tr[:4], I_te[:2]]), I_tr]):
        r, p = ref.predict(feats[I], I), cur.predict(feats[I], I)
        if r != p:
            fail(f"{tag}: batch {b} differs from original: {r} vs {p}")

    # property: the sample with pool index `idx` gets one label wherever it sits
    whole = cur.predict(feats[I_te], I_te)
    single = [cur.predict(feats[[i]], np.array([i]))[0] for i in I_te]
    perm = rng.permutation(len(I_te))
    permuted = cur.predict(feats[I_te[perm]], I_te[perm])
    if whole != single:
        fail(f"{tag}: batch prediction != one-by-one prediction (pre-computed distances)")
    if [permuted[list(perm).index(i)] for i in range(len(I_te))] != whole:
        fail(f"{tag}: prediction depends on the position in the batch (pre-computed distances)")


def specific_slip_case():
    """Hand-made history that exposes a batch-position dependence.

    Pool of 6 samples on a line, known through a distance matrix only. Training rows
    are pool indexes 0, 1 (class 1) and 2, 3 (class 2); the queries are the unseen pool
    rows 4 and 5, addressed through `I_test`.
    """

    pos = np.array([0.0, 1.0, 9.0, 10.0, 2.0, 8.0])
    D = np.abs(pos[:, None] - pos[None, :])
    feats = np.ones((6, 2))
    labels = np.array([1, 1, 2, 2, 1, 2])
    I_tr, I_va = np.array([0, 1, 2, 3]), np.array([1, 2])

    ref, cur = make_pair(1, "euclidean", D[:4, :4].copy())
    ref.fit(feats[I_tr], labels[I_tr], feats[I_va], labels[I_va], I_tr, I_va)
    cur.fit(feats[I_tr], labels[I_tr], feats[I_va], labels[I_va], I_tr, I_va)
    ref.pre_distances = D
    cur.pre_distances = D

    # pool sample 4 (position 2.0) belongs with class 1, pool sample 5 (position 8.0)
    # with class 2 -- wherever they sit in the batch
    for I in ([4, 5], [5, 4], [5], [4], [5, 5, 4, 4], [0, 1, 5, 4]):
        I = np.array(I)
        expect = [int(labels[i]) for i in I]
        got, r = cur.predict(feats[I], I), ref.predict(feats[I], I)
        if r != expect:
            fail(f"specific: reference itself unexpected for {I}: {r}")
        if got != expect:
            fail(f"specific: pool samples {I.tolist()} predicted {got}, expected {expect}")


def main():
    t0 = time.time()
    n_cases = 0

    for seed in range(24):
        rng = np.random.default_rng(1000 + seed)
        max_k = [1, 2, 3, 5][seed % 4]
        distance = ["log_squared_euclidean", "euclidean", "manhattan", "chi_squared", "canberra", "kullback_leibler"][seed % 6]
        if seed % 3 == 2:
            X, Y = grid(rng, 40, 3, 2)
            tag = f"grid seed={seed} k={max_k} {distance}"
        else:
            X, Y = blobs(rng, 40, 3, 3, 0.8)
            if seed % 3 == 1:
                X[5:12] = X[0]  # duplicated rows with mixed labels
                X = np.round(X, 1)
            tag = f"blobs seed={seed} k={max_k} {distance}"
        check_feature_case(tag, rng, X, Y, max_k, distance)
        n_cases += 1

    for seed in range(16):
        rng = np.random.default_rng(2000 + seed)
        kind = ["sym", "asym", "ties", "int"][seed % 4]
        max_k = [1, 3, 2, 4][(seed // 4) % 4]
        check_precomputed_case(f"pre-computed {kind} seed={seed} k={max_k}", rng, 36, max_k, kind)
        n_cases += 1

    # very small training set
    rng = np.random.default_rng(7)
    X, Y = blobs(rng, 12, 2, 2, 0.5)
    check_feature_case("tiny k=5", rng, X, Y, 5, "euclidean")
    n_cases += 1

    specific_slip_case()

    print(f"{n_cases} seeded cases + specific history, {time.time() - t0:.1f}s")
    if FAILURES:
        print(f"{len(FAILURES)} failure(s)")
        sys.exit(1)
    print("OK")


if __name__ == "__main__":
    main()
