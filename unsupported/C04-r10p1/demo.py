"""C04 / p1 - SupervisedOPF.fit(keep_weights=...) + arc-weight cache.

Exit 0  : behaviour identical to the original SupervisedOPF and the property
          "training samples receive their own labels" holds.
Exit 1  : a difference from the original / a property violation was found.

Run as: cd /tmp/wt/C04 && PYTHONPATH=/tmp/wt/C04 /venv/bin/python demo.py
"""

import inspect
import logging
import sys
import time
from typing import List, Optional

logging.disable(logging.CRITICAL)

import numpy as np

import opfython.utils.constants as c
import opfython.utils.exception as e
from opfython.core import OPF, Heap, Subgraph
from opfython.models.supervised import SupervisedOPF

logger = logging.getLogger("demo_ref")


# --------------------------------------------------------------------------
# Reference: verbatim copy of the ORIGINAL SupervisedOPF methods
# --------------------------------------------------------------------------
class RefSupervisedOPF(OPF):
    def __init__(self, distance="log_squared_euclidean", pre_computed_distance=None):
        super(RefSupervisedOPF, self).__init__(distance, pre_computed_distance)

    def _find_prototypes(self) -> None:
        """Find prototype nodes using the Minimum Spanning Tree (MST) approach."""

        logger.debug("Finding prototypes ...")

        h = Heap(self.subgraph.n_nodes)

        self.subgraph.nodes[0].pred = c.NIL

        h.insert(0)

        prototypes = []
        while not h.is_empty():
            p = h.remove()

            self.subgraph.nodes[p].cost = h.cost[p]

            pred = self.subgraph.nodes[p].pred
            if pred != c.NIL:
                if self.subgraph.nodes[p].label != self.subgraph.nodes[pred].label:
                    if self.subgraph.nodes[p].status != c.PROTOTYPE:
                        self.subgraph.nodes[p].status = c.PROTOTYPE
                        prototypes.append(p)

                    if self.subgraph.nodes[pred].status != c.PROTOTYPE:
                        self.subgraph.nodes[pred].status = c.PROTOTYPE
                        prototypes.append(pred)

            for q in range(self.subgraph.n_nodes):
                if h.color[q] != c.BLACK:
                    if p != q:
                        if self.pre_computed_distance:
                            weight = self.pre_distances[self.subgraph.nodes[p].idx][
                                self.subgraph.nodes[q].idx
                            ]
                        else:
                            weight = self.distance_fn(
                                self.subgraph.nodes[p].features,
                                self.subgraph.nodes[q].features,
                            )

                        if weight < h.cost[q]:
                            self.subgraph.nodes[q].pred = p

                            h.update(q, weight)

        logger.debug("Prototypes: %s.", prototypes)

    def fit(
        self, X_train: np.array, Y_train: np.array, I_train: Optional[np.array] = None
    ) -> None:
        logger.info("Fitting classifier ...")

        start = time.time()

        self.subgraph = Subgraph(X_train, Y_train, I=I_train)

        self._find_prototypes()

        h = Heap(size=self.subgraph.n_nodes)

        for i in range(self.subgraph.n_nodes):
            if self.subgraph.nodes[i].status == c.PROTOTYPE:
                self.subgraph.nodes[i].pred = c.NIL
                self.subgraph.nodes[i].predicted_label = self.subgraph.nodes[i].label

                h.cost[i] = 0
                h.insert(i)
            else:
                h.cost[i] = c.FLOAT_MAX

        while not h.is_empty():
            p = h.remove()

            self.subgraph.idx_nodes.append(p)
            self.subgraph.nodes[p].cost = h.cost[p]

            for q in range(self.subgraph.n_nodes):
                if p != q:
                    if h.cost[p] < h.cost[q]:
                        if self.pre_computed_distance:
                            weight = self.pre_distances[self.subgraph.nodes[p].idx][
                                self.subgraph.nodes[q].idx
                            ]
                        else:
                            weight = self.distance_fn(
                                self.subgraph.nodes[p].features,
                                self.subgraph.nodes[q].features,
                            )

                        # The current cost will be the maximum cost between the node's and its weight (arc)
                        current_cost = np.maximum(h.cost[p], weight)

                        if current_cost < h.cost[q]:
                            self.subgraph.nodes[q].pred = p
                            self.subgraph.nodes[
                                q
                            ].predicted_label = self.subgraph.nodes[p].predicted_label

                            h.update(q, current_cost)

        self.subgraph.trained = True

        end = time.time()

        train_time = end - start

        logger.info("Classifier has been fitted.")
        logger.info("Training time: %s seconds.", train_time)

    def predict(self, X_val: np.array, I_val: Optional[np.array] = None) -> List[int]:
        if not self.subgraph:
            raise e.BuildError("Subgraph has not been properly created")

        if not self.subgraph.trained:
            raise e.BuildError("Classifier has not been properly fitted")

        logger.info("Predicting data ...")

        start = time.time()

        pred_subgraph = Subgraph(X_val, I=I_val)

        for i in range(pred_subgraph.n_nodes):
            j = 0

            k = self.subgraph.idx_nodes[j]
            conqueror = k

            if self.pre_computed_distance:
                weight = self.pre_distances[self.subgraph.nodes[k].idx][
                    pred_subgraph.nodes[i].idx
                ]
            else:
                weight = self.distance_fn(
                    self.subgraph.nodes[k].features, pred_subgraph.nodes[i].features
                )

            # The minimum cost will be the maximum between the `k` node cost and its weight (arc)
            min_cost = np.maximum(self.subgraph.nodes[k].cost, weight)

            # The current label will be `k` node's predicted label
            current_label = self.subgraph.nodes[k].predicted_label

            # While `j` is a possible node and the minimum cost is bigger than the current node's cost
            while (
                j < (self.subgraph.n_nodes - 1)
                and min_cost > self.subgraph.nodes[self.subgraph.idx_nodes[j + 1]].cost
            ):
                l = self.subgraph.idx_nodes[j + 1]

                if self.pre_computed_distance:
                    weight = self.pre_distances[self.subgraph.nodes[l].idx][
                        pred_subgraph.nodes[i].idx
                    ]
                else:
                    weight = self.distance_fn(
                        self.subgraph.nodes[l].features, pred_subgraph.nodes[i].features
                    )

                # The temporary minimum cost will be the maximum between the `l` node cost and its weight (arc)
                temp_min_cost = np.maximum(self.subgraph.nodes[l].cost, weight)
                if temp_min_cost < min_cost:
                    min_cost = temp_min_cost
                    conqueror = l
                    current_label = self.subgraph.nodes[l].predicted_label

                j += 1
                k = l

            # Node's `i` predicted label is the same as current label
            pred_subgraph.nodes[i].predicted_label = current_label

            if conqueror > -1:
                self.subgraph.mark_nodes(conqueror)

        preds = [pred.predicted_label for pred in pred_subgraph.nodes]

        end = time.time()

        predict_time = end - start

        logger.info("Data has been predicted.")
        logger.info("Prediction time: %s seconds.", predict_time)

        return preds


# --------------------------------------------------------------------------
# Helpers
# --------------------------------------------------------------------------
HAS_KEEP = "keep_weights" in inspect.signature(SupervisedOPF.fit).parameters
FAILURES = []


def fail(msg):
    FAILURES.append(msg)
    print("FAIL:", msg)


def same(a, b):
    """Bit-level equality of two scalars (NaN == NaN, 0.0 != -0.0 is ignored)."""
    a = float(a)
    b = float(b)
    return (a == b) or (a != a and b != b)


def snapshot(opf):
    sg = opf.subgraph
    return {
        "idx_nodes": list(sg.idx_nodes),
        "cost": [n.cost for n in sg.nodes],
        "pred": [n.pred for n in sg.nodes],
        "plabel": [n.predicted_label for n in sg.nodes],
        "status": [n.status for n in sg.nodes],
        "relevant": [n.relevant for n in sg.nodes],
        "idx": [n.idx for n in sg.nodes],
    }


def compare(tag, ref, lib):
    a, b = snapshot(ref), snapshot(lib)
    for key in a:
        if key == "cost":
            ok = len(a[key]) == len(b[key]) and all(
                same(x, y) for x, y in zip(a[key], b[key])
            )
        else:
            ok = a[key] == b[key]
        if not ok:
            fail("%s: subgraph field `%s` differs from the original" % (tag, key))
            return False
    return True


def lib_fit(lib, X, Y, I=None, keep=False):
    if HAS_KEEP and keep:
        lib.fit(X, Y, I, keep_weights=True)
    else:
        lib.fit(X, Y, I)


def check_kept_weights(tag, lib):
    """Every kept arc weight has to be the true weight of that arc."""
    if not HAS_KEEP:
        return
    kept = lib.arc_weights
    if not kept:
        fail("%s: keep_weights=True kept nothing" % tag)
    nodes = lib.subgraph.nodes
    for (p, q), w in kept.items():
        if lib.pre_computed_distance:
            true_w = lib.pre_distances[nodes[p].idx][nodes[q].idx]
        else:
            true_w = lib.distance_fn(nodes[p].features, nodes[q].features)
        if not same(w, true_w):
            fail("%s: kept weight of arc (%d, %d) is not its true weight" % (tag, p, q))
            return


def make_data(rng, kind, n, d, n_class):
    if kind == "gauss":
        X = rng.normal(size=(n, d)) + 3.0
    elif kind == "grid":  # tie-heavy: small integer lattice
        X = rng.integers(1, 4, size=(n, d)).astype(float)
    elif kind == "dups":  # tie-heavy: duplicated rows
        base = rng.normal(size=(max(2, n // 3), d)) + 3.0
        X = base[rng.integers(0, len(base), size=n)]
    else:  # positive data for the divergence-like metrics
        X = rng.uniform(0.1, 1.0, size=(n, d))
    Y = rng.integers(1, n_class + 1, size=n)
    Y[:n_class] = np.arange(1, n_class + 1)
    return np.ascontiguousarray(X), Y


def tie_free(D):
    iu = np.triu_indices(len(D), 1)
    v = D[iu]
    return len(np.unique(v)) == len(v) and np.all(v > 0)


def pairwise(fn, X):
    n = len(X)
    D = np.zeros((n, n))
    for i in range(n):
        for j in range(n):
            D[i][j] = fn(X[i], X[j])
    return D


# --------------------------------------------------------------------------
# Part 1: >= 30 seeded inputs, long-lived classifiers that are re-fitted
# --------------------------------------------------------------------------
def part1():
    metrics = ["log_squared_euclidean", "euclidean", "manhattan", "chebyshev",
               "canberra", "squared_chord"]
    kinds = ["gauss", "grid", "dups", "pos"]
    libs = {m: SupervisedOPF(distance=m) for m in metrics}
    n_cases = 0
    for seed in range(36):
        rng = np.random.default_rng(1000 + seed)
        metric = metrics[seed % len(metrics)]
        kind = kinds[seed % len(kinds)]
        n = int(rng.integers(8, 26))
        d = int(rng.integers(1, 5))
        X, Y = make_data(rng, kind, n, d, int(rng.integers(2, 5)))
        Xv, _ = make_data(rng, kind, 7, d, 2)
        tag = "case %d (%s, %s, n=%d)" % (seed, metric, kind, n)

        ref = RefSupervisedOPF(distance=metric)
        lib = libs[metric]  # re-used: repeated fits on one object
        keep = seed % 3 == 0
        I = None
        Iv = None

        if seed % 4 == 3:
            # pre-computed distances with non-identity indexes; every other one asymmetric
            Z = np.vstack([X, Xv])
            D = pairwise(lib.distance_fn, Z)
            if seed % 8 == 7:
                D = D + np.triu(rng.uniform(0, 0.5, size=D.shape), 1)
            perm = rng.permutation(len(Z))
            Dp = np.zeros_like(D)
            Dp[np.ix_(perm, perm)] = D
            I, Iv = perm[:n], perm[n:]
            for o in (ref, lib):
                o.pre_computed_distance = True
                o.pre_distances = Dp
        else:
            lib.pre_computed_distance = False
            lib.pre_distances = None

        ref.fit(X, Y, I)
        lib_fit(lib, X, Y, I, keep=keep)
        if not compare(tag + " after fit", ref, lib):
            continue
        if keep:
            check_kept_weights(tag, lib)
        elif HAS_KEEP and lib.arc_weights:
            fail("%s: weights were kept although keep_weights=False" % tag)

        for name, Xq, Iq in (("val", Xv, Iv), ("train", X, I)):
            pr, pl = ref.predict(Xq, Iq), lib.predict(Xq, Iq)
            if pr != pl:
                fail("%s: predict(%s) differs from the original" % (tag, name))
        compare(tag + " after predict", ref, lib)
        n_cases += 1
    print("part 1: %d seeded cases compared against the original" % n_cases)


# --------------------------------------------------------------------------
# Part 2: the property on tie-free data, with the history
#         fit(A, keep_weights=True) ; fit(B)
# --------------------------------------------------------------------------
def part2():
    n_hist = 0
    for seed in range(12):
        rng = np.random.default_rng(7000 + seed)
        metric = ["euclidean", "log_squared_euclidean", "manhattan"][seed % 3]
        n = 14 + seed
        XA, YA = make_data(rng, "gauss", n, 3, 3)
        XB, YB = make_data(rng, "gauss", n if seed % 2 == 0 else n - 3, 3, 3)

        lib = SupervisedOPF(distance=metric)
        if not tie_free(pairwise(lib.distance_fn, XB)) or not tie_free(pairwise(lib.distance_fn, XA)):
            fail("history %d: generated data is not tie-free (demo bug)" % seed)
            continue

        # first training keeps its arc weights for inspection ...
        lib_fit(lib, XA, YA, keep=True)
        check_kept_weights("history %d, first fit" % seed, lib)
        if lib.predict(XA) != list(YA):
            fail("history %d: first fit does not reproduce its training labels" % seed)

        # ... and the classifier is then trained again on other data
        lib_fit(lib, XB, YB)
        ref = RefSupervisedOPF(distance=metric)
        ref.fit(XB, YB)
        tag = "history %d (%s, n=%d->%d)" % (seed, metric, len(XA), len(XB))

        own = [nd.predicted_label for nd in lib.subgraph.nodes]
        if own != list(YB):
            fail("%s: PROPERTY: %d training samples did not get their own label at fit"
                 % (tag, int(np.sum(np.array(own) != YB))))
        compare(tag + " after re-fit", ref, lib)
        preds = lib.predict(XB)
        if preds != list(YB):
            fail("%s: PROPERTY: predict(X_train) != Y_train for %d of %d samples"
                 % (tag, int(np.sum(np.array(preds) != YB)), len(YB)))
        if preds != ref.predict(XB):
            fail("%s: predict(X_train) differs from the original" % tag)
        if HAS_KEEP and lib.arc_weights:
            fail("%s: stale weights are still exposed after a plain fit" % tag)
        n_hist += 1
    print("part 2: %d fit(keep_weights=True) -> fit() histories checked" % n_hist)


if __name__ == "__main__":
    print("library supports keep_weights:", HAS_KEEP)
    part1()
    part2()
    if FAILURES:
        print("%d failure(s)" % len(FAILURES))
        sys.exit(1)
    print("OK")
    sys.exit(0)
