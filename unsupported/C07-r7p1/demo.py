"""C07 / p1 demo.

Exit 0 on the original code and on the clean refactoring of
`KNNSubgraph.create_arcs`; exit 1 when the broken variant is applied.

Part 1 compares the current `create_arcs` with a verbatim copy of the original on
many seeded inputs (tie-heavy ones, duplicates, k >= n, pre-computed matrices with
identity / permuted / subset indexes, repeated calls without `destroy_arcs`) and on
whole-model runs (UnsupervisedOPF, KNNSupervisedOPF).

Part 2 is the C07 check: a caller-supplied pre-computed distance matrix must be
bit-for-bit unchanged after `create_arcs` / `fit`, and what a later `predict`
returns must not depend on the fact that a fit preceded it.
"""

import logging
import sys

logging.disable(logging.CRITICAL)

import numpy as np

import opfython.math.distance as distance
import opfython.utils.constants as c
from opfython.models.knn_supervised import KNNSupervisedOPF
from opfython.models.unsupervised import UnsupervisedOPF
from opfython.subgraphs import KNNSubgraph

FAILURES = []


def check(cond, msg):
    if not cond:
        FAILURES.append(msg)
        print("FAIL:", msg)


# --------------------------------------------------------------------------- #
# Verbatim copy of the original KNNSubgraph.create_arcs
# --------------------------------------------------------------------------- #
def ref_create_arcs(
    self, k, distance_function, pre_computed_distance=False, pre_distances=None
):
    distances = np.zeros(k + 1)
    neighbours_idx = np.zeros(k + 1)
    max_distances = np.zeros(k)

    self.density = 0.0

    for i in range(self.n_nodes):
        distances.fill(c.FLOAT_MAX)

        for j in range(self.n_nodes):
            if j != i:
                if pre_computed_distance:
                    distances[k] = pre_distances[self.nodes[i].idx][self.nodes[j].idx]
                else:
                    distances[k] = distance_function(
                        self.nodes[i].features, self.nodes[j].features
                    )

                neighbours_idx[k] = j
                cur_k = k

                while cur_k > 0 and distances[cur_k] < distances[cur_k - 1]:
                    distances[cur_k], distances[cur_k - 1] = (
                        distances[cur_k - 1],
                        distances[cur_k],
                    )

                    neighbours_idx[cur_k], neighbours_idx[cur_k - 1] = (
                        neighbours_idx[cur_k - 1],
                        neighbours_idx[cur_k],
                    )

                    cur_k -= 1

        self.nodes[i].radius = 0.0
        self.nodes[i].n_plateaus = 0

        for l in range(k - 1, -1, -1):
            if distances[l] != c.FLOAT_MAX:
                if distances[l] > self.density:
                    self.density = distances[l]
                if distances[l] > self.nodes[i].radius:
                    self.nodes[i].radius = distances[l]
                if distances[l] > max_distances[l]:
                    max_distances[l] = distances[l]

                self.nodes[i].adjacency.insert(0, neighbours_idx[l])

    if self.density < 0.00001:
        self.density = 1

    return max_distances


CURRENT_CREATE_ARCS = KNNSubgraph.create_arcs


def same_bits(a, b):
    a = np.asarray(a, dtype=float)
    b = np.asarray(b, dtype=float)
    return a.shape == b.shape and a.tobytes() == b.tobytes()


def snapshot(sg):
    return (
        float(sg.density),
        [float(n.radius) for n in sg.nodes],
        [n.n_plateaus for n in sg.nodes],
        [[float(a) for a in n.adjacency] for n in sg.nodes],
        [[type(a).__name__ for a in n.adjacency] for n in sg.nodes],
    )


def compare_arcs(tag, X, ks, fn, I=None, D=None):
    """Runs `create_arcs` for each k in `ks` (without destroying arcs in between)."""

    cur = KNNSubgraph(X, I=I)
    ref = KNNSubgraph(X, I=I)

    D_cur = None if D is None else D.copy()
    D_ref = None if D is None else D.copy()

    for k in ks:
        m_cur = CURRENT_CREATE_ARCS(cur, k, fn, D is not None, D_cur)
        m_ref = ref_create_arcs(ref, k, fn, D is not None, D_ref)

        check(same_bits(m_cur, m_ref), f"{tag}: max_distances differ (k={k})")
        check(snapshot(cur) == snapshot(ref), f"{tag}: arcs / radius / density differ (k={k})")


def pairwise(X, fn):
    n = len(X)
    D = np.zeros((n, n))
    for i in range(n):
        for j in range(n):
            D[i, j] = fn(X[i], X[j])
    return D


# --------------------------------------------------------------------------- #
# Part 1: equivalence with the original
# --------------------------------------------------------------------------- #
METRICS = [
    "log_squared_euclidean",
    "euclidean",
    "manhattan",
    "chebyshev",
    "hamming",
    "canberra",
    "kullback_leibler",
    "jaccard",
]

n_cases = 0
for seed in range(36):
    rng = np.random.RandomState(seed)
    n = int(rng.randint(2, 14))
    d = int(rng.randint(1, 4))
    kind = seed % 4

    if kind == 0:
        X = rng.rand(n, d)
    elif kind == 1:
        # Tie-heavy: small integer grid, many equal distances and duplicates
        X = rng.randint(0, 3, size=(n, d)).astype(float)
    elif kind == 2:
        # Exact zeros and repeated rows
        X = np.round(rng.rand(n, d), 1)
        X[rng.rand(n, d) < 0.4] = 0.0
        X[-1] = X[0]
    else:
        X = rng.randn(n, d)

    fn = distance.DISTANCES[METRICS[seed % len(METRICS)]]
    if METRICS[seed % len(METRICS)] in ("kullback_leibler", "canberra", "jaccard"):
        X = np.abs(X)

    ks = [int(rng.randint(1, n + 2))]
    if seed % 3 == 0:
        ks.append(int(rng.randint(1, n + 2)))

    compare_arcs(f"features seed={seed}", X, ks, fn)
    n_cases += 1

    # Pre-computed, nodes identified by their position
    D = pairwise(X, distance.DISTANCES["euclidean"])
    if kind == 1:
        D = np.round(D)
    compare_arcs(f"pre-computed identity seed={seed}", X, ks, fn, D=D)
    compare_arcs(
        f"pre-computed identity (explicit I) seed={seed}", X, ks, fn, I=np.arange(n), D=D
    )
    n_cases += 2

    # Pre-computed, permuted indexes into a bigger (asymmetric) matrix
    big = rng.randint(0, 4, size=(n + 5, n + 5)).astype(float) + (
        rng.rand(n + 5, n + 5) if kind != 1 else 0.0
    )
    I = rng.permutation(n + 5)[:n]
    compare_arcs(f"pre-computed permuted seed={seed}", X, ks, fn, I=I, D=big)
    compare_arcs(f"pre-computed bigger matrix, positional seed={seed}", X, ks, fn, D=big)
    n_cases += 2

# A few special matrices: integer dtype, infinities / FLOAT_MAX / NaN entries
rng = np.random.RandomState(123)
X = rng.rand(7, 2)
D_int = rng.randint(0, 3, size=(7, 7))
compare_arcs("pre-computed int matrix", X, [3], distance.euclidean_distance, D=D_int)
D_odd = rng.rand(7, 7)
D_odd[0, 3] = np.inf
D_odd[1, 2] = c.FLOAT_MAX
D_odd[2, 5] = np.nan
D_odd[4, :] = c.FLOAT_MAX
D_odd[5, 1] = -np.inf
compare_arcs("pre-computed odd entries", X, [4, 8], distance.euclidean_distance, D=D_odd)
compare_arcs("two nodes", X[:2], [1, 3], distance.euclidean_distance)
compare_arcs("single node", X[:1], [1], distance.euclidean_distance)
n_cases += 4


def run_unsup(X, I, D, max_k, metric):
    opf = UnsupervisedOPF(min_k=1, max_k=max_k, distance=metric)
    if D is not None:
        opf.pre_computed_distance = True
        opf.pre_distances = D.copy()
    opf.fit(X, I_train=I)
    preds = opf.predict(X, I_val=I)
    return (
        opf.subgraph.best_k,
        opf.subgraph.n_clusters,
        list(opf.subgraph.idx_nodes),
        [(n.cluster_label, n.pred, n.root, float(n.cost), float(n.density)) for n in opf.subgraph.nodes],
        preds,
    )


def run_knn(Xt, Yt, Xv, Yv, It, Iv, D, max_k, metric):
    opf = KNNSupervisedOPF(max_k=max_k, distance=metric)
    if D is not None:
        opf.pre_computed_distance = True
        opf.pre_distances = D.copy()
    opf.fit(Xt, Yt, Xv, Yv, I_train=It, I_val=Iv)
    preds = opf.predict(Xv, I_test=Iv)
    return (
        opf.subgraph.best_k,
        list(opf.subgraph.idx_nodes),
        [(n.predicted_label, n.pred, n.root, float(n.cost), float(n.density)) for n in opf.subgraph.nodes],
        preds,
    )


def with_reference(fn, *args):
    KNNSubgraph.create_arcs = ref_create_arcs
    try:
        return fn(*args)
    finally:
        KNNSubgraph.create_arcs = CURRENT_CREATE_ARCS


for seed in range(8):
    rng = np.random.RandomState(1000 + seed)
    n = 24
    X = np.vstack([rng.randn(n // 2, 2), rng.randn(n // 2, 2) + 3.0])
    if seed % 2:
        X = np.round(X)  # tie-heavy
    Y = np.array([0] * (n // 2) + [1] * (n // 2))
    metric = ["log_squared_euclidean", "manhattan"][seed % 2]

    args = (X, None, None, 4, metric)
    check(run_unsup(*args) == with_reference(run_unsup, *args), f"UnsupervisedOPF differs (seed={seed})")

    perm = rng.permutation(n)
    Xt, Yt, Xv, Yv = X[perm[:16]], Y[perm[:16]], X[perm[16:]], Y[perm[16:]]
    args = (Xt, Yt, Xv, Yv, None, None, None, 3, metric)
    check(run_knn(*args) == with_reference(run_knn, *args), f"KNNSupervisedOPF differs (seed={seed})")
    # KNNSupervisedOPF wants an `n_train x n_train` matrix: permuted training indexes,
    # validation samples mapped onto arbitrary rows of it
    Dt = pairwise(Xt, distance.DISTANCES[metric]) + rng.randint(0, 2, size=(16, 16))
    args = (Xt, Yt, Xv, Yv, rng.permutation(16), rng.randint(0, 16, size=8), Dt, 3, metric)
    check(
        run_knn(*args) == with_reference(run_knn, *args),
        f"KNNSupervisedOPF (pre-computed, permuted indexes) differs (seed={seed})",
    )
    n_cases += 3

print(f"part 1: {n_cases} comparisons against the original done")

# --------------------------------------------------------------------------- #
# Part 2: C07 - the caller's matrix is left alone, later results do not depend on history
# --------------------------------------------------------------------------- #
rng = np.random.RandomState(7)
n = 30
X = np.vstack([rng.randn(n // 2, 2), rng.randn(n // 2, 2) + 4.0])
D = pairwise(X, distance.DISTANCES["euclidean"])  # float64, supplied by the caller
D_before = D.copy()

sg = KNNSubgraph(X)
sg.create_arcs(3, distance.euclidean_distance, True, D)
check(
    D.tobytes() == D_before.tobytes(),
    "create_arcs modified the caller's pre-computed distance matrix "
    f"({int(np.sum(D != D_before))} entries changed, e.g. D[0, 0] = {D[0, 0]!r})",
)

D = D_before.copy()
opf = UnsupervisedOPF(min_k=1, max_k=4, distance="euclidean")
opf.pre_computed_distance = True
opf.pre_distances = D
opf.fit(X)
check(
    D.tobytes() == D_before.tobytes(),
    "UnsupervisedOPF.fit modified the caller's pre-computed distance matrix",
)
preds_after_fit = opf.predict(X, I_val=np.arange(n))

# The same question asked to the original implementation
KNNSubgraph.create_arcs = ref_create_arcs
ref = UnsupervisedOPF(min_k=1, max_k=4, distance="euclidean")
ref.pre_computed_distance = True
ref.pre_distances = D_before.copy()
ref.fit(X)
preds_ref = ref.predict(X, I_val=np.arange(n))
KNNSubgraph.create_arcs = CURRENT_CREATE_ARCS

check(
    [n_.cluster_label for n_ in opf.subgraph.nodes] == [n_.cluster_label for n_ in ref.subgraph.nodes],
    "fitted clusters differ from the original",
)
check(
    preds_after_fit == preds_ref,
    "predict() on the training samples (pre-computed distances) differs from the original: "
    "the matrix was changed by the preceding fit",
)

if FAILURES:
    print(f"{len(FAILURES)} check(s) failed")
    sys.exit(1)

print("OK")
sys.exit(0)
