"""C07 / p2 demo: UnsupervisedOPF._normalized_cut housekeeping.

Exits 0 when the observable behaviour equals the original one for every call
history, non-zero otherwise.

Run as: cd /tmp/wt/C07 && PYTHONPATH=/tmp/wt/C07 /venv/bin/python demo.py
"""

import logging
import sys
import warnings

import numpy as np

logging.disable(logging.CRITICAL)
warnings.simplefilter("ignore")
np.seterr(all="ignore")

import opfython.utils.constants as c  # noqa: E402
from opfython.models.knn_supervised import KNNSupervisedOPF  # noqa: E402
from opfython.models.unsupervised import UnsupervisedOPF  # noqa: E402

FAILURES = []


def fail(msg):
    FAILURES.append(msg)
    if len(FAILURES) <= 30:
        print("FAIL:", msg)


# --------------------------------------------------------------------------- #
# Reference: verbatim copy of the ORIGINAL UnsupervisedOPF._normalized_cut    #
# --------------------------------------------------------------------------- #
class RefUnsupervisedOPF(UnsupervisedOPF):
    def _normalized_cut(self, n_neighbours):
        internal_cluster = np.zeros(self.subgraph.n_clusters)
        external_cluster = np.zeros(self.subgraph.n_clusters)

        cut = 0.0

        for i in range(self.subgraph.n_nodes):
            n_adjacents = self.subgraph.nodes[i].n_plateaus + n_neighbours

            for k in range(n_adjacents):
                j = int(self.subgraph.nodes[i].adjacency[k])

                if self.pre_computed_distance:
                    distance = self.pre_distances[self.subgraph.nodes[i].idx][
                        self.subgraph.nodes[j].idx
                    ]
                else:
                    distance = self.distance_fn(
                        self.subgraph.nodes[i].features, self.subgraph.nodes[j].features
                    )

                if distance > 0.0:
                    if (
                        self.subgraph.nodes[i].cluster_label
                        == self.subgraph.nodes[j].cluster_label
                    ):
                        internal_cluster[self.subgraph.nodes[i].cluster_label] += (
                            1 / distance
                        )
                    else:
                        external_cluster[self.subgraph.nodes[i].cluster_label] += (
                            1 / distance
                        )

        for l in range(self.subgraph.n_clusters):
            if internal_cluster[l] + external_cluster[l] > 0.0:
                cut += external_cluster[l] / (internal_cluster[l] + external_cluster[l])

        return cut


def spying(cls):
    """Sub-class recording every cut value (k, n_clusters, cut)."""

    class Spy(cls):
        def _normalized_cut(self, n_neighbours):
            value = super()._normalized_cut(n_neighbours)
            self.cuts.append((n_neighbours, self.subgraph.n_clusters, float(value)))
            return value

    return Spy


def run(cls, X, Xt, max_k, distance="log_squared_euclidean", D=None, I=None, It=None):
    opf = spying(cls)(max_k=max_k, distance=distance)
    opf.cuts = []
    if D is not None:
        opf.pre_computed_distance = True
        opf.pre_distances = D
    try:
        opf.fit(X, I_train=I)
    except UnboundLocalError:  # every cut was NaN: no `k` could be selected
        return {"cuts": opf.cuts, "forest": None, "state": ("no k selected",) * 2, "preds": None}
    sg = opf.subgraph
    forest = [
        (n.pred, n.root, n.cluster_label, float(n.cost), float(n.density), float(n.radius), list(map(int, n.adjacency)))
        for n in sg.nodes
    ]
    state = (sg.best_k, sg.n_clusters, float(sg.density), float(sg.constant), list(sg.idx_nodes))
    preds = opf.predict(Xt, I_val=It)
    return {"cuts": opf.cuts, "forest": forest, "state": state, "preds": preds}


def compare(tag, got, exp):
    for key in ("cuts", "state", "forest", "preds"):
        if repr(got[key]) != repr(exp[key]):
            detail = ""
            if key == "cuts":
                detail = ": %r vs original %r" % (got[key], exp[key])
            if key == "state":
                detail = ": best_k/n_clusters %r vs original %r" % (got[key][:2], exp[key][:2])
            fail("%s: %s differ%s" % (tag, key, detail))
            return False
    return True


def dataset(seed):
    g = np.random.default_rng(seed)
    n = int(g.integers(12, 34))
    dim = int(g.integers(1, 5))
    X = g.random((n, dim))
    kind = seed % 4
    if kind == 0:  # tie-heavy: coarse grid, many equal distances and coincident samples
        X = np.round(X * 3) / 3
    elif kind == 1:  # groups of coincident samples
        X[: int(g.integers(3, 8))] = X[0]
        X[10:14] = X[10]
    elif kind == 2:  # well separated blobs
        X[: n // 2] += 5.0
    Xt = np.vstack([X[:4], g.random((5, dim))])
    return X, Xt, int(g.integers(1, 6))


def snapshot(*arrays):
    return [a.tobytes() for a in arrays]


# --------------------------------------------------------------------------- #
# Part 1: seeded inputs against the original behaviour                        #
# --------------------------------------------------------------------------- #
n_inputs = 0
for seed in range(40):
    X, Xt, max_k = dataset(seed)
    before = snapshot(X, Xt)
    metric = ("log_squared_euclidean", "euclidean", "canberra", "manhattan")[seed % 4 if seed > 20 else 0]
    got = run(UnsupervisedOPF, X, Xt, max_k, metric)
    exp = run(RefUnsupervisedOPF, X, Xt, max_k, metric)
    compare("seed %d (%s, max_k=%d)" % (seed, metric, max_k), got, exp)
    if snapshot(X, Xt) != before:
        fail("seed %d: caller data modified" % seed)
    n_inputs += 1

# pre-computed distances with non-identity (permuted) indexes, ties and null arcs
for seed in range(6):
    g = np.random.default_rng(100 + seed)
    m = 26
    P = np.round(g.random((m, 2)) * 4) / 4
    D = np.sqrt(((P[:, None, :] - P[None, :, :]) ** 2).sum(-1))
    I = g.permutation(m)[:18]
    It = g.permutation(m)[:7]
    X = g.random((18, 2))
    Xt = g.random((7, 2))
    before = snapshot(D, I, It, X, Xt)
    got = run(UnsupervisedOPF, X, Xt, 4, D=D, I=I, It=It)
    exp = run(RefUnsupervisedOPF, X, Xt, 4, D=D, I=I, It=It)
    compare("pre-computed %d" % seed, got, exp)
    if snapshot(D, I, It, X, Xt) != before:
        fail("pre-computed %d: caller data modified" % seed)
    n_inputs += 1


# --------------------------------------------------------------------------- #
# Part 2: fitting a fresh model on equal data must not depend on what the      #
# process computed before                                                      #
# --------------------------------------------------------------------------- #
def coincident_data(seed):
    g = np.random.default_rng(seed)
    X = g.random((30, 3))
    X[:6] = X[0]  # six coincident samples: a cluster whose arcs are all null
    X[10:15] = X[10]  # five coincident samples
    return X, g.random((8, 3))


def other_work(seed):
    """Unrelated earlier activity of the same process: other models are fitted and
    used on other data, and the caller builds a few arrays of his own."""

    g = np.random.default_rng(seed)
    for n in (16, 23, 30):
        Z = g.random((n, 3)) * 50.0
        Y = (np.arange(n) % 2).astype(int)
        knn = KNNSupervisedOPF(max_k=3)
        knn.fit(Z[: n // 2], Y[: n // 2], Z[n // 2 :], Y[n // 2 :])
        knn.predict(Z)
        un = UnsupervisedOPF(max_k=5)
        un.fit(Z)
        un.predict(Z)
    # ranking buffers / upper bounds as the library itself uses them, dropped again
    scratch = [np.full(k, c.FLOAT_MAX) for k in range(1, 33) for _ in range(8)]
    weights = [g.random(k) * 1e6 for k in range(1, 33)]
    del scratch, weights


for seed in (1, 2, 3, 4, 5):
    X, Xt = coincident_data(seed)
    exp = run(RefUnsupervisedOPF, X, Xt, 4)
    first = run(UnsupervisedOPF, X, Xt, 4)
    other_work(seed)
    second = run(UnsupervisedOPF, X.copy(), Xt.copy(), 4)
    ok = compare("history %d: fresh model before other work" % seed, first, exp)
    ok = compare("history %d: fresh model AFTER other work" % seed, second, exp) and ok
    if repr(first) != repr(second):
        fail("history %d: two fresh models fitted on equal data differ" % seed)

print("inputs: %d, failures: %d" % (n_inputs, len(FAILURES)))
sys.exit(1 if FAILURES else 0)
