"""C07 / p1 demo.

exit 0  -> behaviour identical to the original library and caller data untouched
exit !0 -> a distance matrix differs from the original code, or a call changed the
           caller's arrays / returned something else on a repeated call.

Run as: cd /tmp/wt/C07 && PYTHONPATH=/tmp/wt/C07 /venv/bin/python demo.py
"""

import logging
import os
import sys
import tempfile

import numpy as np

logging.disable(logging.CRITICAL)

import opfython.math.distance as d  # noqa: E402
import opfython.math.general as g  # noqa: E402
from opfython.core import Subgraph  # noqa: E402
from opfython.core.opf import OPF  # noqa: E402

FAILURES = []


def fail(msg):
    FAILURES.append(msg)
    if len(FAILURES) <= 25:
        print("FAIL:", msg)


# --------------------------------------------------------------------------- #
# Verbatim copies of the ORIGINAL implementations (reference behaviour)
# --------------------------------------------------------------------------- #
def ref_get_distances(self, normalize=False):
    distances = np.zeros((self.subgraph.n_nodes, self.subgraph.n_nodes))

    for i in range(self.subgraph.n_nodes):
        for j in range(self.subgraph.n_nodes):
            distances[i][j] = self.distance_fn(
                self.subgraph.nodes[i].features, self.subgraph.nodes[j].features
            )

    if normalize:
        return (distances - distances.min()) / (
            distances.max() - distances.min()
        )

    return distances


def ref_pre_compute_distance(data, output, distance="log_squared_euclidean"):
    size = data.shape[0]

    distances = np.zeros((size, size))
    for i in range(size):
        for j in range(size):
            distances[i][j] = d.DISTANCES[distance](data[i], data[j])

    delimiter = "," if output.split(".")[-1] == "csv" else " "

    np.savetxt(output, distances, delimiter=delimiter)


# --------------------------------------------------------------------------- #
# Helpers
# --------------------------------------------------------------------------- #
def same_bits(a, b):
    a = np.asarray(a)
    b = np.asarray(b)
    return a.shape == b.shape and a.dtype == b.dtype and a.tobytes() == b.tobytes()


def make_data(seed):
    """Seeded samples: positives, exact zeros, duplicated rows (ties), tiny values."""

    rng = np.random.RandomState(seed)
    n = int(rng.randint(3, 8))
    f = int(rng.randint(2, 6))
    kind = seed % 5

    if kind == 0:
        X = rng.rand(n, f)
    elif kind == 1:
        # Tie-heavy: small integer grid with many exact zeros and repeated rows
        X = rng.randint(0, 3, size=(n, f)).astype(float)
        X[-1] = X[0]
    elif kind == 2:
        X = rng.rand(n, f)
        X[rng.rand(n, f) < 0.4] = 0.0
    elif kind == 3:
        X = rng.rand(n, f) * 1e-6
        X[0, 0] = 0.0
    else:
        X = np.abs(rng.randn(n, f))
        X[:, 0] = 0.0
        X[1] = X[2]

    return X


NAMES = sorted(d.DISTANCES.keys())

# --------------------------------------------------------------------------- #
# (1) Differential check against the original code, >= 30 seeded inputs
# --------------------------------------------------------------------------- #
tmp = tempfile.mkdtemp(prefix="c07p1_")
n_cases = 0

with np.errstate(all="ignore"):
    for seed in range(40):
        X = make_data(seed)
        if seed % 8 == 5:
            X = X.astype(np.float32)
        elif seed % 8 == 6:
            X = np.floor(X * 4).astype(np.int64)
        # every metric is visited at least three times over the 40 seeds
        names = [NAMES[(seed * 4 + k) % len(NAMES)] for k in range(4)]

        for name in names:
            n_cases += 1

            clf = OPF(distance=name)
            clf.subgraph = Subgraph(X.copy(), np.zeros(len(X), dtype=int))

            for normalize in (False, True):
                want = ref_get_distances(clf, normalize)
                try:
                    got = clf.get_distances(normalize)
                except Exception as error:  # the original does not raise here
                    fail(
                        "get_distances raised %s: seed=%d metric=%s"
                        % (type(error).__name__, seed, name)
                    )
                    continue
                if not same_bits(want, got):
                    fail(
                        "get_distances(%s) differs from original: seed=%d metric=%s"
                        % (normalize, seed, name)
                    )

            ext = "csv" if seed % 2 else "txt"
            f_ref = os.path.join(tmp, "ref_%d_%s.%s" % (seed, name, ext))
            f_new = os.path.join(tmp, "new_%d_%s.%s" % (seed, name, ext))
            ref_pre_compute_distance(X.copy(), f_ref, name)
            try:
                g.pre_compute_distance(X.copy(), f_new, name)
            except Exception as error:  # the original does not raise here
                fail(
                    "pre_compute_distance raised %s: seed=%d metric=%s"
                    % (type(error).__name__, seed, name)
                )
                continue
            with open(f_ref, "rb") as a, open(f_new, "rb") as b:
                if a.read() != b.read():
                    fail(
                        "pre_compute_distance file differs: seed=%d metric=%s"
                        % (seed, name)
                    )

print("differential cases:", n_cases)

# --------------------------------------------------------------------------- #
# (2) The property: no call modifies caller data, results do not depend on history
# --------------------------------------------------------------------------- #
with np.errstate(all="ignore"):
    for seed in (1, 2, 4, 6, 7, 9, 12, 14):
        X = make_data(seed)
        Y = np.zeros(len(X), dtype=int)

        for name in NAMES:
            X_call = X.copy()
            before = X_call.tobytes()

            # caller's matrix -> pre_compute_distance
            out1 = os.path.join(tmp, "h1.txt")
            out2 = os.path.join(tmp, "h2.txt")
            g.pre_compute_distance(X_call, out1, name)
            if X_call.tobytes() != before:
                fail(
                    "pre_compute_distance modified the caller's data: seed=%d metric=%s"
                    % (seed, name)
                )
            g.pre_compute_distance(X_call, out2, name)
            with open(out1, "rb") as a, open(out2, "rb") as b:
                if a.read() != b.read():
                    fail(
                        "pre_compute_distance depends on the call history: seed=%d metric=%s"
                        % (seed, name)
                    )

            # caller's matrix -> subgraph (nodes are views) -> get_distances
            X_fit = X.copy()
            before = X_fit.tobytes()
            clf = OPF(distance=name)
            clf.subgraph = Subgraph(X_fit, Y)
            first = clf.get_distances()
            if X_fit.tobytes() != before:
                fail(
                    "get_distances modified the caller's data: seed=%d metric=%s"
                    % (seed, name)
                )
            second = clf.get_distances()
            third = clf.get_distances()
            if not (same_bits(first, second) and same_bits(first, third)):
                fail(
                    "get_distances depends on the call history: seed=%d metric=%s"
                    % (seed, name)
                )

            # A single evaluation on the very same rows, after all of the above
            x, y = X_fit[0], X_fit[1]
            if not same_bits(d.DISTANCES[name](x, y), d.DISTANCES[name](X[0], X[1])):
                fail(
                    "distance value changed after earlier evaluations: seed=%d metric=%s"
                    % (seed, name)
                )

# --------------------------------------------------------------------------- #
# (3) The specific history: exact zeros + a zero-avoiding metric, called twice
# --------------------------------------------------------------------------- #
X = np.array([[0.0, 1.0, 2.0], [1.0, 0.0, 2.0], [3.0, 1.0, 0.0]])
snapshot = X.copy()
clf = OPF(distance="vicis_wave_hedges")
clf.subgraph = Subgraph(X, np.array([0, 1, 1]))
m1 = clf.get_distances()
m2 = clf.get_distances()
print("zeros still zeros :", bool((X == snapshot).all()), X[0, 0], X[1, 1], X[2, 2])
print("d[0][1] 1st / 2nd :", m1[0][1], m2[0][1])
if X.tobytes() != snapshot.tobytes():
    fail("specific case: the caller's exact zeros were overwritten")
if not same_bits(m1, m2):
    fail("specific case: second get_distances() returned a different matrix")

if FAILURES:
    print("%d failure(s)" % len(FAILURES))
    sys.exit(1)

print("OK")
sys.exit(0)
