"""C19 / p1 demo: a saved and re-loaded SupervisedOPF / SemiSupervisedOPF behaves like the original.

Exit status 0  -> library behaves exactly like the original code (reference copies inlined below)
Exit status 1  -> some observable result differs (predictions, forest state, side effects of save)

Run as: cd /tmp/wt/C19 && PYTHONPATH=/tmp/wt/C19 /venv/bin/python demo.py
"""

import logging
import os
import sys
import tempfile
import time

import numpy as np

logging.disable(logging.CRITICAL)

import opfython.utils.constants as c  # noqa: E402
import opfython.utils.exception as e  # noqa: E402
from opfython.core import Heap, Subgraph  # noqa: E402
from opfython.models.semi_supervised import SemiSupervisedOPF  # noqa: E402
from opfython.models.supervised import SupervisedOPF  # noqa: E402

TMP = tempfile.mkdtemp(prefix="c19p1_")
FAILURES = []


# --------------------------------------------------------------------------------------
# Verbatim copies of the ORIGINAL SupervisedOPF.fit / SupervisedOPF.predict (reference)
# --------------------------------------------------------------------------------------
def ref_fit(self, X_train, Y_train, I_train=None):
    self.subgraph = Subgraph(X_train, Y_train, I=I_train)

    self._find_prototypes()

    h = Heap(size=self.subgraph.n_nodes)

    for i in range(self.subgraph.n_nodes):
        if self.subgraph.nodes[i].status == c.PROTOTYPE:
            self.subgraph.nodes[i].pred = c.NIL
            self.subgraph.nodes[i].predicted_label = self.subgraph.nodes[i].label

            h.cost[i] = 0
            h.insert(i)
        else:
            h.cost[i] = c.FLOAT_MAX

    while not h.is_empty():
        p = h.remove()

        self.subgraph.idx_nodes.append(p)
        self.subgraph.nodes[p].cost = h.cost[p]

        for q in range(self.subgraph.n_nodes):
            if p != q:
                if h.cost[p] < h.cost[q]:
                    if self.pre_computed_distance:
                        weight = self.pre_distances[self.subgraph.nodes[p].idx][
                            self.subgraph.nodes[q].idx
                        ]
                    else:
                        weight = self.distance_fn(
                            self.subgraph.nodes[p].features,
                            self.subgraph.nodes[q].features,
                        )

                    current_cost = np.maximum(h.cost[p], weight)

                    if current_cost < h.cost[q]:
                        self.subgraph.nodes[q].pred = p
                        self.subgraph.nodes[
                            q
                        ].predicted_label = self.subgraph.nodes[p].predicted_label

                        h.update(q, current_cost)

    self.subgraph.trained = True


def ref_predict(self, X_val, I_val=None):
    if not self.subgraph:
        raise e.BuildError("Subgraph has not been properly created")

    if not self.subgraph.trained:
        raise e.BuildError("Classifier has not been properly fitted")

    pred_subgraph = Subgraph(X_val, I=I_val)

    for i in range(pred_subgraph.n_nodes):
        j = 0

        k = self.subgraph.idx_nodes[j]
        conqueror = k

        if self.pre_computed_distance:
            weight = self.pre_distances[self.subgraph.nodes[k].idx][
                pred_subgraph.nodes[i].idx
            ]
        else:
            weight = self.distance_fn(
                self.subgraph.nodes[k].features, pred_subgraph.nodes[i].features
            )

        min_cost = np.maximum(self.subgraph.nodes[k].cost, weight)

        current_label = self.subgraph.nodes[k].predicted_label

        while (
            j < (self.subgraph.n_nodes - 1)
            and min_cost > self.subgraph.nodes[self.subgraph.idx_nodes[j + 1]].cost
        ):
            l = self.subgraph.idx_nodes[j + 1]

            if self.pre_computed_distance:
                weight = self.pre_distances[self.subgraph.nodes[l].idx][
                    pred_subgraph.nodes[i].idx
                ]
            else:
                weight = self.distance_fn(
                    self.subgraph.nodes[l].features, pred_subgraph.nodes[i].features
                )

            temp_min_cost = np.maximum(self.subgraph.nodes[l].cost, weight)
            if temp_min_cost < min_cost:
                min_cost = temp_min_cost
                conqueror = l
                current_label = self.subgraph.nodes[l].predicted_label

            j += 1
            k = l

        pred_subgraph.nodes[i].predicted_label = current_label

        if conqueror > -1:
            self.subgraph.mark_nodes(conqueror)

    preds = [pred.predicted_label for pred in pred_subgraph.nodes]

    return preds


class RefSupervisedOPF(SupervisedOPF):
    """Original behaviour: original fit, original predict, plain pickling of the whole object."""

    fit = ref_fit
    predict = ref_predict

    def __getstate__(self):
        return self.__dict__.copy()


class RefSemiSupervisedOPF(SemiSupervisedOPF):
    """Original behaviour: (unchanged) semi-supervised fit, original predict, plain pickling."""

    predict = ref_predict

    def __getstate__(self):
        return self.__dict__.copy()


# --------------------------------------------------------------------------------------
# Helpers
# --------------------------------------------------------------------------------------
def forest_state(opf):
    """Everything observable in the forest of a model."""

    sg = opf.subgraph
    nodes = []
    for n in sg.nodes:
        nodes.append(
            (
                n.idx,
                n.label,
                n.predicted_label,
                n.cluster_label,
                n.features.dtype.str,
                n.features.tobytes(),
                repr(float(n.cost)),
                repr(float(n.density)),
                repr(float(n.radius)),
                n.n_plateaus,
                [int(a) for a in n.adjacency],
                n.root,
                n.status,
                n.pred,
                n.relevant,
            )
        )
    return (
        type(sg).__name__,
        sg.n_nodes,
        sg.n_features,
        list(sg.idx_nodes),
        sg.trained,
        nodes,
        opf.distance,
        opf.pre_computed_distance,
        None if opf.pre_distances is None else opf.pre_distances.tobytes(),
    )


def check(cond, msg):
    if not cond:
        FAILURES.append(msg)
        if len(FAILURES) <= 40:
            print("MISMATCH:", msg)


def make_data(seed, kind):
    """Returns X_train, Y_train, X_extra (unlabeled), X_a, X_b (two query batches)."""

    rng = np.random.RandomState(seed)
    n, m = 28 + seed % 9, 14

    if kind == "cont":
        X = rng.rand(n + 8 + 2 * m, 3) + 0.05
    elif kind == "grid":
        # tie-heavy: few distinct integer positions, lots of equal arc weights
        X = rng.randint(0, 4, size=(n + 8 + 2 * m, 2)).astype(float) + 1.0
    else:
        # tie-heavy with exact duplicates carrying conflicting labels
        base = rng.randint(0, 3, size=(9, 2)).astype(float) + 1.0
        X = base[rng.randint(0, 9, size=n + 8 + 2 * m)]

    Y = rng.randint(1, 4, size=n)
    Y[:3] = [1, 2, 3]

    return X[:n], Y, X[n : n + 8], X[n + 8 : n + 8 + m], X[n + 8 + m :]


def write_distances(seed, n_rows):
    """Writes a seeded, non-symmetric, tie-heavy distance matrix to a file OPF can read."""

    rng = np.random.RandomState(1000 + seed)
    D = rng.randint(0, 6, size=(n_rows, n_rows)).astype(float)
    np.fill_diagonal(D, 0.0)
    path = os.path.join(TMP, "dist_%d.txt" % seed)
    np.savetxt(path, D, delimiter=" ")
    return path


def run_case(tag, ref_cls, lib_cls, ctor, fit_args, fit_kwargs, batches, early_predict):
    """One history: fit, (predict), save, load into a fresh model, predict on both.

    `batches` is a list of (X, I) query batches.
    """

    ref = ref_cls(**ctor)
    ref.fit(*[a.copy() if isinstance(a, np.ndarray) else a for a in fit_args], **fit_kwargs)

    lib = lib_cls(**ctor)
    lib.fit(*[a.copy() if isinstance(a, np.ndarray) else a for a in fit_args], **fit_kwargs)

    check(forest_state(lib) == forest_state(ref), "%s: forest after fit differs from original code" % tag)

    if early_predict:
        Xq, Iq = batches[0]
        check(
            lib.predict(Xq, Iq) == ref.predict(Xq, Iq),
            "%s: predictions before save differ from original code" % tag,
        )

    # Saving must not alter the original
    before = forest_state(lib)
    path = os.path.join(TMP, "model.pkl")
    lib.save(path)
    check(forest_state(lib) == before, "%s: save() altered the original model" % tag)

    ref_path = os.path.join(TMP, "ref_model.pkl")
    ref.save(ref_path)

    # Loading into a freshly constructed model of the same kind
    loaded = lib_cls(**ctor)
    loaded.load(path)

    ref_loaded = ref_cls(**ctor)
    ref_loaded.load(ref_path)

    check(forest_state(loaded) == forest_state(lib), "%s: loaded forest differs from the saved model" % tag)
    check(forest_state(loaded) == forest_state(ref_loaded), "%s: loaded forest differs from original code" % tag)

    for b, (Xq, Iq) in enumerate(batches):
        p_ref = ref.predict(Xq, Iq)
        p_ref_loaded = ref_loaded.predict(Xq, Iq)
        p_lib = lib.predict(Xq, Iq)
        p_loaded = loaded.predict(Xq, Iq)

        check(p_ref == p_ref_loaded, "%s/b%d: reference itself is inconsistent (demo bug)" % (tag, b))
        check(p_lib == p_ref, "%s/b%d: original model predicts differently from original code" % (tag, b))
        check(
            p_loaded == p_lib,
            "%s/b%d: LOADED model predicts differently from the model it was saved from: %s vs %s"
            % (tag, b, p_loaded, p_lib),
        )
        check(forest_state(loaded) == forest_state(lib), "%s/b%d: forests diverged after predict" % (tag, b))
        check(forest_state(lib) == forest_state(ref), "%s/b%d: forest differs from original code after predict" % (tag, b))


# --------------------------------------------------------------------------------------
# Seeded sweep
# --------------------------------------------------------------------------------------
def main():
    start = time.time()
    n_cases = 0

    metrics = ["log_squared_euclidean", "euclidean", "manhattan", "canberra", "chebyshev", "squared_euclidean"]
    kinds = ["cont", "grid", "dup"]

    # Supervised, on-the-fly distances (36 seeded inputs, two thirds tie-heavy)
    for seed in range(36):
        kind = kinds[seed % 3]
        metric = metrics[(seed // 3) % len(metrics)]
        X, Y, _, Xa, Xb = make_data(seed, kind)
        run_case(
            "sup/%s/%s/seed%d" % (metric, kind, seed),
            RefSupervisedOPF,
            SupervisedOPF,
            dict(distance=metric),
            (X, Y),
            {},
            [(Xa, None), (Xb, None), (X, None)],
            early_predict=bool(seed % 2),
        )
        n_cases += 1

    # Supervised, pre-computed distances with non-identity indexes
    for seed in range(36, 46):
        X, Y, _, Xa, Xb = make_data(seed, kinds[seed % 3])
        total = len(X) + len(Xa) + len(Xb)
        perm = np.random.RandomState(seed).permutation(total)
        I_train, I_a, I_b = perm[: len(X)], perm[len(X) : len(X) + len(Xa)], perm[len(X) + len(Xa) :]
        dist_file = write_distances(seed, total)
        run_case(
            "sup/pre/seed%d" % seed,
            RefSupervisedOPF,
            SupervisedOPF,
            dict(pre_computed_distance=dist_file),
            (X, Y),
            dict(I_train=I_train),
            [(Xa, I_a), (Xb, I_b), (X, I_train)],
            early_predict=bool(seed % 2),
        )
        n_cases += 1

    # Semi-supervised (inherits predict), with and without pre-computed distances
    for seed in range(46, 58):
        kind = kinds[seed % 3]
        X, Y, Xu, Xa, Xb = make_data(seed, kind)
        if seed % 4 == 0:
            total = len(X) + len(Xu) + len(Xa) + len(Xb)
            perm = np.random.RandomState(seed).permutation(total)
            o1, o2, o3 = len(X), len(X) + len(Xu), len(X) + len(Xu) + len(Xa)
            ctor = dict(pre_computed_distance=write_distances(seed, total))
            kwargs = dict(I_train=perm[:o1], I_unlabeled=perm[o1:o2])
            batches = [(Xa, perm[o2:o3]), (Xb, perm[o3:])]
        else:
            ctor = dict(distance=metrics[seed % len(metrics)])
            kwargs = {}
            batches = [(Xa, None), (Xb, None), (X, None)]
        run_case(
            "semi/%s/seed%d" % (kind, seed),
            RefSemiSupervisedOPF,
            SemiSupervisedOPF,
            ctor,
            (X, Y, Xu),
            kwargs,
            batches,
            early_predict=bool(seed % 2),
        )
        n_cases += 1

    # ----------------------------------------------------------------------------------
    # The specific history: training set with conflicting duplicates (some training nodes
    # end up conquered by a prototype of another class), model saved right after fit,
    # loaded into a fresh model, both asked to classify the training samples.
    # ----------------------------------------------------------------------------------
    X = np.array(
        [[3, 3], [2, 2], [1, 1], [3, 2], [3, 1], [2, 3], [2, 1], [1, 3], [1, 3], [3, 3]],
        dtype=float,
    )
    Y = np.array([1, 1, 2, 2, 2, 3, 2, 3, 1, 3])
    Q = np.array([[a, b] for a in (1, 1.5, 2, 2.5, 3) for b in (1, 1.5, 2, 2.5, 3)], dtype=float)
    for metric in ["manhattan", "euclidean"]:
        run_case(
            "specific/%s" % metric,
            RefSupervisedOPF,
            SupervisedOPF,
            dict(distance=metric),
            (X, Y),
            {},
            [(Q, None), (X, None)],
            early_predict=False,
        )
        n_cases += 1

    print("cases: %d | mismatches: %d | %.1f s" % (n_cases, len(FAILURES), time.time() - start))

    for name in os.listdir(TMP):
        os.remove(os.path.join(TMP, name))
    os.rmdir(TMP)

    if FAILURES:
        print("FAIL: a saved and re-loaded model does not behave like the original")
        return 1

    print("OK")
    return 0


if __name__ == "__main__":
    sys.exit(main())
