"""C09 / p2 - pythonic-idioms commit on UnsupervisedOPF.predict.

Exit 0 : original code, or clean.diff applied.
Exit 1 : broken.diff applied (the columns of the pre-computed matrix are kept in
         a generator that the first sample of the first batch exhausts: with
         pre-computed distances every later sample sees no training node at all
         and is returned with the default label / cluster 0).

Part 1 compares `UnsupervisedOPF.predict` against a verbatim copy of the original
on seeded models (several metrics, tie-heavy grids, pre-computed distances with
non-identity indexes, k > 1, repeated calls).  Part 2 is the specific batch
history exposing the slip.
"""

import logging
import sys
import time
import warnings

logging.disable(logging.CRITICAL)
warnings.simplefilter("ignore")

import numpy as np

import opfython.utils.constants as c
import opfython.utils.exception as e
from opfython.models import UnsupervisedOPF
from opfython.subgraphs import KNNSubgraph

FAILURES = []


def fail(msg):
    FAILURES.append(msg)
    print("FAIL:", msg)


# --------------------------------------------------------------------------- #
# Verbatim copy of the ORIGINAL UnsupervisedOPF.predict (reference behaviour)
# --------------------------------------------------------------------------- #
def _orig_predict(self, X_val, I_val=None):
    if not self.subgraph:
        raise e.BuildError("KNNSubgraph has not been properly created")

    if not self.subgraph.trained:
        raise e.BuildError("Classifier has not been properly clustered")

    start = time.time()

    pred_subgraph = KNNSubgraph(X_val, I=I_val)

    best_k = self.subgraph.best_k

    distances = np.zeros(best_k + 1)
    neighbours_idx = np.zeros(best_k + 1)

    for i in range(pred_subgraph.n_nodes):
        cost = -c.FLOAT_MAX
        distances.fill(c.FLOAT_MAX)

        for j in range(self.subgraph.n_nodes):
            if self.pre_computed_distance:
                distances[best_k] = self.pre_distances[
                    pred_subgraph.nodes[i].idx
                ][self.subgraph.nodes[j].idx]
            else:
                distances[best_k] = self.distance_fn(
                    pred_subgraph.nodes[i].features,
                    self.subgraph.nodes[j].features,
                )

            neighbours_idx[best_k] = j

            cur_k = best_k
            while cur_k > 0 and distances[cur_k] < distances[cur_k - 1]:
                distances[cur_k], distances[cur_k - 1] = (
                    distances[cur_k - 1],
                    distances[cur_k],
                )

                neighbours_idx[cur_k], neighbours_idx[cur_k - 1] = (
                    neighbours_idx[cur_k - 1],
                    neighbours_idx[cur_k],
                )

                cur_k -= 1

        density = 0.0
        for k in range(best_k):
            density += np.exp(-distances[k] / self.subgraph.constant)

        density /= best_k

        # Scale the density between minimum and maximum values
        density = (
            (c.MAX_DENSITY - 1)
            * (density - self.subgraph.min_density)
            / (self.subgraph.max_density - self.subgraph.min_density + c.EPSILON)
        ) + 1

        for k in range(best_k):
            if distances[k] != c.FLOAT_MAX:
                neighbour = int(neighbours_idx[k])

                temp_cost = np.minimum(self.subgraph.nodes[neighbour].cost, density)
                if temp_cost > cost:
                    cost = temp_cost

                    # Propagates the predicted label from the neighbour
                    pred_subgraph.nodes[i].predicted_label = self.subgraph.nodes[
                        neighbour
                    ].predicted_label

                    # Propagates the cluster label from the neighbour
                    pred_subgraph.nodes[i].cluster_label = self.subgraph.nodes[
                        neighbour
                    ].cluster_label

    preds = [pred.predicted_label for pred in pred_subgraph.nodes]
    clusters = [pred.cluster_label for pred in pred_subgraph.nodes]

    return preds, clusters


# --------------------------------------------------------------------------- #
# helpers
# --------------------------------------------------------------------------- #
METRICS = [
    "log_squared_euclidean",
    "euclidean",
    "manhattan",
    "chebyshev",
    "squared_euclidean",
    "canberra",
    "bray_curtis",
    "chi_squared",  # asymmetric
]


def make_data(seed, n):
    rng = np.random.RandomState(seed)
    n_classes = 2 + seed % 2
    Y = (np.arange(n) % n_classes) + 1
    rng.shuffle(Y)
    if seed % 3 == 0:
        # tie-heavy: small integer grid, many equal distances and duplicates
        X = rng.randint(1, 5, size=(n, 2)).astype(float) + 3.0 * Y[:, None]
    else:
        X = np.abs(rng.normal(size=(n, 3))) + 2.5 * Y[:, None]
    diff = X[:, None, :] - X[None, :, :]
    D = np.sqrt((diff**2).sum(-1))
    if seed % 3 == 0:
        D = np.round(D)
    if seed % 5 == 0:
        D = D + 0.25 * np.triu(np.ones_like(D), 1)  # asymmetric matrix
    return X, Y, D


def plain(out):
    return [[int(v) for v in out[0]], [int(v) for v in out[1]]]


def same_state(m, before):
    return before == [
        (n.idx, float(n.cost), n.predicted_label, n.cluster_label, n.pred, n.root)
        for n in m.subgraph.nodes
    ]


def state(m):
    return [
        (n.idx, float(n.cost), n.predicted_label, n.cluster_label, n.pred, n.root)
        for n in m.subgraph.nodes
    ]


def fitted(seed, pre):
    n = 30
    X, Y, D = make_data(seed, n)
    rng = np.random.RandomState(500 + seed)
    rows = rng.permutation(n)
    tr, te = rows[:18], rows[18:]
    max_k = 1 + seed % 4
    m = UnsupervisedOPF(min_k=1, max_k=max_k, distance=METRICS[seed % len(METRICS)])
    if pre:
        m.pre_computed_distance = True
        m.pre_distances = D.copy()
        m.fit(X[tr], Y[tr], tr.copy())
    else:
        m.fit(X[tr], Y[tr])
    if seed % 2 == 0:
        m.propagate_labels()
    return m, X, te


# --------------------------------------------------------------------------- #
# Part 1 - differential check against the original predict
# --------------------------------------------------------------------------- #
def part1():
    n_cases = 0
    for seed in range(40):
        pre = seed % 4 in (1, 2)
        m, X, te = fitted(seed, pre)
        before = state(m)

        batches = [
            te,
            te[::-1],
            te[:1],
            np.concatenate([te[:3], te[:3], te[-2:]]),  # duplicates
            te,  # repeated call
        ]
        for b, rows in enumerate(batches):
            I = rows.copy() if pre else None
            ref = plain(_orig_predict(m, X[rows], I))
            got = plain(m.predict(X[rows], I))
            if got != ref:
                fail(
                    f"seed {seed} pre={pre} k={m.subgraph.best_k} batch #{b}: "
                    f"predict {got} != original {ref}"
                )
        if not same_state(m, before):
            fail(f"seed {seed}: predict modified the fitted model")
        n_cases += 1

    # all-equal pre-computed distances (what the test-suite uses): every tie at once
    X, Y, _ = make_data(3, 20)
    m = UnsupervisedOPF(min_k=1, max_k=3)
    m.pre_computed_distance = True
    m.pre_distances = np.ones((20, 20))
    m.fit(X, Y)
    ref = plain(_orig_predict(m, X))
    got = plain(m.predict(X))
    if got != ref:
        fail("constant pre-computed matrix: predict differs from the original")
    n_cases += 1

    print(f"part 1: {n_cases} seeded models compared against the original predict")


# --------------------------------------------------------------------------- #
# Part 2 - the property itself
# --------------------------------------------------------------------------- #
def part2():
    rng = np.random.RandomState(11)
    n = 24
    Y = np.array([1, 2] * (n // 2))
    X = rng.normal(scale=0.3, size=(n, 2)) + 6.0 * Y[:, None]
    diff = X[:, None, :] - X[None, :, :]
    D = np.sqrt((diff**2).sum(-1))
    tr = np.arange(6, n)

    for pre in (False, True):
        m = UnsupervisedOPF(min_k=1, max_k=3, distance="euclidean")
        if pre:
            m.pre_computed_distance = True
            m.pre_distances = D.copy()
            m.fit(X[tr], Y[tr], tr.copy())
        else:
            m.fit(X[tr], Y[tr])
        m.propagate_labels()

        def pred(rows):
            rows = np.array(rows)
            return plain(m.predict(X[rows], rows.copy() if pre else None))

        # each query alone, on a fresh history
        alone = {r: pred([r]) for r in range(6)}
        for batch in ([0, 1, 2, 3, 4, 5], [5, 4, 3, 2, 1, 0], [2, 2, 0, 1], [1, 0]):
            out = pred(batch)
            for pos, r in enumerate(batch):
                here = [[out[0][pos]], [out[1][pos]]]
                if here != alone[r]:
                    fail(
                        f"pre={pre}: row {r} gives (label, cluster) {alone[r]} alone "
                        f"but {here} at position {pos} of batch {batch}"
                    )
        # after earlier predict calls, alone again
        for r in range(6):
            if pred([r]) != alone[r]:
                fail(f"pre={pre}: prediction of row {r} changed after earlier predict calls")

    print("part 2: batch-position / call-history checks done")


if __name__ == "__main__":
    part1()
    part2()
    if FAILURES:
        print(f"{len(FAILURES)} failure(s)")
        sys.exit(1)
    print("OK")
    sys.exit(0)
