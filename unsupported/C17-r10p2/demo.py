"""C17 / p2 demo: conqueror tracking in SupervisedOPF.predict / relevance flags / prune.

exit 0  -> predict and prune behave exactly like the original implementation
exit 1  -> a difference against the original behaviour / the property was found
"""

import logging
import sys

import numpy as np

logging.disable(logging.CRITICAL)

import opfython.math.general as g  # noqa: E402
import opfython.utils.constants as c  # noqa: E402
from opfython.core import Subgraph  # noqa: E402
from opfython.models.supervised import SupervisedOPF  # noqa: E402

FAILURES = []


def fail(msg):
    FAILURES.append(msg)
    if len(FAILURES) <= 12:
        print("FAIL:", msg)


# --------------------------------------------------------------------------- #
# Verbatim copies of the ORIGINAL Subgraph.mark_nodes, SupervisedOPF.predict and
# SupervisedOPF.prune (self -> opf)
# --------------------------------------------------------------------------- #
def ref_mark_nodes(sg, i):
    while sg.nodes[i].pred != c.NIL:
        sg.nodes[i].relevant = c.RELEVANT
        i = sg.nodes[i].pred

    sg.nodes[i].relevant = c.RELEVANT


def ref_predict(opf, X_val, I_val=None):
    pred_subgraph = Subgraph(X_val, I=I_val)

    for i in range(pred_subgraph.n_nodes):
        j = 0

        k = opf.subgraph.idx_nodes[j]
        conqueror = k

        if opf.pre_computed_distance:
            weight = opf.pre_distances[opf.subgraph.nodes[k].idx][
                pred_subgraph.nodes[i].idx
            ]
        else:
            weight = opf.distance_fn(
                opf.subgraph.nodes[k].features, pred_subgraph.nodes[i].features
            )

        min_cost = np.maximum(opf.subgraph.nodes[k].cost, weight)

        current_label = opf.subgraph.nodes[k].predicted_label

        while (
            j < (opf.subgraph.n_nodes - 1)
            and min_cost > opf.subgraph.nodes[opf.subgraph.idx_nodes[j + 1]].cost
        ):
            l = opf.subgraph.idx_nodes[j + 1]

            if opf.pre_computed_distance:
                weight = opf.pre_distances[opf.subgraph.nodes[l].idx][
                    pred_subgraph.nodes[i].idx
                ]
            else:
                weight = opf.distance_fn(
                    opf.subgraph.nodes[l].features, pred_subgraph.nodes[i].features
                )

            temp_min_cost = np.maximum(opf.subgraph.nodes[l].cost, weight)
            if temp_min_cost < min_cost:
                min_cost = temp_min_cost
                conqueror = l
                current_label = opf.subgraph.nodes[l].predicted_label

            j += 1
            k = l

        pred_subgraph.nodes[i].predicted_label = current_label

        if conqueror > -1:
            ref_mark_nodes(opf.subgraph, conqueror)

    preds = [pred.predicted_label for pred in pred_subgraph.nodes]

    return preds


def ref_prune(opf, X_train, Y_train, X_val, Y_val, n_iterations=10):
    opf.fit(X_train, Y_train)
    ref_predict(opf, X_val)

    for _ in range(n_iterations):
        X_temp, Y_temp = [], []

        for j, n in enumerate(opf.subgraph.nodes):
            if n.relevant != c.IRRELEVANT:
                X_temp.append(X_train[j, :])
                Y_temp.append(Y_train[j])

        X_train = np.asarray(X_temp)
        Y_train = np.asarray(Y_temp)

        opf.fit(X_train, Y_train)
        preds = ref_predict(opf, X_val)

        g.opf_accuracy(Y_val, preds)


# --------------------------------------------------------------------------- #
# helpers
# --------------------------------------------------------------------------- #
def model_state(opf):
    sg = opf.subgraph
    return (
        [
            (
                n.idx,
                n.label,
                n.predicted_label,
                float(n.cost),
                n.pred,
                n.status,
                n.relevant,
                str(np.asarray(n.features).dtype),
                np.asarray(n.features).tobytes(),
            )
            for n in sg.nodes
        ],
        list(sg.idx_nodes),
    )


def flags(opf):
    return [n.relevant for n in opf.subgraph.nodes]


def expected_relevant(opf, X_val, I_val=None):
    """Independent statement of the property: conqueror = first node (in the ordered list)
    attaining the minimum of max(cost, weight); it and all ancestors are relevant."""
    sg = opf.subgraph
    rel = [c.IRRELEVANT] * sg.n_nodes
    for i, x in enumerate(X_val):
        best, best_cost = None, None
        for p in sg.idx_nodes:
            if opf.pre_computed_distance:
                w = opf.pre_distances[sg.nodes[p].idx][
                    I_val[i] if I_val is not None else i
                ]
            else:
                w = opf.distance_fn(sg.nodes[p].features, x)
            cost = max(float(sg.nodes[p].cost), float(w))
            if best is None or cost < best_cost:
                best, best_cost = p, cost
        q = best
        while q != c.NIL:
            rel[q] = c.RELEVANT
            q = sg.nodes[q].pred
    return rel


def make_data(seed):
    rng = np.random.RandomState(1000 + seed)
    kind = seed % 4
    n_train = 12 + seed % 10
    n_val = 9 + seed % 6
    n = n_train + n_val
    n_class = 2 + seed % 3
    Y = rng.randint(0, n_class, n)
    Y[:n_class] = np.arange(n_class)
    Y[n_train : n_train + n_class] = np.arange(n_class)
    if kind == 0:
        X = rng.normal(0.0, 1.0, (n, 3)) + 0.8 * Y[:, None]
    elif kind == 1:  # tie-heavy integer grid with duplicated rows
        X = rng.randint(0, 3, (n, 2)).astype(float) + (Y[:, None] > 0)
    elif kind == 2:  # tie-heavy 1-D lattice
        X = rng.randint(0, 7, (n, 1)).astype(float)
    else:
        X = rng.uniform(0.0, 2.0, (n, 2)) + 0.5 * Y[:, None]
        X[n_train : n_train + 3] = X[:3]
    return (
        np.ascontiguousarray(X[:n_train]),
        Y[:n_train].copy(),
        np.ascontiguousarray(X[n_train:]),
        Y[n_train:].copy(),
    )


DISTANCES = [
    "log_squared_euclidean",
    "euclidean",
    "manhattan",
    "squared_euclidean",
    "chebyshev",
    "canberra",
]


def pair(distance):
    return SupervisedOPF(distance=distance), SupervisedOPF(distance=distance)


# --------------------------------------------------------------------------- #
# (1a) predict: predictions + relevance flags, incl. repeated calls
# --------------------------------------------------------------------------- #
for seed in range(36):
    dist = DISTANCES[seed % len(DISTANCES)]
    Xt, Yt, Xv, Yv = make_data(seed)
    ref, lib = pair(dist)
    ref.fit(Xt.copy(), Yt.copy())
    lib.fit(Xt.copy(), Yt.copy())
    tag = "predict seed=%d dist=%s" % (seed, dist)

    half = len(Xv) // 2
    for part, Xp in (("first half", Xv[:half]), ("second half", Xv[half:])):
        rp = ref_predict(ref, Xp)
        lp = lib.predict(Xp)
        if rp != lp or [type(v) for v in rp] != [type(v) for v in lp]:
            fail("%s (%s): predictions differ" % (tag, part))
        if model_state(ref) != model_state(lib):
            fail("%s (%s): relevance flags / model state differ" % (tag, part))

    if flags(lib) != expected_relevant(lib, Xv):
        fail("%s: flagged set is not {conquerors + ancestors}" % tag)

# --------------------------------------------------------------------------- #
# (1b) prune: final training set / model
# --------------------------------------------------------------------------- #
for seed in range(12):
    dist = DISTANCES[seed % len(DISTANCES)]
    Xt, Yt, Xv, Yv = make_data(seed)
    ref, lib = pair(dist)
    ref_prune(ref, Xt.copy(), Yt.copy(), Xv.copy(), Yv.copy(), 1 + seed % 3)
    lib.prune(Xt.copy(), Yt.copy(), Xv.copy(), Yv.copy(), n_iterations=1 + seed % 3)
    tag = "prune seed=%d dist=%s" % (seed, dist)
    if model_state(ref) != model_state(lib):
        fail("%s: pruned classifier differs from the original behaviour" % tag)
    pool = [(x.tobytes(), int(y)) for x, y in zip(Xt, Yt)]
    for n in lib.subgraph.nodes:
        key = (np.asarray(n.features).tobytes(), n.label)
        if key in pool:
            pool.remove(key)
        else:
            fail("%s: pruned training set is not a sub-multiset of the original" % tag)
            break


# --------------------------------------------------------------------------- #
# (2) the specific history: the training nodes carry NON-IDENTITY identifiers
#     (fit(..., I_train=...)), as used with pre-computed distances / dataset row ids.
#     The node position in the subgraph and node.idx then differ.
# --------------------------------------------------------------------------- #
n_nonidentity = 0
for seed in range(12):
    dist = DISTANCES[seed % len(DISTANCES)]
    Xt, Yt, Xv, Yv = make_data(seed)
    n_t, n_v = len(Xt), len(Xv)
    rng = np.random.RandomState(77 + seed)

    # (2a) feature based, training identifiers are a permutation of 0..n_t-1
    I_train = rng.permutation(n_t)
    ref, lib = pair(dist)
    ref.fit(Xt.copy(), Yt.copy(), I_train.copy())
    lib.fit(Xt.copy(), Yt.copy(), I_train.copy())
    rp = ref_predict(ref, Xv)
    lp = lib.predict(Xv)
    tag = "permuted ids seed=%d dist=%s" % (seed, dist)
    if rp != lp:
        fail("%s: predictions differ" % tag)
    if flags(ref) != flags(lib):
        fail("%s: relevance flags differ from the original behaviour" % tag)
    if flags(lib) != expected_relevant(lib, Xv):
        fail("%s: flagged set is not {conquerors + ancestors}" % tag)
    n_nonidentity += 1

    # (2b) pre-computed distances over the whole dataset; the training samples are the
    #      first n_t dataset rows in shuffled order, the validation samples the others.
    X_all = np.vstack([Xt, Xv])
    I_train = rng.permutation(n_t)
    I_val = n_t + rng.permutation(n_v)
    D = np.zeros((n_t + n_v, n_t + n_v))
    ref, lib = pair(dist)
    for a in range(n_t + n_v):
        for b in range(n_t + n_v):
            D[a, b] = lib.distance_fn(X_all[a], X_all[b])
    Y_all = np.concatenate([Yt, Yv])
    for o in (ref, lib):
        o.pre_computed_distance = True
        o.pre_distances = D
        o.fit(X_all[I_train].copy(), Y_all[I_train].copy(), I_train.copy())
    tag = "pre-computed seed=%d dist=%s" % (seed, dist)
    try:
        rp = ref_predict(ref, X_all[I_val], I_val)
        lp = lib.predict(X_all[I_val], I_val)
    except IndexError as exc:
        fail("%s: predict raised %r" % (tag, exc))
        continue
    if rp != lp:
        fail("%s: predictions differ" % tag)
    if flags(ref) != flags(lib):
        fail("%s: relevance flags differ from the original behaviour" % tag)
    if flags(lib) != expected_relevant(lib, X_all[I_val], I_val):
        fail("%s: flagged set is not {conquerors + ancestors}" % tag)

if FAILURES:
    print("%d failure(s)" % len(FAILURES))
    sys.exit(1)

print("OK (36 predict inputs, 12 prune inputs, %d non-identity histories x2)" % n_nonidentity)
sys.exit(0)
