"""C03 / p1 demo: SupervisedOPF.predict (vectorised bounded scan) against the original scan.

Exit 0: every observable result equals the original predict (inlined verbatim below as
`reference_predict`) and every predicted label is one that the exhaustive minimum of
max(cost(t), d(t, x)) over ALL training samples allows.  Exit 1 otherwise.

Run as: cd /tmp/wt/C03 && PYTHONPATH=/tmp/wt/C03 /venv/bin/python demo.py
"""

import copy
import logging
import sys

logging.disable(logging.CRITICAL)

import numpy as np  # noqa: E402

from opfython.core import Subgraph  # noqa: E402
from opfython.models.semi_supervised import SemiSupervisedOPF  # noqa: E402
from opfython.models.supervised import SupervisedOPF  # noqa: E402

FAILURES = []


def reference_predict(self, X_val, I_val=None):
    """Verbatim copy of the original SupervisedOPF.predict body (logging / timing removed)."""

    pred_subgraph = Subgraph(X_val, I=I_val)

    for i in range(pred_subgraph.n_nodes):
        j = 0

        k = self.subgraph.idx_nodes[j]
        conqueror = k

        if self.pre_computed_distance:
            weight = self.pre_distances[self.subgraph.nodes[k].idx][
                pred_subgraph.nodes[i].idx
            ]
        else:
            weight = self.distance_fn(
                self.subgraph.nodes[k].features, pred_subgraph.nodes[i].features
            )

        min_cost = np.maximum(self.subgraph.nodes[k].cost, weight)

        current_label = self.subgraph.nodes[k].predicted_label

        while (
            j < (self.subgraph.n_nodes - 1)
            and min_cost > self.subgraph.nodes[self.subgraph.idx_nodes[j + 1]].cost
        ):
            l = self.subgraph.idx_nodes[j + 1]

            if self.pre_computed_distance:
                weight = self.pre_distances[self.subgraph.nodes[l].idx][
                    pred_subgraph.nodes[i].idx
                ]
            else:
                weight = self.distance_fn(
                    self.subgraph.nodes[l].features, pred_subgraph.nodes[i].features
                )

            temp_min_cost = np.maximum(self.subgraph.nodes[l].cost, weight)
            if temp_min_cost < min_cost:
                min_cost = temp_min_cost
                conqueror = l
                current_label = self.subgraph.nodes[l].predicted_label

            j += 1
            k = l

        pred_subgraph.nodes[i].predicted_label = current_label

        if conqueror > -1:
            self.subgraph.mark_nodes(conqueror)

    preds = [pred.predicted_label for pred in pred_subgraph.nodes]

    return preds


def admissible_labels(opf, x, x_idx):
    """Labels of all training samples attaining the exhaustive minimum of max(cost, d)."""

    totals = []
    for node in opf.subgraph.nodes:
        if opf.pre_computed_distance:
            w = opf.pre_distances[node.idx][x_idx]
        else:
            w = opf.distance_fn(node.features, x)
        totals.append(float(np.maximum(node.cost, w)))
    totals = np.array(totals)
    best = totals.min()
    return {
        opf.subgraph.nodes[t].predicted_label for t in np.flatnonzero(totals == best)
    }


def state(opf):
    return [
        (n.idx, n.label, n.predicted_label, n.cost, n.pred, n.relevant, n.status)
        for n in opf.subgraph.nodes
    ] + [list(opf.subgraph.idx_nodes)]


def check(name, opf, X_q, I_q=None, batches=1):
    """Runs reference and library predict on independent copies and compares everything."""

    ref, new = copy.deepcopy(opf), copy.deepcopy(opf)

    for b in range(batches):  # repeated calls on the same classifier
        chunk = slice(b, None, batches)
        Xb = X_q[chunk]
        Ib = None if I_q is None else I_q[chunk]

        expected = reference_predict(ref, Xb, Ib)
        got = new.predict(Xb, Ib)

        if expected != got or [type(v) for v in expected] != [type(v) for v in got]:
            wrong = [i for i, (a, b_) in enumerate(zip(expected, got)) if a != b_]
            FAILURES.append(
                f"{name}: predictions differ from the original at queries {wrong[:8]} "
                f"({len(wrong)}/{len(expected)})"
            )
        if state(ref) != state(new):
            FAILURES.append(f"{name}: subgraph state (relevant marks) differs from the original")

        for i, label in enumerate(got):
            allowed = admissible_labels(new, Xb[i], None if Ib is None else int(Ib[i]))
            if label not in allowed:
                FAILURES.append(
                    f"{name}: query {i} got label {label}, exhaustive minimum allows {sorted(allowed)}"
                )
                break


def make_data(rng, n, d, n_classes, kind):
    if kind == "grid":  # tie-heavy: small integer lattice, many equal distances
        X = rng.integers(0, 4, size=(n, d)).astype(float)
    elif kind == "blobs":
        centers = rng.normal(0, 2.0, size=(n_classes, d))
        X = centers[rng.integers(0, n_classes, size=n)] + rng.normal(0, 1.5, size=(n, d))
    else:  # positive data for divergence-like metrics
        X = rng.uniform(0.1, 3.0, size=(n, d))
    Y = rng.integers(1, n_classes + 1, size=n)
    Y[:n_classes] = np.arange(1, n_classes + 1)
    return X, Y


def queries(rng, X, n_q, kind):
    far = X.max() * 50 + 100.0
    parts = [
        X[rng.integers(0, len(X), size=n_q // 3)],  # queries equal to training samples
        X[rng.integers(0, len(X), size=n_q // 3)]
        + (rng.integers(-1, 2, size=(n_q // 3, X.shape[1])) if kind == "grid"
           else rng.normal(0, 0.7, size=(n_q // 3, X.shape[1]))),
        np.full((2, X.shape[1]), far),  # far from every sample
        (X[:3] + X[1:4]) / 2.0,  # equidistant between two training samples
    ]
    Q = np.vstack(parts).astype(float)
    if kind == "positive":
        Q = np.abs(Q) + 0.05
    return Q


def seeded_cases():
    metrics = [
        "log_squared_euclidean", "euclidean", "manhattan", "chebyshev", "squared_euclidean",
        "canberra", "bray_curtis", "hamming", "lorentzian", "gower",
    ]
    positive_metrics = ["kullback_leibler", "chi_squared", "hellinger", "jensen_shannon", "neyman"]

    case = 0
    # 1) plain supervised, ordinary + tie-heavy data, several metrics
    for seed in range(20):
        rng = np.random.default_rng(1000 + seed)
        kind = "grid" if seed % 2 else "blobs"
        metric = metrics[seed % len(metrics)]
        if kind == "grid" and metric in ("canberra", "bray_curtis"):
            metric = "manhattan"
        X, Y = make_data(rng, int(rng.integers(12, 45)), int(rng.integers(1, 4)), int(rng.integers(2, 5)), kind)
        opf = SupervisedOPF(distance=metric)
        opf.fit(X, Y)
        check(f"case{case:02d}[supervised/{metric}/{kind}]", opf, queries(rng, X, 30, kind), batches=1 + seed % 3)
        case += 1

    # 2) asymmetric / divergence metrics on positive data
    for seed in range(5):
        rng = np.random.default_rng(2000 + seed)
        metric = positive_metrics[seed]
        X, Y = make_data(rng, 25, 3, 3, "positive")
        opf = SupervisedOPF(distance=metric)
        opf.fit(X, Y)
        check(f"case{case:02d}[supervised/{metric}/positive]", opf, queries(rng, X, 24, "positive"))
        case += 1

    # 3) pre-computed distances with non-identity indexes (and an asymmetric matrix)
    for seed in range(8):
        rng = np.random.default_rng(3000 + seed)
        kind = "grid" if seed % 2 else "blobs"
        n_all = 60
        P, L = make_data(rng, n_all, 2, 3, kind)
        D = np.abs(P[:, None, :] - P[None, :, :]).sum(axis=2)
        if seed >= 4:
            D = D + rng.integers(0, 3, size=D.shape) * (1.0 if kind == "grid" else 0.37)
            np.fill_diagonal(D, 0.0)
        perm = rng.permutation(n_all)
        I_train, I_q = perm[:35], perm[20:]  # overlapping: some queries are training samples
        opf = SupervisedOPF()
        opf.pre_computed_distance = True
        opf.pre_distances = D
        opf.fit(P[I_train], L[I_train], I_train)
        check(f"case{case:02d}[pre-computed/{kind}/asym={seed >= 4}]", opf, P[I_q], I_q, batches=1 + seed % 2)
        case += 1

    # 4) semi-supervised forests
    for seed in range(6):
        rng = np.random.default_rng(4000 + seed)
        kind = "grid" if seed % 2 else "blobs"
        X, Y = make_data(rng, 40, 2, 3, kind)
        opf = SemiSupervisedOPF(distance="euclidean" if seed % 3 else "log_squared_euclidean")
        opf.fit(X[:22], Y[:22], X[22:])
        check(f"case{case:02d}[semi-supervised/{kind}]", opf, queries(rng, X, 30, kind))
        case += 1

    return case


def specific_case():
    """Training set where the nearest training sample is NOT the minimiser of max(cost, distance).

    Euclidean metric.  Samples 0, 5, 1, 4, 2 are prototypes (cost 0); sample 3 (label 2, at (5, 1))
    is conquered last, through a long arc, and carries path cost sqrt(10) = 3.162.  Conquest order
    is [0, 5, 1, 4, 2, 3].  For the query (2.5, 1.0) the first offer is 4.610 (sample 0), so every
    training sample is a candidate.  The nearest one is sample 3 (distance 2.5), but its offer is
    max(3.162, 2.5) = 3.162, whereas prototype 4 (label 1, at (0, 2)) offers max(0, 2.693) = 2.693.
    The exhaustive minimum therefore belongs to sample 4 and the only admissible prediction is
    label 1.  An implementation that loses the path cost of the candidates (i.e. degenerates into a
    nearest-neighbour rule among them) answers label 2.
    """

    X = np.array(
        [[6.0, 4.0], [4.0, 6.0], [4.0, 5.0], [5.0, 1.0], [0.0, 2.0], [1.0, 6.0]]
    )
    Y = np.array([2, 1, 1, 2, 1, 2])
    opf = SupervisedOPF(distance="euclidean")
    opf.fit(X, Y)

    Q = np.array([[2.5, 1.0], [3.0, 0.5], [2.5, 1.5], [5.0, 1.0], [0.0, 2.0], [3.5, 3.5]])
    check("specific[high-cost sample is the nearest neighbour]", opf, Q)

    single = copy.deepcopy(opf).predict(Q[:1])
    if single != [1]:
        FAILURES.append(
            f"specific: query (2.5, 1.0) must be labelled 1 (offer 2.693 of prototype 4 beats "
            f"offer 3.162 of the nearer sample 3), got {single}"
        )


def main():
    n_cases = seeded_cases()
    specific_case()

    if FAILURES:
        print(f"FAIL ({len(FAILURES)} findings over {n_cases} seeded cases + 1 specific case)")
        for line in sorted(FAILURES, key=lambda f: not f.startswith("specific"))[:25]:
            print("  -", line)
        return 1

    print(f"OK: {n_cases} seeded cases + 1 specific case identical to the original predict")
    return 0


if __name__ == "__main__":
    sys.exit(main())
