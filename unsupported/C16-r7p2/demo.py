"""Demo for C16 / p2 (KNNSupervisedOPF: `_learn` / `fit` split into phase helpers).

Exit status 0  -> the installed opfython.models.knn_supervised behaves exactly like the
                  original implementation (reference copies of `_learn` / `fit` inlined below).
Exit status 1  -> a difference was observed (printed).

Run as: cd /tmp/wt/C16 && PYTHONPATH=/tmp/wt/C16 /venv/bin/python demo.py
"""

import logging
import sys

import numpy as np

logging.disable(logging.CRITICAL)
np.seterr(all="ignore")

import opfython.math.distance as d  # noqa: E402
import opfython.math.general as g  # noqa: E402
import opfython.utils.exception as e  # noqa: E402
from opfython.models.knn_supervised import KNNSupervisedOPF  # noqa: E402
from opfython.subgraphs import KNNSubgraph  # noqa: E402


class ReferenceOPF(KNNSupervisedOPF):
    """Verbatim copies of the ORIGINAL `_learn` and `fit` (logging / timing removed)."""

    def _learn(self, X_train, Y_train, I_train, X_val, Y_val, I_val):
        self.subgraph = KNNSubgraph(X_train, Y_train, I_train)

        if self.pre_computed_distance:
            if (
                self.pre_distances.shape[0] != self.subgraph.n_nodes
                or self.pre_distances.shape[1] != self.subgraph.n_nodes
            ):
                raise e.BuildError(
                    "Pre-computed distance matrix should have the size of `n_nodes x n_nodes`"
                )

        max_acc = -1.0

        for k in range(1, self.max_k + 1):
            self.subgraph.best_k = k

            self.subgraph.create_arcs(
                k, self.distance_fn, self.pre_computed_distance, self.pre_distances
            )
            self.subgraph.calculate_pdf(
                k, self.distance_fn, self.pre_computed_distance, self.pre_distances
            )

            self._clustering()

            preds = self.predict(X_val, I_val)

            acc = g.opf_accuracy(Y_val, preds)
            if acc > max_acc:
                max_acc = acc
                best_k = k

            self.subgraph.destroy_arcs()

        self.subgraph.best_k = best_k

    def fit(self, X_train, Y_train, X_val, Y_val, I_train=None, I_val=None):
        self._learn(X_train, Y_train, I_train, X_val, Y_val, I_val)

        self.subgraph.create_arcs(
            self.subgraph.best_k,
            self.distance_fn,
            self.pre_computed_distance,
            self.pre_distances,
        )
        self.subgraph.calculate_pdf(
            self.subgraph.best_k,
            self.distance_fn,
            self.pre_computed_distance,
            self.pre_distances,
        )

        self._clustering(force_prototype=True)

        self.subgraph.destroy_arcs()

        self.subgraph.trained = True


ACCURACIES = []
_opf_accuracy = g.opf_accuracy


def _spied_accuracy(labels, preds):
    acc = _opf_accuracy(labels, preds)
    ACCURACIES.append(repr(float(acc)))
    return acc


g.opf_accuracy = _spied_accuracy  # the model calls `g.opf_accuracy(...)` through the module


def snapshot(opf, X_query, I_query):
    sg = opf.subgraph
    return {
        "best_k": sg.best_k,
        "trained": sg.trained,
        "graph": [repr(float(v)) for v in (sg.density, sg.constant, sg.min_density, sg.max_density)],
        "idx_nodes": [int(v) for v in sg.idx_nodes],
        "nodes": [
            (
                n.predicted_label,
                n.pred,
                n.root,
                n.n_plateaus,
                repr(float(n.cost)),
                repr(float(n.density)),
                repr(float(n.radius)),
                [int(a) for a in n.adjacency],
            )
            for n in sg.nodes
        ],
        "predict": [int(p) for p in opf.predict(X_query, I_query)],
    }


def run_history(cls, history):
    """A history is a list of fits performed on ONE classifier object."""

    out = []
    opf = cls(max_k=history[0]["max_k"], distance=history[0]["distance"])

    for step in history:
        opf.max_k = step["max_k"]
        opf.distance = step["distance"]
        opf.distance_fn = d.DISTANCES[step["distance"]]

        if step["pre"] is not None:
            opf.pre_computed_distance = True
            opf.pre_distances = step["pre"]
        else:
            opf.pre_computed_distance = False
            opf.pre_distances = None

        del ACCURACIES[:]
        try:
            opf.fit(step["X"], step["Y"], step["Xv"], step["Yv"], step["I"], step["Iv"])
            out.append((list(ACCURACIES), snapshot(opf, step["Xq"], step["Iq"])))
        except Exception as exc:  # the same failure is expected from both implementations
            out.append((list(ACCURACIES), "raised %s" % type(exc).__name__))

    return out


def make_xy(rng, kind, n, n_class, first_label):
    Y = rng.integers(0, n_class, size=n)
    Y[:n_class] = np.arange(n_class)  # every class is present

    if kind == "separated":  # tie-heavy: every k classifies everything correctly
        X = np.stack([Y * 10.0, np.zeros(n)], axis=1) + rng.normal(0.0, 0.5, size=(n, 2))
    elif kind == "overlap":
        X = np.stack([Y * 1.2, np.zeros(n)], axis=1) + rng.normal(0.0, 1.0, size=(n, 2))
    elif kind == "grid":  # tie-heavy: many equal distances and equal densities
        X = rng.integers(0, 4, size=(n, 2)).astype(float)
        X[:, 0] += 2.0 * Y
    elif kind == "dups":  # duplicated samples (null distances), sometimes with clashing labels
        base = rng.normal(0.0, 1.5, size=(max(4, n // 3), 2))
        X = base[rng.integers(0, len(base), size=n)]
    else:
        raise ValueError(kind)

    return np.ascontiguousarray(X + 6.0), (Y + first_label).astype(int)


def make_step(rng, kind, n, n_val, n_class, first_label, max_k, distance, pre):
    X, Y = make_xy(rng, kind, n, n_class, first_label)
    step = {"X": X, "Y": Y, "I": None, "Iv": None, "Iq": None, "pre": None,
            "max_k": max_k, "distance": distance}

    if pre:
        # The library wants an `n_train x n_train` matrix, hence validation / query samples
        # are drawn among the training ones and addressed by their (non-identity) row ids
        perm = rng.permutation(n)
        fn = d.DISTANCES[distance]
        matrix = np.zeros((n, n))
        for a in range(n):
            for b in range(n):
                matrix[perm[a]][perm[b]] = fn(X[a], X[b])
        val = rng.integers(0, n, size=n_val)
        qry = rng.integers(0, n, size=5)
        step.update(pre=matrix, I=perm, Xv=X[val], Yv=Y[val], Iv=perm[val], Xq=X[qry], Iq=perm[qry])
    else:
        Xv, Yv = make_xy(rng, kind, n_val, n_class, first_label)
        Xq, _ = make_xy(rng, kind, 5, n_class, first_label)
        step.update(Xv=Xv, Yv=Yv, Xq=Xq)

    return step


def seeded_histories():
    kinds = ["separated", "overlap", "grid", "dups"]
    distances = ["log_squared_euclidean", "euclidean", "manhattan", "squared_euclidean", "chi_squared"]
    histories = []

    for seed in range(36):
        rng = np.random.default_rng(2000 + seed)
        kind = kinds[seed % len(kinds)]
        distance = distances[(seed // len(kinds)) % len(distances)]
        n = int(rng.integers(16, 30))
        n_val = int(rng.integers(8, 20))
        n_class = 2 + seed % 2
        max_k = 1 + seed % 5
        pre = seed % 5 == 4
        history = [make_step(rng, kind, n, n_val, n_class, seed % 2, max_k, distance, pre)]

        if seed % 3 == 0:  # repeated fit of the same object on other data / other range
            kind2 = kinds[(seed + 1) % len(kinds)]
            history.append(make_step(rng, kind2, int(rng.integers(12, 28)), 10, 2, 1, 1 + (seed + 2) % 4, distance, False))

        histories.append(("seed %d (%s, %s, max_k = %d%s)" % (
            seed, kind, distance, max_k, ", pre-computed" if pre else ""), history))

    return histories


def exposing_history():
    """Two well separated classes: every candidate k = 1..4 reaches the same (perfect)
    validation accuracy, so the smallest one, k = 1, has to be kept."""

    rng = np.random.default_rng(11)
    step = make_step(rng, "separated", 20, 12, 2, 1, 4, "euclidean", False)
    return ("all candidates tie on validation accuracy", [step])


def first_difference(ref, new):
    for number, ((ref_accs, ref_state), (new_accs, new_state)) in enumerate(zip(ref, new)):
        if ref_accs != new_accs:
            return "fit #%d: accuracies of k = 1, 2, ...:\n    expected %s\n    got      %s" % (
                number, ref_accs, new_accs)
        if isinstance(ref_state, str) or isinstance(new_state, str):
            if ref_state != new_state:
                return "fit #%d: expected %s, got %s" % (number, ref_state, new_state)
            continue
        for key in ref_state:
            if ref_state[key] != new_state[key]:
                return "fit #%d: accuracies of k = 1, 2, ...: %s\n    `%s` differs:\n    expected %s\n    got      %s" % (
                    number, ref_accs, key, ref_state[key], new_state[key])
    return None


def main():
    failures = 0
    histories = seeded_histories() + [exposing_history()]

    for name, history in histories:
        ref = run_history(ReferenceOPF, history)
        new = run_history(KNNSupervisedOPF, history)
        diff = first_difference(ref, new)
        if diff is not None:
            failures += 1
            print("MISMATCH in %s\n  %s" % (name, diff))

    # The exposing history must really contain what it claims (guards the demo itself)
    name, history = exposing_history()
    (accs, state), = run_history(ReferenceOPF, history)
    assert len(accs) == 4 and len(set(accs)) == 1 and state["best_k"] == 1, (accs, state["best_k"])

    print("%d histories compared, %d mismatching" % (len(histories), failures))
    return 1 if failures else 0


if __name__ == "__main__":
    sys.exit(main())
