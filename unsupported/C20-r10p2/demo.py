"""Demo for C20 / p2 (opf_accuracy, normalize, pre_compute_distance).

Exits 0 when the library behaves exactly like the original implementation
(inlined below as reference) and OPF accuracy matches its definition.
"""

import os
import sys
import tempfile
import warnings

import numpy as np

import opfython.math.distance as d
from opfython.math import general as g

warnings.simplefilter("ignore")


# --------------------------------------------------------------------------
# Verbatim copies of the original functions (reference)
# --------------------------------------------------------------------------
def ref_confusion_matrix(labels, preds):
    labels = np.asarray(labels)
    preds = np.asarray(preds)

    n_class = np.max(labels) + 1

    c_matrix = np.zeros((n_class, n_class))
    for label, pred in zip(labels, preds):
        c_matrix[label][pred] += 1

    return c_matrix


def ref_opf_accuracy(labels, preds):
    labels = np.asarray(labels)
    preds = np.asarray(preds)

    n_class = np.max(labels) + 1

    errors = np.zeros((n_class, 2))
    counts = np.bincount(labels)

    for label, pred in zip(labels, preds):
        if label != pred:
            errors[pred][0] += 1
            errors[label][1] += 1

    errors[:, 1] /= counts
    errors[:, 0] /= np.nansum(counts) - counts
    errors = np.nansum(errors, axis=1)

    accuracy = 1 - (np.sum(errors) / (2 * n_class))

    return accuracy


def ref_opf_accuracy_per_label(labels, preds):
    labels = np.asarray(labels)
    preds = np.asarray(preds)

    n_class = np.max(labels) + 1

    errors = np.zeros(n_class)
    _, counts = np.unique(labels, return_counts=True)

    for label, pred in zip(labels, preds):
        if label != pred:
            errors[label] += 1

    errors /= counts
    accuracy = 1 - errors

    return accuracy


def ref_purity(labels, preds):
    c_matrix = ref_confusion_matrix(labels, preds)
    _purity = np.sum(np.max(c_matrix, axis=0)) / len(labels)

    return _purity


def ref_normalize(array):
    mean = np.mean(array, axis=0)
    std = np.std(array, axis=0)

    norm_array = (array - mean) / std

    return norm_array


PAIRS = [
    ("confusion_matrix", g.confusion_matrix, ref_confusion_matrix),
    ("opf_accuracy", g.opf_accuracy, ref_opf_accuracy),
    ("opf_accuracy_per_label", g.opf_accuracy_per_label, ref_opf_accuracy_per_label),
    ("purity", g.purity, ref_purity),
]

failures = []


def outcome(fn, *args):
    try:
        return ("ok", fn(*args))
    except Exception as e:  # pylint: disable=broad-except
        return ("exc", type(e).__name__)


def same(a, b):
    if a[0] != b[0]:
        return False
    if a[0] == "exc":
        return a[1] == b[1]
    x, y = a[1], b[1]
    if type(x) is not type(y):
        return False
    x, y = np.asarray(x), np.asarray(y)
    if x.dtype != y.dtype or x.shape != y.shape:
        return False
    return x.tobytes() == y.tobytes()


def check(tag, labels, preds):
    for name, new, ref in PAIRS:
        # Fresh copies so that no function can disturb the other's input
        a = outcome(new, _copy(labels), _copy(preds))
        b = outcome(ref, _copy(labels), _copy(preds))
        if not same(a, b):
            failures.append("%s: %s differs from the original: %r vs %r" % (tag, name, a, b))


def _copy(v):
    return list(v) if isinstance(v, list) else np.array(v, copy=True)


def make_inputs():
    rng = np.random.RandomState(20)
    inputs = []

    for i in range(48):
        k = int(rng.randint(1, 7))
        n = int(rng.randint(k, 60))
        labels = np.concatenate([np.arange(k), rng.randint(0, k, n - k)])
        rng.shuffle(labels)

        mode = i % 6
        if mode == 0:  # random predictions
            preds = rng.randint(0, k, n)
        elif mode == 1:  # mostly right
            preds = labels.copy()
            flip = rng.rand(n) < 0.2
            preds[flip] = rng.randint(0, k, int(flip.sum()))
        elif mode == 2:  # everything predicted as a single class (tie-heavy)
            preds = np.full(n, int(rng.randint(0, k)))
        elif mode == 3:  # perfect
            preds = labels.copy()
        elif mode == 4:  # cyclic shift: every sample wrong when k > 1
            preds = (labels + 1) % k
        else:  # unbalanced: class 0 absorbs most of the mistakes
            preds = labels.copy()
            preds[rng.rand(n) < 0.5] = 0

        if i % 4 == 1:
            inputs.append(("seeded-%02d-list" % i, labels.tolist(), preds.tolist()))
        else:
            inputs.append(("seeded-%02d" % i, labels, preds))

    # Out-of-domain inputs: the outcome (value or exception type) has to stay the same
    inputs.append(("absent-class", [0, 0, 2, 2, 3], [0, 2, 2, 3, 3]))
    inputs.append(("absent-class-2", [1, 1, 1], [1, 0, 1]))
    inputs.append(("pred-out-of-range", [0, 1, 1, 0], [0, 2, 1, 0]))
    inputs.append(("negative-pred", [0, 1, 2, 0], [0, -1, 2, 1]))
    inputs.append(("shorter-preds", [0, 1, 2, 0, 1], [0, 1, 1]))
    inputs.append(("empty", [], []))
    inputs.append(("int32", np.array([0, 1, 2, 2, 1], dtype=np.int32), np.array([0, 2, 2, 1, 1], dtype=np.int32)))

    return inputs


# 1) Same observable results as the original on seeded inputs
for tag, labels, preds in make_inputs():
    check(tag, labels, preds)

# normalize: float / integer / list inputs, tie-heavy small integer columns
rng = np.random.RandomState(7)
for i in range(10):
    arr = rng.randint(0, 4, (int(rng.randint(2, 12)), int(rng.randint(1, 5)))).astype(float)
    if not same(outcome(g.normalize, arr.copy()), outcome(ref_normalize, arr.copy())):
        failures.append("normalize-%d differs from the original" % i)
    ints = arr.astype(int)
    if not same(outcome(g.normalize, ints.copy()), outcome(ref_normalize, ints.copy())):
        failures.append("normalize-int-%d differs from the original" % i)
    col = ints[:, 0].tolist()
    if not same(outcome(g.normalize, list(col)), outcome(ref_normalize, list(col))):
        failures.append("normalize-list-%d differs from the original" % i)

# pre_compute_distance: the written files have to be byte-identical
with tempfile.TemporaryDirectory() as tmp:
    for i, (metric, ext) in enumerate(
        [("log_squared_euclidean", "txt"), ("euclidean", "csv"), ("manhattan", "txt"), ("chi_squared", "csv")]
    ):
        data = rng.randint(0, 3, (7, 3)).astype(float)  # duplicates => tied distances
        size = data.shape[0]
        ref = np.zeros((size, size))
        for a in range(size):
            for b in range(size):
                ref[a][b] = d.DISTANCES[metric](data[a], data[b])
        new_path = os.path.join(tmp, "new.%d.%s" % (i, ext))
        ref_path = os.path.join(tmp, "ref.%d.%s" % (i, ext))
        g.pre_compute_distance(data, new_path, metric)
        np.savetxt(ref_path, ref, delimiter="," if ext == "csv" else " ")
        with open(new_path, "rb") as f1, open(ref_path, "rb") as f2:
            if f1.read() != f2.read():
                failures.append("pre_compute_distance(%s, .%s) file differs" % (metric, ext))

# 2) Specific exposure: OPF accuracy against its definition
#    1 - (1/2K) * sum_c (FP_c / samples of other classes + FN_c / samples of class c)
def definition(labels, preds):
    labels = np.asarray(labels)
    preds = np.asarray(preds)
    k = int(labels.max()) + 1
    total = 0.0
    for c in range(k):
        n_c = int(np.sum(labels == c))
        fp = int(np.sum((preds == c) & (labels != c)))
        fn = int(np.sum((preds != c) & (labels == c)))
        total += fp / (len(labels) - n_c) + fn / n_c
    return 1 - total / (2 * k)


# A few mistakes, no class is completely wrong: every rate is strictly between 0 and 1
labels = np.array([0, 0, 0, 0, 1, 1, 1, 1, 2, 2, 2, 2])
preds = np.array([0, 0, 0, 1, 1, 1, 1, 2, 2, 2, 0, 2])
got = g.opf_accuracy(labels, preds)
want = definition(labels, preds)  # 1 - (3 * (1/8 + 1/4)) / 6 = 0.8125
if not abs(got - want) <= 1e-12 or not abs(got - 0.8125) <= 1e-12:
    failures.append("opf_accuracy = %r, the definition gives %r" % (got, want))
if got == 1:
    failures.append("opf_accuracy is 1 although three predictions are wrong")

rng = np.random.RandomState(2020)
for i in range(30):
    k = int(rng.randint(2, 6))
    n = int(rng.randint(2 * k, 50))
    labels = np.concatenate([np.arange(k), rng.randint(0, k, n - k)])
    rng.shuffle(labels)
    preds = labels.copy()
    flip = rng.rand(n) < 0.3
    preds[flip] = rng.randint(0, k, int(flip.sum()))
    got = g.opf_accuracy(labels, preds)
    want = definition(labels, preds)
    if not abs(got - want) <= 1e-12:
        failures.append("definition-%d: opf_accuracy = %r, the definition gives %r" % (i, got, want))
    if not 0 <= got <= 1:
        failures.append("definition-%d: opf_accuracy = %r outside [0, 1]" % (i, got))
    if (got == 1) != bool(np.all(labels == preds)):
        failures.append("definition-%d: opf_accuracy == 1 is %r but all-correct is %r" % (i, got == 1, bool(np.all(labels == preds))))

if failures:
    print("FAIL (%d)" % len(failures))
    for f in failures[:15]:
        print("  -", f)
    sys.exit(1)

print("OK")
sys.exit(0)
