"""Demo for pair p1 (property C05: the indexed heap is a correct priority queue).

Exit 0  : opfython.core.heap.Heap behaves exactly like the original implementation
          (inlined below, verbatim, as RefHeap) and satisfies the priority-queue property.
Exit 1  : a difference / property violation was found.

Only calls that were valid on the original code are used: insert(p), update(p, cost), remove().
"""

import random
import sys
from typing import List, Optional

import opfython.utils.constants as c
import opfython.utils.exception as e
from opfython.core.heap import Heap

# --------------------------------------------------------------------------- #
# Verbatim copy of the ORIGINAL opfython/core/heap.py (class renamed RefHeap)  #
# --------------------------------------------------------------------------- #


class RefHeap:
    """A standard implementation of a Heap structure."""

    def __init__(self, size: int = 1, policy: str = "min") -> None:
        """Initialization method.

        Args:
            size: Maximum size of the heap.
            policy: Heap's policy (`min` or `max`).

        """

        self.size = size
        self.policy = policy

        self.cost = [c.FLOAT_MAX for i in range(size)]
        self.color = [c.WHITE for i in range(size)]
        self.p = [-1 for i in range(size)]
        self.pos = [-1 for i in range(size)]

        self.last = -1

    @property
    def size(self) -> int:
        """Maximum size of the heap."""

        return self._size

    @size.setter
    def size(self, size: int) -> None:
        if not isinstance(size, int):
            raise e.TypeError("`size` should be an integer")
        if size < 1:
            raise e.ValueError("`size` should be > 0")

        self._size = size

    @property
    def policy(self) -> str:
        """Policy that rules the heap."""

        return self._policy

    @policy.setter
    def policy(self, policy: str) -> None:
        if policy not in ["min", "max"]:
            raise e.ValueError("`policy` should be `min` or `max`")

        self._policy = policy

    @property
    def cost(self) -> List[float]:
        """List of nodes' costs."""

        return self._cost

    @cost.setter
    def cost(self, cost: List[float]) -> None:
        if not isinstance(cost, list):
            raise e.TypeError("`cost` should be a list")

        self._cost = cost

    @property
    def color(self) -> List[int]:
        """List of nodes' colors."""

        return self._color

    @color.setter
    def color(self, color: List[int]) -> None:
        if not isinstance(color, list):
            raise e.TypeError("`color` should be a list")

        self._color = color

    @property
    def p(self) -> List[int]:
        """List of nodes' values."""

        return self._p

    @p.setter
    def p(self, p: List[int]) -> None:
        if not isinstance(p, list):
            raise e.TypeError("`p` should be a list")

        self._p = p

    @property
    def pos(self) -> List[int]:
        """List of nodes' positioning markers."""

        return self._pos

    @pos.setter
    def pos(self, pos: List[int]) -> None:
        if not isinstance(pos, list):
            raise e.TypeError("`pos` should be a list")

        self._pos = pos

    @property
    def last(self) -> int:
        """Last element identifier."""

        return self._last

    @last.setter
    def last(self, last: int) -> None:
        if not isinstance(last, int):
            raise e.TypeError("`last` should be an integer")
        if last < -1:
            raise e.ValueError("`last` should be > -1")

        self._last = last

    def is_full(self) -> bool:
        """Checks if the heap is full.

        Returns:
            (bool): A boolean indicating whether the heap is full.

        """

        if self.last == (self.size - 1):
            return True

        return False

    def is_empty(self) -> bool:
        """Checks if the heap is empty.

        Returns:
            (bool): A boolean indicating whether the heap is empty.

        """

        if self.last == -1:
            return True

        return False

    def dad(self, i: int) -> int:
        """Gathers the position of the node's dad.

        Args:
            i: Node's position.

        Returns:
            (int): The position of node's dad.

        """

        return int(((i - 1) / 2))

    def left_son(self, i: int) -> int:
        """Gathers the position of the node's left son.

        Args:
            i: Node's position.

        Returns:
            (int): The position of node's left son

        """

        return int((2 * i + 1))

    def right_son(self, i: int) -> int:
        """Gathers the position of the node's right son.

        Args:
            i: Node's position.

        Returns:
            (int): The position of node's right son.

        """

        return int((2 * i + 2))

    def go_up(self, i: int) -> None:
        """Goes up in the heap.

        Args:
            i: Position to be achieved.

        """

        j = self.dad(i)

        if self.policy == "min":
            # While the heap exists and the cost of post-node is bigger than current node
            while i > 0 and self.cost[self.p[j]] > self.cost[self.p[i]]:
                self.p[j], self.p[i] = self.p[i], self.p[j]

                self.pos[self.p[i]] = i
                self.pos[self.p[j]] = j

                i = j
                j = self.dad(i)

        else:
            # While the heap exists and the cost of post-node is smaller than current node
            while i > 0 and self.cost[self.p[j]] < self.cost[self.p[i]]:
                self.p[j], self.p[i] = self.p[i], self.p[j]

                self.pos[self.p[i]] = i
                self.pos[self.p[j]] = j

                i = j
                j = self.dad(i)

    def go_down(self, i: int) -> None:
        """Goes down in the heap.

        Args:
            i: Position to be achieved.

        """

        left = self.left_son(i)
        right = self.right_son(i)

        j = i

        if self.policy == "min":
            # Checks if left node is not the last and its cost is smaller than previous
            if left <= self.last and self.cost[self.p[left]] < self.cost[self.p[i]]:
                j = left

            # Checks if right node is not the last and its cost is smaller than previous
            if right <= self.last and self.cost[self.p[right]] < self.cost[self.p[j]]:
                j = right

        else:
            # Checks if left node is not the last and its cost is bigger than previous
            if left <= self.last and self.cost[self.p[left]] > self.cost[self.p[i]]:
                j = left

            # Checks if right node is not the last and its cost is bigger than previous
            if right <= self.last and self.cost[self.p[right]] > self.cost[self.p[j]]:
                j = right

        if j != i:
            self.p[j], self.p[i] = self.p[i], self.p[j]

            self.pos[self.p[i]] = i
            self.pos[self.p[j]] = j

            self.go_down(j)

    def insert(self, p: int) -> bool:
        """Inserts a new node into the heap.

        Args:
            p: Node's value to be inserted.

        Returns:
            (bool): Boolean indicating whether insertion was performed correctly.

        """

        if not self.is_full():
            self.last += 1

            self.p[self.last] = p
            self.color[p] = c.GRAY
            self.pos[p] = self.last

            self.go_up(self.last)

            return True

        return False

    def remove(self) -> int:
        """Removes a node from the heap.

        Returns:
            (int): The removed node value.

        """

        if not self.is_empty():
            p = self.p[0]

            self.pos[p] = -1
            self.color[p] = c.BLACK

            self.p[0] = self.p[self.last]

            self.pos[self.p[0]] = 0
            self.p[self.last] = -1

            self.last -= 1

            self.go_down(0)

            return p

        return False

    def update(self, p: int, cost: float) -> None:
        """Updates a node with a new value.

        Args:
            p: Node's position.
            cost: Node's cost.

        """

        self.cost[p] = cost

        if self.color[p] == c.BLACK:
            pass

        if self.color[p] == c.WHITE:
            self.insert(p)
        else:
            self.go_up(self.pos[p])


# --------------------------------------------------------------------------- #
# Harness                                                                      #
# --------------------------------------------------------------------------- #

FAILURES = []


def fail(msg):
    FAILURES.append(msg)
    print("FAIL:", msg)


def state(h):
    return (list(h.p), list(h.pos), list(h.cost), list(h.color), h.last, h.is_empty(), h.is_full())


class Oracle:
    """Independent model of what a priority queue has to do (costs as assigned by the caller)."""

    def __init__(self, size, policy):
        self.size = size
        self.policy = policy
        self.key = {}
        self.queued = set()
        self.returned = []

    def check_remove(self, got, tag):
        if not self.queued:
            if got is not False:
                fail("%s: remove on empty heap returned %r" % (tag, got))
            return
        if got is False or got not in self.queued:
            fail("%s: remove returned %r which is not queued %r" % (tag, got, sorted(self.queued)))
            return
        keys = [self.key[q] for q in self.queued]
        best = min(keys) if self.policy == "min" else max(keys)
        if self.key[got] != best:
            fail("%s: remove returned node %r with cost %r but the extremal queued cost is %r"
                 % (tag, got, self.key[got], best))
        self.queued.discard(got)
        self.returned.append(got)


def run_history(size, policy, ops, tag):
    """ops: list of ('insert', p, cost) | ('update', p, cost) | ('remove',).

    'insert' stores the key in h.cost[p] first and then calls insert(p) (the way the models do);
    'update' calls update(p, cost).
    """

    new, ref, ora = Heap(size=size, policy=policy), RefHeap(size=size, policy=policy), Oracle(size, policy)
    before, state_reported = len(FAILURES), False

    for n, op in enumerate(ops):
        where = "%s op#%d %r" % (tag, n, op)
        if op[0] == "insert":
            _, p, cost = op
            new.cost[p] = cost
            ref.cost[p] = cost
            a, b = new.insert(p), ref.insert(p)
            if a is True:
                ora.key[p] = cost
                ora.queued.add(p)
            if (len(ora.queued) == size) != new.is_full():
                fail(where + ": is_full() not truthful")
        elif op[0] == "update":
            _, p, cost = op
            a, b = new.update(p, cost), ref.update(p, cost)
            if p not in ora.returned:
                if p in ora.queued or len(ora.queued) < size:
                    ora.key[p] = cost
                    ora.queued.add(p)
        else:
            a, b = new.remove(), ref.remove()
            ora.check_remove(a, where)
        if a is not b and a != b or type(a) is not type(b):
            fail(where + ": returned %r, original returned %r" % (a, b))
        if state(new) != state(ref) and not state_reported:
            state_reported = True
            fail(where + ": internal state differs from the original\n   new %r\n   ref %r" % (state(new), state(ref)))
        if (len(ora.queued) == 0) != new.is_empty():
            fail(where + ": is_empty() not truthful")
        if len(FAILURES) - before >= 4:
            break
    return len(FAILURES) == before


def random_history(rng, size, policy, pool, n_ops):
    """Random but property-conforming history (updates only improve a queued key).

    A live copy of the ORIGINAL heap tells the generator which node each remove takes out.
    """

    sign = -1 if policy == "min" else 1
    g = RefHeap(size=size, policy=policy)
    key, queued, done, ops = {}, set(), set(), []
    for _ in range(n_ops):
        r = rng.random()
        fresh = [p for p in range(size) if p not in queued and p not in done]
        if r < 0.30:
            if fresh:
                p, cost = rng.choice(fresh), rng.choice(pool)
                ops.append(("insert", p, cost))
                g.cost[p] = cost
                if g.insert(p):
                    key[p] = cost
                    queued.add(p)
        elif r < 0.65:
            cand = fresh + sorted(queued)
            if cand:
                p = rng.choice(cand)
                if p in queued:
                    better = [v for v in pool if (v - key[p]) * sign >= 0]
                    cost = rng.choice(better) if better else key[p]
                else:
                    cost = rng.choice(pool)
                ops.append(("update", p, cost))
                g.update(p, cost)
                if g.color[p] == c.GRAY:
                    key[p] = cost
                    queued.add(p)
        else:
            ops.append(("remove",))
            out = g.remove()
            if out is not False:
                queued.discard(out)
                done.add(out)
    return ops


def seeded_campaign():
    pools = {
        "ties": [0, 1, 1, 2, 2, 2, 3],
        "zero-heavy": [0.0, 0.0, 0.0, 1.0, 2.5],
        "floats": [0.0, 0.1, 0.2, 0.30000000000000004, 0.3, 1e-12, 1.0, 1.0 + 1e-12, 1.0 - 1e-12, 7.5],
        "signed": [-3.0, -1.0, -0.0, 0.0, 1.0, 3.0, c.FLOAT_MAX, -c.FLOAT_MAX],
        "near": [1.0, 1.0 + 2.0 ** -52, 1.0 + 2.0 ** -40, 1.0 + 1e-10, 1e9, 1e9 + 1e-6, 1e-9, 1.0000001e-9],
    }
    n = 0
    for seed in range(12):
        for name, pool in sorted(pools.items()):
            for policy in ("min", "max"):
                rng = random.Random(1000 * seed + len(name) + (policy == "max"))
                size = rng.choice([1, 2, 3, 5, 8, 13])
                ops = random_history(rng, size, policy, pool, rng.randint(10, 60))
                n += 1
                if not run_history(size, policy, ops, "seed=%d pool=%s policy=%s size=%d" % (seed, name, policy, size)):
                    return n
    return n


def specific_history():
    """The history that exposes the slip of broken.diff.

    A never-queued (WHITE) node is handed to update() with a cost of exactly 0 - what
    SupervisedOPF._find_prototypes does for a duplicated training sample (distance 0), and what
    any min-heap user does for a free edge. The node must then be the first to leave a min-heap.
    """

    ok = True
    # min policy: node 2 gets key 0.0 through update() while still WHITE
    ops = [("insert", 0, 5.0), ("update", 1, 3.0), ("update", 2, 0.0), ("remove",), ("remove",), ("remove",), ("remove",)]
    ok &= run_history(4, "min", ops, "specific/min zero key via update")
    # integer zero as well
    ops = [("update", 3, 2), ("update", 0, 0), ("update", 1, 1), ("remove",), ("remove",), ("remove",)]
    ok &= run_history(4, "min", ops, "specific/min integer zero key via update")
    # max policy with negative keys: 0.0 is the maximum
    ops = [("update", 0, -4.0), ("update", 1, -2.0), ("update", 2, 0.0), ("remove",), ("remove",), ("remove",)]
    ok &= run_history(3, "max", ops, "specific/max zero key is the largest")
    # a removed (BLACK) node handed to update() again: key recorded, nothing queued, later order unaffected
    ops = [("update", 0, 0.0), ("update", 1, 2.0), ("remove",), ("update", 0, 0.0), ("update", 2, 0.0), ("remove",), ("remove",), ("remove",)]
    ok &= run_history(3, "min", ops, "specific/update after removal")
    return ok


def main():
    n = seeded_campaign()
    print("seeded histories replayed against the original implementation:", n)
    specific_history()
    if FAILURES:
        print("RESULT: %d failure(s)" % len(FAILURES))
        return 1
    print("RESULT: OK")
    return 0


if __name__ == "__main__":
    sys.exit(main())
