"""Demo for pair C02/p1 (SupervisedOPF._find_prototypes rewritten with whole-array operations).

Exit status 0  : behaviour equals the original implementation (original code / clean.diff).
Exit status 1  : a difference from the original behaviour or a violation of property C02 was found.

Run as: cd /tmp/wt/C02 && PYTHONPATH=/tmp/wt/C02 /venv/bin/python demo.py
"""

import logging as _pylogging
import sys

import numpy as np

import opfython.utils.constants as c
from opfython.core import Heap, Subgraph
from opfython.models.semi_supervised import SemiSupervisedOPF
from opfython.models.supervised import SupervisedOPF

_pylogging.disable(_pylogging.CRITICAL)


# --------------------------------------------------------------------------------------
# Verbatim copy of the ORIGINAL SupervisedOPF._find_prototypes (reference implementation)
# --------------------------------------------------------------------------------------
def _ref_find_prototypes(self) -> None:
    """Find prototype nodes using the Minimum Spanning Tree (MST) approach."""

    h = Heap(self.subgraph.n_nodes)

    self.subgraph.nodes[0].pred = c.NIL

    h.insert(0)

    prototypes = []
    while not h.is_empty():
        p = h.remove()

        self.subgraph.nodes[p].cost = h.cost[p]

        pred = self.subgraph.nodes[p].pred
        if pred != c.NIL:
            if self.subgraph.nodes[p].label != self.subgraph.nodes[pred].label:
                if self.subgraph.nodes[p].status != c.PROTOTYPE:
                    self.subgraph.nodes[p].status = c.PROTOTYPE
                    prototypes.append(p)

                if self.subgraph.nodes[pred].status != c.PROTOTYPE:
                    self.subgraph.nodes[pred].status = c.PROTOTYPE
                    prototypes.append(pred)

        for q in range(self.subgraph.n_nodes):
            if h.color[q] != c.BLACK:
                if p != q:
                    if self.pre_computed_distance:
                        weight = self.pre_distances[self.subgraph.nodes[p].idx][
                            self.subgraph.nodes[q].idx
                        ]
                    else:
                        weight = self.distance_fn(
                            self.subgraph.nodes[p].features,
                            self.subgraph.nodes[q].features,
                        )

                    if weight < h.cost[q]:
                        self.subgraph.nodes[q].pred = p

                        h.update(q, weight)


class RefSupervisedOPF(SupervisedOPF):
    _find_prototypes = _ref_find_prototypes


class RefSemiSupervisedOPF(SemiSupervisedOPF):
    _find_prototypes = _ref_find_prototypes


# --------------------------------------------------------------------------------------
# Helpers
# --------------------------------------------------------------------------------------
FAILURES = []


def fail(msg):
    FAILURES.append(msg)
    print("MISMATCH:", msg)


def node_state(subgraph):
    return [
        (
            n.idx,
            n.label,
            n.predicted_label,
            n.status,
            n.pred,
            float(n.cost),
            n.relevant,
        )
        for n in subgraph.nodes
    ]


def make_opf(cls, metric, D):
    opf = cls(distance=metric)
    if D is not None:
        opf.pre_computed_distance = True
        opf.pre_distances = D
    return opf


def compare_case(name, X, Y, metric="log_squared_euclidean", D=None, I=None, X_test=None, I_test=None):
    """Runs the library code and the reference on the same input and compares every observable."""

    # (a) `_find_prototypes` alone, on a freshly built subgraph
    states = []
    for cls in (SupervisedOPF, RefSupervisedOPF):
        opf = make_opf(cls, metric, D)
        opf.subgraph = Subgraph(X, Y, I=I)
        opf._find_prototypes()
        states.append(node_state(opf.subgraph))
    if states[0] != states[1]:
        fail("%s: node state after _find_prototypes differs from the original" % name)

    # (b) the same, but called a second time on the same subgraph (stale status / pred)
    states = []
    for cls in (SupervisedOPF, RefSupervisedOPF):
        opf = make_opf(cls, metric, D)
        opf.subgraph = Subgraph(X, Y, I=I)
        opf._find_prototypes()
        opf._find_prototypes()
        states.append(node_state(opf.subgraph))
    if states[0] != states[1]:
        fail("%s: node state after repeated _find_prototypes differs" % name)

    # (c) complete fit + predict
    results = []
    for cls in (SupervisedOPF, RefSupervisedOPF):
        opf = make_opf(cls, metric, D)
        opf.fit(X, Y, I_train=I)
        preds = None
        if X_test is not None:
            preds = opf.predict(X_test, I_val=I_test)
        results.append((node_state(opf.subgraph), list(opf.subgraph.idx_nodes), preds))
    if results[0] != results[1]:
        fail("%s: fit / predict result differs from the original" % name)

    return [i for i, s in enumerate(results[0][0]) if s[3] == c.PROTOTYPE]


def compare_semi(name, X, Y, X_unl, metric="log_squared_euclidean"):
    results = []
    for cls in (SemiSupervisedOPF, RefSemiSupervisedOPF):
        opf = make_opf(cls, metric, None)
        opf.fit(X, Y, X_unl)
        results.append((node_state(opf.subgraph), list(opf.subgraph.idx_nodes)))
    if results[0] != results[1]:
        fail("%s: semi-supervised fit differs from the original" % name)


def mst_boundary_endpoints(W, Y):
    """Kruskal on a complete graph with pairwise distinct weights (unique MST)."""

    n = len(Y)
    arcs = sorted((W[i][j], i, j) for i in range(n) for j in range(i + 1, n))
    comp = list(range(n))

    def find(a):
        while comp[a] != a:
            comp[a] = comp[comp[a]]
            a = comp[a]
        return a

    endpoints = set()
    for _, i, j in arcs:
        ri, rj = find(i), find(j)
        if ri != rj:
            comp[ri] = rj
            if Y[i] != Y[j]:
                endpoints.update((i, j))
    return sorted(endpoints)


def sym_matrix(rng, n, tie_levels=None):
    """Random symmetric matrix; `tie_levels` -> small integer weights (many ties)."""

    if tie_levels:
        U = rng.randint(1, tie_levels + 1, size=(n, n)).astype(float)
    else:
        U = rng.rand(n, n) + 0.05
    D = np.triu(U, 1)
    return D + D.T


# --------------------------------------------------------------------------------------
# 1. Differential comparison on seeded inputs
# --------------------------------------------------------------------------------------
n_cases = 0

# 1a. random real-valued features, default metric, 2-4 classes
for seed in range(16):
    rng = np.random.RandomState(seed)
    n = rng.randint(4, 26)
    X = rng.rand(n, 3)
    Y = rng.randint(1, 2 + seed % 3 + 1, size=n)
    compare_case("float/seed%d" % seed, X, Y, X_test=rng.rand(7, 3))
    n_cases += 1

# 1b. tie-heavy: integer grid features (many equal distances, duplicated points)
for seed in range(12):
    rng = np.random.RandomState(100 + seed)
    n = rng.randint(5, 22)
    X = rng.randint(0, 3, size=(n, 2)).astype(float)
    Y = rng.randint(1, 4, size=n)
    metric = ["euclidean", "manhattan", "chebyshev", "squared_euclidean"][seed % 4]
    compare_case("grid/%s/seed%d" % (metric, seed), X, Y, metric=metric,
                 X_test=rng.randint(0, 3, size=(5, 2)).astype(float))
    n_cases += 1

# 1c. pre-computed distances (tied integer weights and distinct weights), identity and
#     non-identity indexes, plus an asymmetric matrix
for seed in range(12):
    rng = np.random.RandomState(200 + seed)
    m = rng.randint(8, 24)
    n = rng.randint(4, m - 1)
    D = sym_matrix(rng, m, tie_levels=3 if seed % 2 == 0 else None)
    if seed % 4 == 3:
        D = D + np.triu(rng.rand(m, m), 1)
    perm = rng.permutation(m)
    I = perm[:n] if seed % 3 else np.arange(n)
    I_test = perm[n:]
    X = rng.rand(n, 2)
    Y = rng.randint(1, 4, size=n)
    compare_case("precomputed/seed%d" % seed, X, Y, D=D, I=I,
                 X_test=rng.rand(len(I_test), 2), I_test=I_test)
    n_cases += 1

# 1d. class-sorted data sets (the usual layout of a data file) and single-class data
for seed in range(8):
    rng = np.random.RandomState(300 + seed)
    n = rng.randint(6, 20)
    X = rng.rand(n, 2)
    Y = np.sort(rng.randint(1, 4, size=n))
    if seed == 7:
        Y = np.ones(n, dtype=int)
    # (a single-class training set has no prototype: predict is undefined there, fit only)
    compare_case("sorted/seed%d" % seed, X, Y, X_test=rng.rand(4, 2) if seed != 7 else None)
    n_cases += 1

# 1e. degenerate sizes
compare_case("one-sample", np.array([[0.5, 0.5]]), np.array([1]))
compare_case("two-samples", np.array([[0.0, 0.0], [1.0, 0.0]]), np.array([1, 2]))
compare_case("all-equal", np.ones((6, 2)), np.array([1, 2, 1, 2, 1, 2]), D=np.ones((6, 6)))
n_cases += 3

# 1f. semi-supervised (inherits `_find_prototypes`)
for seed in range(6):
    rng = np.random.RandomState(400 + seed)
    n = rng.randint(5, 15)
    compare_semi("semi/seed%d" % seed, rng.rand(n, 2), rng.randint(1, 4, size=n), rng.rand(6, 2))
    n_cases += 1

# --------------------------------------------------------------------------------------
# 2. Property check on inputs whose MST is unique (all pairwise weights distinct):
#    prototypes == endpoints of the class-crossing MST arcs
# --------------------------------------------------------------------------------------
# 2a. six points on a line, classes stored one after the other (1 1 1 2 2 2): the only
#     class-crossing tree arc is (2, 3).  The first and the last sample carry different
#     labels but are NOT joined by a tree arc.
X_line = np.array([[0.0], [1.0], [2.1], [3.3], [4.6], [6.0]])
Y_line = np.array([1, 1, 1, 2, 2, 2])
W_line = np.abs(X_line - X_line.T)
expected = mst_boundary_endpoints(W_line, Y_line)
got = compare_case("line", X_line, Y_line, metric="manhattan", X_test=np.array([[0.2], [5.5]]))
if got != expected:
    fail("line: prototypes %s, class-boundary endpoints of the MST are %s" % (got, expected))
n_cases += 1

# 2b. random pre-computed graphs with distinct weights, labels sorted by class
for seed in range(10):
    rng = np.random.RandomState(500 + seed)
    n = rng.randint(6, 16)
    W = sym_matrix(rng, n)
    Y = np.sort(rng.randint(1, 4, size=n))
    if Y[0] == Y[-1]:
        Y[-1] = Y[0] + 1
    expected = mst_boundary_endpoints(W, Y)
    got = compare_case("kruskal/seed%d" % seed, rng.rand(n, 2), Y, D=W)
    if got != expected:
        fail("kruskal/seed%d: prototypes %s, MST class-boundary endpoints %s" % (seed, got, expected))
    n_cases += 1

print("%d cases compared, %d mismatches" % (n_cases, len(FAILURES)))
sys.exit(1 if FAILURES else 0)
