"""C19 / p2 demo - a saved and re-loaded model behaves identically to the original.

Exit status 0 : the library's save / load behave exactly like the original ones.
Exit status 1 : some difference has been observed (it is printed).

Part 1 runs 36 seeded scenarios (4 model kinds x several metrics x with / without
pre-computed distances x tie-heavy / continuous data) and compares, for each one,
the library's save / load against a verbatim copy of the original functions:
forest state of the re-loaded model, predictions, original left untouched. The
models are re-loaded into freshly constructed (default arguments) models.

Part 2 holds the situations that matter for broken.diff: the freshly constructed
model was built for another metric than the saved one, a user supplied distance
function, a file written by the original code (legacy_supervised.pkl, optional).
"""

import logging
import os
import pickle
import sys
import tempfile

import warnings

import numpy as np

warnings.filterwarnings("ignore")
logging.disable(logging.CRITICAL)

import opfython.math.distance as d  # noqa: E402
from opfython.models.knn_supervised import KNNSupervisedOPF  # noqa: E402
from opfython.models.semi_supervised import SemiSupervisedOPF  # noqa: E402
from opfython.models.supervised import SupervisedOPF  # noqa: E402
from opfython.models.unsupervised import UnsupervisedOPF  # noqa: E402

FAILURES = []


def check(cond, msg):
    if not cond:
        FAILURES.append(msg)
        print("MISMATCH:", msg)


# --------------------------------------------------------------------------
# Reference: verbatim copy of the original OPF.load / OPF.save bodies
# --------------------------------------------------------------------------
def ref_load(self, file_name):
    with open(file_name, "rb") as origin_file:
        opf = pickle.load(origin_file)

        self.__dict__.update(opf.__dict__)


def ref_save(self, file_name):
    with open(file_name, "wb") as dest_file:
        pickle.dump(self, dest_file)


# --------------------------------------------------------------------------
# Canonical, type-aware snapshot of everything a model holds
# --------------------------------------------------------------------------
def canon(obj):
    if isinstance(obj, np.ndarray):
        return ("ndarray", str(obj.dtype), obj.shape, obj.tobytes())
    if isinstance(obj, np.generic):
        return (type(obj).__name__, obj.tobytes())
    if isinstance(obj, bool) or obj is None or isinstance(obj, (int, str)):
        return (type(obj).__name__, obj)
    if isinstance(obj, float):
        return ("float", obj.hex())
    if isinstance(obj, (list, tuple)):
        return (type(obj).__name__, [canon(o) for o in obj])
    if isinstance(obj, dict):
        return ("dict", sorted((k, canon(v)) for k, v in obj.items()))
    if hasattr(obj, "__dict__") and not callable(obj):
        return (type(obj).__module__, type(obj).__name__, canon(vars(obj)))
    if callable(obj):
        registry = [k for k, v in d.DISTANCES.items() if v is obj]
        return ("callable", getattr(obj, "__name__", repr(obj)), registry)
    raise TypeError("cannot snapshot %r" % (obj,))


def first_diff(a, b, path="model"):
    """Human readable location of the first difference between two snapshots."""
    if type(a) is not type(b):
        return "%s: %r vs %r" % (path, a, b)
    if isinstance(a, (list, tuple)):
        if len(a) != len(b):
            return "%s: length %d vs %d" % (path, len(a), len(b))
        for i, (x, y) in enumerate(zip(a, b)):
            if x != y:
                label = x[0] if isinstance(x, tuple) and isinstance(x[0], str) else i
                return first_diff(x, y, "%s/%s" % (path, label))
        return None
    return None if a == b else "%s: %r vs %r" % (path, a, b)


# --------------------------------------------------------------------------
# Scenarios
# --------------------------------------------------------------------------
KINDS = {
    "sup": SupervisedOPF,
    "semi": SemiSupervisedOPF,
    "knn": KNNSupervisedOPF,
    "unsup": UnsupervisedOPF,
}
METRICS = [
    "log_squared_euclidean",
    "euclidean",
    "manhattan",
    "chebyshev",
    "bray_curtis",
    "canberra",
]


def make_data(rng, n, dim, ties):
    if ties:
        X = rng.integers(1, 4, size=(n, dim)).astype(float)
    else:
        X = rng.random((n, dim)) + 0.1
    Y = (np.arange(n) % 3) + 1
    rng.shuffle(Y)
    return X, Y


def make_matrix(rng, n, style, tmp, tag):
    if style == "ties":
        D = rng.integers(1, 5, size=(n, n)).astype(float)
    elif style == "sym":
        D = rng.random((n, n))
        D = D + D.T
    else:
        D = rng.random((n, n)) * 3.0
    np.fill_diagonal(D, 0.0)
    path = os.path.join(tmp, "dist_%s.txt" % tag)
    np.savetxt(path, D, fmt="%.17g", delimiter=" ")
    return path


def build(kind, seed, metric, pre_style, ties, tmp):
    """Returns (fitted model, predict callable taking a model)."""
    rng = np.random.default_rng(seed)
    n_tr, n_aux, n_te, dim = 18, 8, 10, 3
    total = n_tr + n_aux + n_te
    X, Y = make_data(rng, total, dim, ties)

    if pre_style:
        n_matrix = n_tr if kind in ("knn", "unsup") else total
        pre = make_matrix(rng, n_matrix, pre_style, tmp, "%s_%d" % (kind, seed))
        ids = rng.permutation(n_matrix)
    else:
        pre, ids = None, None

    # every block of samples holds all the classes
    for lo, hi in ((0, n_tr), (n_tr, n_tr + n_aux), (n_tr + n_aux, total)):
        Y[lo:hi] = rng.permutation((np.arange(hi - lo) % 3) + 1)

    X_tr, Y_tr = X[:n_tr], Y[:n_tr]
    X_aux, Y_aux = X[n_tr : n_tr + n_aux], Y[n_tr : n_tr + n_aux]
    X_te = X[n_tr + n_aux :]

    def pick(lo, hi):
        if ids is None:
            return None
        if len(ids) >= hi:
            return ids[lo:hi].copy()
        return rng.integers(0, len(ids), size=hi - lo)

    I_tr = ids[:n_tr].copy() if ids is not None else None
    I_aux = pick(n_tr, n_tr + n_aux)
    I_te = pick(n_tr + n_aux, total)

    if kind == "sup":
        model = SupervisedOPF(distance=metric, pre_computed_distance=pre)
        model.fit(X_tr, Y_tr, I_train=I_tr)
        model.predict(X_aux, I_val=I_aux)  # leaves relevance marks on the forest
    elif kind == "semi":
        model = SemiSupervisedOPF(distance=metric, pre_computed_distance=pre)
        model.fit(X_tr, Y_tr, X_aux, I_train=I_tr, I_unlabeled=I_aux)
    elif kind == "knn":
        model = KNNSupervisedOPF(max_k=3, distance=metric, pre_computed_distance=pre)
        model.fit(X_tr, Y_tr, X_aux, Y_aux, I_train=I_tr, I_val=I_aux)
    else:
        model = UnsupervisedOPF(
            min_k=1, max_k=3, distance=metric, pre_computed_distance=pre
        )
        model.fit(X_tr, Y_tr, I_train=I_tr)
        model.propagate_labels()

    def predict(m):
        return m.predict(X_te, I_te)

    return model, predict


def scenarios():
    seed = 1000
    for kind in KINDS:
        for i, metric in enumerate(METRICS):
            seed += 1
            yield kind, seed, metric, None, bool(i % 2)
        for pre_style in ("ties", "asym", "sym"):
            seed += 1
            yield kind, seed, "log_squared_euclidean", pre_style, pre_style == "ties"


def run_scenario(kind, seed, metric, pre_style, ties, tmp):
    tag = "%s/seed=%d/%s/pre=%s/ties=%s" % (kind, seed, metric, pre_style, ties)
    model, predict = build(kind, seed, metric, pre_style, ties, tmp)

    before = canon(model)

    lib_path = os.path.join(tmp, "lib_%d.pkl" % seed)
    ref_path = os.path.join(tmp, "ref_%d.pkl" % seed)

    model.save(lib_path)
    check(canon(model) == before, tag + ": saving altered the original model")
    ref_save(model, ref_path)

    loaded = KINDS[kind]()
    loaded.load(lib_path)
    expected = KINDS[kind]()
    ref_load(expected, ref_path)
    cross = KINDS[kind]()
    cross.load(ref_path)

    for name, other in (("loaded", loaded), ("reference", expected), ("cross", cross)):
        diff = first_diff(before, canon(other))
        check(diff is None, "%s: %s state differs from the original -> %s" % (tag, name, diff))

    out = predict(model)
    for name, other in (("loaded", loaded), ("reference", expected), ("cross", cross)):
        check(predict(other) == out, "%s: %s predictions differ" % (tag, name))
        diff = first_diff(canon(model), canon(other))
        check(diff is None, "%s: %s state differs after predicting -> %s" % (tag, name, diff))


def weighted_manhattan(x, y):
    """A user supplied metric (module level, hence picklable by reference)."""
    return float(np.sum(np.abs(x - y) * np.arange(1, x.shape[0] + 1)))


def other_metric_target(tmp):
    """The model that receives the file had been constructed for another metric."""
    rng = np.random.default_rng(4242)
    X, Y = make_data(rng, 30, 4, False)
    X[:, 0] *= 6.0  # the metrics disagree on who is the closest sample
    X_te = rng.random((25, 4)) + 0.1
    X_te[:, 0] *= 6.0

    n_diff = 0
    for i, (saved_metric, target_metric) in enumerate(
        [
            ("chebyshev", "log_squared_euclidean"),
            ("manhattan", "chebyshev"),
            ("canberra", "euclidean"),
            ("log_squared_euclidean", "bray_curtis"),
        ]
    ):
        path = os.path.join(tmp, "metric_%d.pkl" % i)
        for cls in (SupervisedOPF, KNNSupervisedOPF):
            model = cls(distance=saved_metric)
            if cls is SupervisedOPF:
                model.fit(X[:20], Y[:20])
            else:
                model.fit(X[:20], Y[:20], X[20:], Y[20:])
            model.save(path)

            loaded = cls(distance=target_metric)
            loaded.load(path)

            tag = "%s saved with %s, loaded into a %s model" % (
                cls.__name__,
                saved_metric,
                target_metric,
            )
            check(loaded.distance == saved_metric, tag + ": metric name")
            check(
                loaded.distance_fn is d.DISTANCES[saved_metric],
                tag + ": distance function is not the saved model's one",
            )
            diff = first_diff(canon(model), canon(loaded))
            check(diff is None, tag + ": state -> %s" % diff)
            out = model.predict(X_te)
            check(loaded.predict(X_te) == out, tag + ": predictions differ")

            stale = cls(distance=target_metric)
            if cls is SupervisedOPF:
                stale.fit(X[:20], Y[:20])
            else:
                stale.fit(X[:20], Y[:20], X[20:], Y[20:])
            n_diff += stale.predict(X_te) != out

    # the metrics above must really matter, otherwise the check would be vacuous
    check(n_diff >= 4, "sanity: metrics give the same predictions (%d)" % n_diff)


def custom_metric(tmp):
    """A callable assigned through the `distance_fn` setter survives the round trip."""
    rng = np.random.default_rng(99)
    X, Y = make_data(rng, 24, 3, True)
    X_te = rng.integers(1, 4, size=(15, 3)).astype(float)
    path = os.path.join(tmp, "custom.pkl")

    model = SupervisedOPF(distance="euclidean")
    model.distance_fn = weighted_manhattan
    model.fit(X, Y)
    model.save(path)

    loaded = SupervisedOPF()
    loaded.load(path)

    check(loaded.distance_fn is weighted_manhattan, "custom metric: function lost")
    diff = first_diff(canon(model), canon(loaded))
    check(diff is None, "custom metric: state -> %s" % diff)
    check(loaded.predict(X_te) == model.predict(X_te), "custom metric: predictions")


LEGACY_X_TE = [[0.3, 2.5], [2.2, 0.4], [1.1, 1.2], [2.9, 2.8], [0.2, 0.1], [1.6, 2.9]]


def legacy_file():
    """A file written by the original code (it carries the pickled metric)."""
    here = os.path.dirname(os.path.abspath(__file__))
    path = os.path.join(here, "legacy_supervised.pkl")
    expected = os.path.join(here, "legacy_supervised.json")
    if not (os.path.isfile(path) and os.path.isfile(expected)):
        print("legacy file not found next to demo.py - skipped")
        return

    import json

    with open(expected) as f:
        expected = json.load(f)

    loaded = SupervisedOPF()
    loaded.load(path)

    check(loaded.distance == "manhattan", "legacy file: metric name")
    check(
        getattr(loaded.distance_fn, "__name__", "") == "manhattan_distance",
        "legacy file: function",
    )
    check(
        [float(n.cost).hex() for n in loaded.subgraph.nodes] == expected["costs"],
        "legacy file: costs",
    )
    check(loaded.subgraph.idx_nodes == expected["idx_nodes"], "legacy file: order")
    check(
        loaded.predict(np.asarray(LEGACY_X_TE)) == expected["preds"],
        "legacy file: predictions",
    )


def main():
    with tempfile.TemporaryDirectory() as tmp:
        n = 0
        for args in scenarios():
            run_scenario(*args, tmp)
            n += 1
        print("scenarios compared against the original save/load: %d" % n)

        other_metric_target(tmp)
        custom_metric(tmp)
        legacy_file()

    if FAILURES:
        print("FAILED: %d mismatches" % len(FAILURES))
        return 1

    print("OK")
    return 0


if __name__ == "__main__":
    sys.exit(main())
