"""Demo for C02 / p1: exits 0 on the original code and with clean.diff, non-zero with broken.diff."""
import logging
import sys
import time
import warnings
from typing import List, Optional

import numpy as np

logging.disable(logging.CRITICAL)  # keep the library quiet (and opfython.log untouched)
warnings.simplefilter("ignore")  # deprecated spellings are exercised on purpose

import opfython.math.distance as distance
import opfython.utils.exception as e
from opfython.core import Node, Subgraph
from opfython.models import SemiSupervisedOPF, SupervisedOPF

# ---------------------------------------------------------------------------
# REFERENCE: verbatim copies of the original code (Heap, SupervisedOPF.
# _find_prototypes / fit, SemiSupervisedOPF.fit).  Only the class headers and
# the tiny constructor of the Ref* classes are new.
# ---------------------------------------------------------------------------
class c:  # opfython.utils.constants, inlined
    EPSILON = 1e-20
    FLOAT_MAX = sys.float_info.max
    WHITE, GRAY, BLACK = 0, 1, 2
    NIL = -1
    STANDARD, PROTOTYPE = 0, 1
    IRRELEVANT, RELEVANT = 0, 1


class _Quiet:
    def debug(self, *a, **k):
        pass

    info = warning = error = debug


logger = _Quiet()


class Heap:
    """A standard implementation of a Heap structure."""

    def __init__(self, size: int = 1, policy: str = "min") -> None:
        """Initialization method.

        Args:
            size: Maximum size of the heap.
            policy: Heap's policy (`min` or `max`).

        """

        self.size = size
        self.policy = policy

        self.cost = [c.FLOAT_MAX for i in range(size)]
        self.color = [c.WHITE for i in range(size)]
        self.p = [-1 for i in range(size)]
        self.pos = [-1 for i in range(size)]

        self.last = -1

    @property
    def size(self) -> int:
        """Maximum size of the heap."""

        return self._size

    @size.setter
    def size(self, size: int) -> None:
        if not isinstance(size, int):
            raise e.TypeError("`size` should be an integer")
        if size < 1:
            raise e.ValueError("`size` should be > 0")

        self._size = size

    @property
    def policy(self) -> str:
        """Policy that rules the heap."""

        return self._policy

    @policy.setter
    def policy(self, policy: str) -> None:
        if policy not in ["min", "max"]:
            raise e.ValueError("`policy` should be `min` or `max`")

        self._policy = policy

    @property
    def cost(self) -> List[float]:
        """List of nodes' costs."""

        return self._cost

    @cost.setter
    def cost(self, cost: List[float]) -> None:
        if not isinstance(cost, list):
            raise e.TypeError("`cost` should be a list")

        self._cost = cost

    @property
    def color(self) -> List[int]:
        """List of nodes' colors."""

        return self._color

    @color.setter
    def color(self, color: List[int]) -> None:
        if not isinstance(color, list):
            raise e.TypeError("`color` should be a list")

        self._color = color

    @property
    def p(self) -> List[int]:
        """List of nodes' values."""

        return self._p

    @p.setter
    def p(self, p: List[int]) -> None:
        if not isinstance(p, list):
            raise e.TypeError("`p` should be a list")

        self._p = p

    @property
    def pos(self) -> List[int]:
        """List of nodes' positioning markers."""

        return self._pos

    @pos.setter
    def pos(self, pos: List[int]) -> None:
        if not isinstance(pos, list):
            raise e.TypeError("`pos` should be a list")

        self._pos = pos

    @property
    def last(self) -> int:
        """Last element identifier."""

        return self._last

    @last.setter
    def last(self, last: int) -> None:
        if not isinstance(last, int):
            raise e.TypeError("`last` should be an integer")
        if last < -1:
            raise e.ValueError("`last` should be > -1")

        self._last = last

    def is_full(self) -> bool:
        """Checks if the heap is full.

        Returns:
            (bool): A boolean indicating whether the heap is full.

        """

        if self.last == (self.size - 1):
            return True

        return False

    def is_empty(self) -> bool:
        """Checks if the heap is empty.

        Returns:
            (bool): A boolean indicating whether the heap is empty.

        """

        if self.last == -1:
            return True

        return False

    def dad(self, i: int) -> int:
        """Gathers the position of the node's dad.

        Args:
            i: Node's position.

        Returns:
            (int): The position of node's dad.

        """

        return int(((i - 1) / 2))

    def left_son(self, i: int) -> int:
        """Gathers the position of the node's left son.

        Args:
            i: Node's position.

        Returns:
            (int): The position of node's left son

        """

        return int((2 * i + 1))

    def right_son(self, i: int) -> int:
        """Gathers the position of the node's right son.

        Args:
            i: Node's position.

        Returns:
            (int): The position of node's right son.

        """

        return int((2 * i + 2))

    def go_up(self, i: int) -> None:
        """Goes up in the heap.

        Args:
            i: Position to be achieved.

        """

        j = self.dad(i)

        if self.policy == "min":
            # While the heap exists and the cost of post-node is bigger than current node
            while i > 0 and self.cost[self.p[j]] > self.cost[self.p[i]]:
                self.p[j], self.p[i] = self.p[i], self.p[j]

                self.pos[self.p[i]] = i
                self.pos[self.p[j]] = j

                i = j
                j = self.dad(i)

        else:
            # While the heap exists and the cost of post-node is smaller than current node
            while i > 0 and self.cost[self.p[j]] < self.cost[self.p[i]]:
                self.p[j], self.p[i] = self.p[i], self.p[j]

                self.pos[self.p[i]] = i
                self.pos[self.p[j]] = j

                i = j
                j = self.dad(i)

    def go_down(self, i: int) -> None:
        """Goes down in the heap.

        Args:
            i: Position to be achieved.

        """

        left = self.left_son(i)
        right = self.right_son(i)

        j = i

        if self.policy == "min":
            # Checks if left node is not the last and its cost is smaller than previous
            if left <= self.last and self.cost[self.p[left]] < self.cost[self.p[i]]:
                j = left

            # Checks if right node is not the last and its cost is smaller than previous
            if right <= self.last and self.cost[self.p[right]] < self.cost[self.p[j]]:
                j = right

        else:
            # Checks if left node is not the last and its cost is bigger than previous
            if left <= self.last and self.cost[self.p[left]] > self.cost[self.p[i]]:
                j = left

            # Checks if right node is not the last and its cost is bigger than previous
            if right <= self.last and self.cost[self.p[right]] > self.cost[self.p[j]]:
                j = right

        if j != i:
            self.p[j], self.p[i] = self.p[i], self.p[j]

            self.pos[self.p[i]] = i
            self.pos[self.p[j]] = j

            self.go_down(j)

    def insert(self, p: int) -> bool:
        """Inserts a new node into the heap.

        Args:
            p: Node's value to be inserted.

        Returns:
            (bool): Boolean indicating whether insertion was performed correctly.

        """

        if not self.is_full():
            self.last += 1

            self.p[self.last] = p
            self.color[p] = c.GRAY
            self.pos[p] = self.last

            self.go_up(self.last)

            return True

        return False

    def remove(self) -> int:
        """Removes a node from the heap.

        Returns:
            (int): The removed node value.

        """

        if not self.is_empty():
            p = self.p[0]

            self.pos[p] = -1
            self.color[p] = c.BLACK

            self.p[0] = self.p[self.last]

            self.pos[self.p[0]] = 0
            self.p[self.last] = -1

            self.last -= 1

            self.go_down(0)

            return p

        return False

    def update(self, p: int, cost: float) -> None:
        """Updates a node with a new value.

        Args:
            p: Node's position.
            cost: Node's cost.

        """

        self.cost[p] = cost

        if self.color[p] == c.BLACK:
            pass

        if self.color[p] == c.WHITE:
            self.insert(p)
        else:
            self.go_up(self.pos[p])


class RefSupervisedOPF:
    def __init__(self, distance_fn, pre_distances=None):
        self.subgraph = None
        self.distance_fn = distance_fn
        self.pre_computed_distance = pre_distances is not None
        self.pre_distances = pre_distances

    def _find_prototypes(self) -> None:
        """Find prototype nodes using the Minimum Spanning Tree (MST) approach."""

        logger.debug("Finding prototypes ...")

        h = Heap(self.subgraph.n_nodes)

        self.subgraph.nodes[0].pred = c.NIL

        h.insert(0)

        prototypes = []
        while not h.is_empty():
            p = h.remove()

            self.subgraph.nodes[p].cost = h.cost[p]

            pred = self.subgraph.nodes[p].pred
            if pred != c.NIL:
                if self.subgraph.nodes[p].label != self.subgraph.nodes[pred].label:
                    if self.subgraph.nodes[p].status != c.PROTOTYPE:
                        self.subgraph.nodes[p].status = c.PROTOTYPE
                        prototypes.append(p)

                    if self.subgraph.nodes[pred].status != c.PROTOTYPE:
                        self.subgraph.nodes[pred].status = c.PROTOTYPE
                        prototypes.append(pred)

            for q in range(self.subgraph.n_nodes):
                if h.color[q] != c.BLACK:
                    if p != q:
                        if self.pre_computed_distance:
                            weight = self.pre_distances[self.subgraph.nodes[p].idx][
                                self.subgraph.nodes[q].idx
                            ]
                        else:
                            weight = self.distance_fn(
                                self.subgraph.nodes[p].features,
                                self.subgraph.nodes[q].features,
                            )

                        if weight < h.cost[q]:
                            self.subgraph.nodes[q].pred = p

                            h.update(q, weight)

        logger.debug("Prototypes: %s.", prototypes)

    def fit(
        self, X_train: np.array, Y_train: np.array, I_train: Optional[np.array] = None
    ) -> None:
        """Fits data in the classifier.

        Args:
            X_train: Array of training features.
            Y_train: Array of training labels.
            I_train: Array of training indexes.

        """

        logger.info("Fitting classifier ...")

        start = time.time()

        self.subgraph = Subgraph(X_train, Y_train, I=I_train)

        self._find_prototypes()

        h = Heap(size=self.subgraph.n_nodes)

        for i in range(self.subgraph.n_nodes):
            if self.subgraph.nodes[i].status == c.PROTOTYPE:
                self.subgraph.nodes[i].pred = c.NIL
                self.subgraph.nodes[i].predicted_label = self.subgraph.nodes[i].label

                h.cost[i] = 0
                h.insert(i)
            else:
                h.cost[i] = c.FLOAT_MAX

        while not h.is_empty():
            p = h.remove()

            self.subgraph.idx_nodes.append(p)
            self.subgraph.nodes[p].cost = h.cost[p]

            for q in range(self.subgraph.n_nodes):
                if p != q:
                    if h.cost[p] < h.cost[q]:
                        if self.pre_computed_distance:
                            weight = self.pre_distances[self.subgraph.nodes[p].idx][
                                self.subgraph.nodes[q].idx
                            ]
                        else:
                            weight = self.distance_fn(
                                self.subgraph.nodes[p].features,
                                self.subgraph.nodes[q].features,
                            )

                        # The current cost will be the maximum cost between the node's and its weight (arc)
                        current_cost = np.maximum(h.cost[p], weight)

                        if current_cost < h.cost[q]:
                            self.subgraph.nodes[q].pred = p
                            self.subgraph.nodes[
                                q
                            ].predicted_label = self.subgraph.nodes[p].predicted_label

                            h.update(q, current_cost)

        self.subgraph.trained = True

        end = time.time()

        train_time = end - start

        logger.info("Classifier has been fitted.")
        logger.info("Training time: %s seconds.", train_time)

    def predict(self, X_val: np.array, I_val: Optional[np.array] = None) -> List[int]:
        """Predicts new data using the pre-trained classifier.

        Args:
            X_val: Array of validation or test features.
            I_val: Array of validation or test indexes.

        Returns:
            (List[int]): A list of predictions for each record of the data.

        """

        if not self.subgraph:
            raise e.BuildError("Subgraph has not been properly created")

        if not self.subgraph.trained:
            raise e.BuildError("Classifier has not been properly fitted")

        logger.info("Predicting data ...")

        start = time.time()

        pred_subgraph = Subgraph(X_val, I=I_val)

        for i in range(pred_subgraph.n_nodes):
            j = 0

            k = self.subgraph.idx_nodes[j]
            conqueror = k

            if self.pre_computed_distance:
                weight = self.pre_distances[self.subgraph.nodes[k].idx][
                    pred_subgraph.nodes[i].idx
                ]
            else:
                weight = self.distance_fn(
                    self.subgraph.nodes[k].features, pred_subgraph.nodes[i].features
                )

            # The minimum cost will be the maximum between the `k` node cost and its weight (arc)
            min_cost = np.maximum(self.subgraph.nodes[k].cost, weight)

            # The current label will be `k` node's predicted label
            current_label = self.subgraph.nodes[k].predicted_label

            # While `j` is a possible node and the minimum cost is bigger than the current node's cost
            while (
                j < (self.subgraph.n_nodes - 1)
                and min_cost > self.subgraph.nodes[self.subgraph.idx_nodes[j + 1]].cost
            ):
                l = self.subgraph.idx_nodes[j + 1]

                if self.pre_computed_distance:
                    weight = self.pre_distances[self.subgraph.nodes[l].idx][
                        pred_subgraph.nodes[i].idx
                    ]
                else:
                    weight = self.distance_fn(
                        self.subgraph.nodes[l].features, pred_subgraph.nodes[i].features
                    )

                # The temporary minimum cost will be the maximum between the `l` node cost and its weight (arc)
                temp_min_cost = np.maximum(self.subgraph.nodes[l].cost, weight)
                if temp_min_cost < min_cost:
                    min_cost = temp_min_cost
                    conqueror = l
                    current_label = self.subgraph.nodes[l].predicted_label

                j += 1
                k = l

            # Node's `i` predicted label is the same as current label
            pred_subgraph.nodes[i].predicted_label = current_label

            if conqueror > -1:
                self.subgraph.mark_nodes(conqueror)

        preds = [pred.predicted_label for pred in pred_subgraph.nodes]

        end = time.time()

        predict_time = end - start

        logger.info("Data has been predicted.")
        logger.info("Prediction time: %s seconds.", predict_time)

        return preds


class RefSemiSupervisedOPF(RefSupervisedOPF):
    def fit(
        self,
        X_train: np.array,
        Y_train: np.array,
        X_unlabeled: np.array,
        I_train: Optional[np.array] = None,
        I_unlabeled: Optional[np.array] = None,
    ) -> None:
        """Fits data in the semi-supervised classifier.

        Args:
            X_train: Array of training features.
            Y_train: Array of training labels.
            X_unlabeled: Array of unlabeled features.
            I_train: Array of training indexes.
            I_unlabeled: Array of unlabeled indexes.

        """

        logger.info("Fitting semi-supervised classifier ...")

        start = time.time()

        self.subgraph = Subgraph(X_train, Y_train, I_train)

        self._find_prototypes()

        current_n_nodes = self.subgraph.n_nodes
        for i, feature in enumerate(X_unlabeled):
            if I_unlabeled is not None:
                node = Node(I_unlabeled[i].item(), 0, feature)
            else:
                node = Node(current_n_nodes + i, 0, feature)

            self.subgraph.nodes.append(node)

        h = Heap(size=self.subgraph.n_nodes)

        for i in range(self.subgraph.n_nodes):
            if self.subgraph.nodes[i].status == c.PROTOTYPE:
                self.subgraph.nodes[i].pred = c.NIL
                self.subgraph.nodes[i].predicted_label = self.subgraph.nodes[i].label

                h.cost[i] = 0
                h.insert(i)
            else:
                h.cost[i] = c.FLOAT_MAX

        while not h.is_empty():
            p = h.remove()

            self.subgraph.idx_nodes.append(p)
            self.subgraph.nodes[p].cost = h.cost[p]

            for q in range(self.subgraph.n_nodes):
                if p != q:
                    if h.cost[p] < h.cost[q]:
                        if self.pre_computed_distance:
                            weight = self.pre_distances[self.subgraph.nodes[p].idx][
                                self.subgraph.nodes[q].idx
                            ]
                        else:
                            weight = self.distance_fn(
                                self.subgraph.nodes[p].features,
                                self.subgraph.nodes[q].features,
                            )

                        current_cost = np.maximum(h.cost[p], weight)
                        if current_cost < h.cost[q]:
                            self.subgraph.nodes[q].pred = p
                            self.subgraph.nodes[
                                q
                            ].predicted_label = self.subgraph.nodes[p].predicted_label

                            # As we may have unlabeled nodes, make sure that `q` label equals to `q` predicted label
                            self.subgraph.nodes[q].label = self.subgraph.nodes[
                                q
                            ].predicted_label

                            h.update(q, current_cost)

        self.subgraph.trained = True

        end = time.time()

        train_time = end - start

        logger.info("Semi-supervised classifier has been fitted.")
        logger.info("Training time: %s seconds.", train_time)

# ---------------------------------------------------------------------------
# Helpers
# ---------------------------------------------------------------------------
FAILURES = []


def fail(msg):
    FAILURES.append(msg)
    print("FAIL:", msg)


def snap(subgraph):
    """Everything observable on a trained subgraph (types included, via repr)."""
    nodes = [
        (n.idx, n.label, n.predicted_label, n.status, n.pred, repr(n.cost), n.relevant)
        for n in subgraph.nodes
    ]
    return nodes, list(subgraph.idx_nodes), subgraph.trained


def same(tag, got, want):
    if got != want:
        fail(f"{tag}: result differs from the original implementation")
        return False
    return True


def kruskal_prototypes(W, Y):
    """Prototype set dictated by the property, for DISTINCT weights: endpoints of the
    arcs of the unique minimum spanning tree that join different classes."""
    n = len(Y)
    arcs = sorted((W[i][j], i, j) for i in range(n) for j in range(i + 1, n))
    assert len({w for w, _, _ in arcs}) == len(arcs), "weights must be distinct"
    parent = list(range(n))

    def find(x):
        while parent[x] != x:
            parent[x] = parent[parent[x]]
            x = parent[x]
        return x

    protos = set()
    for w, i, j in arcs:
        ri, rj = find(i), find(j)
        if ri != rj:
            parent[ri] = rj
            if Y[i] != Y[j]:
                protos.update((i, j))
    return protos


def check_property(tag, subgraph, W, Y):
    """The stated property on a trained subgraph whose arc weights are W (distinct)."""
    want = kruskal_prototypes(W, Y)
    got = {i for i, n in enumerate(subgraph.nodes) if n.status == c.PROTOTYPE}
    ok = True
    if got != want:
        fail(f"{tag}: prototypes {sorted(got)} but the MST class-boundary endpoints are {sorted(want)}")
        ok = False
    if {Y[i] for i in got} != set(Y):
        fail(f"{tag}: some class has no prototype")
        ok = False
    for i in got:
        n = subgraph.nodes[i]
        if n.cost != 0 or n.predicted_label != Y[i] or n.label != Y[i] or n.pred != c.NIL:
            fail(f"{tag}: prototype {i} does not keep cost 0 / its own label")
            ok = False
    return ok


def sym_matrix(rng, size, ties):
    if ties:
        A = rng.integers(1, 4, (size, size)).astype(float)
    else:
        A = rng.random((size, size)) + 0.05
    M = np.triu(A, 1)
    return M + M.T


def distinct_matrix(rng, size):
    """Symmetric matrix whose off-diagonal weights are pairwise distinct."""
    m = size * (size - 1) // 2
    vals = rng.permutation(m).astype(float) + 1.0 + rng.random(m) * 0.5
    M = np.zeros((size, size))
    M[np.triu_indices(size, 1)] = vals
    return M + M.T


def make_case(seed):
    rng = np.random.default_rng(1000 + seed)
    n = int(rng.integers(5, 13))
    k = int(rng.integers(2, 5))
    Y = rng.integers(1, k + 1, n)
    Y[0], Y[1] = 1, 2
    ties = seed % 3 == 0
    if ties:
        X = rng.integers(0, 3, (n, 2)).astype(float)
    else:
        X = rng.random((n, 3))
    size = n + int(rng.integers(3, 8))
    M = sym_matrix(rng, size, ties)
    perm = rng.permutation(size)
    return rng, n, X, Y, M, perm, ties

# ---------------------------------------------------------------------------
# (1) Differential run against the original implementation
# ---------------------------------------------------------------------------
METRICS = ["log_squared_euclidean", "euclidean", "manhattan", "squared_euclidean"]


def run_case(seed):
    rng, n, X, Y, M, perm, ties = make_case(seed)
    metric = METRICS[seed % len(METRICS)]
    tag = f"seed {seed} ({'ties' if ties else 'random'}, n={n})"
    I = perm[:n].copy()
    I_val = perm[n:].copy()
    X_val = rng.random((len(I_val), X.shape[1]))

    # a) features, no indexes
    opf = SupervisedOPF(distance=metric)
    ref = RefSupervisedOPF(distance.DISTANCES[metric])
    opf.fit(X.copy(), Y.copy())
    ref.fit(X.copy(), Y.copy())
    same(tag + " fit(X, Y)", snap(opf.subgraph), snap(ref.subgraph))
    same(tag + " predict(X_val)", opf.predict(X_val), ref.predict(X_val))
    same(tag + " marks", snap(opf.subgraph), snap(ref.subgraph))

    # b) pre-computed distances, indexes given positionally / by the historical keywords
    for spelling in ("positional", "keyword"):
        opf = SupervisedOPF(distance=metric)
        opf.pre_computed_distance = True
        opf.pre_distances = M
        ref = RefSupervisedOPF(distance.DISTANCES[metric], M)
        if spelling == "positional":
            opf.fit(X.copy(), Y.copy(), I)
            ref.fit(X.copy(), Y.copy(), I)
            got, want = opf.predict(X_val, I_val), ref.predict(X_val, I_val)
        else:
            opf.fit(X.copy(), Y.copy(), I_train=I)
            ref.fit(X.copy(), Y.copy(), I_train=I)
            got, want = opf.predict(X_val, I_val=I_val), ref.predict(X_val, I_val=I_val)
        same(f"{tag} pre-computed fit, {spelling} indexes", snap(opf.subgraph)[0], snap(ref.subgraph)[0])
        same(f"{tag} pre-computed predict, {spelling} indexes", got, want)
        same(f"{tag} pre-computed state, {spelling} indexes", snap(opf.subgraph), snap(ref.subgraph))

    # c) semi-supervised, pre-computed distances, historical keywords
    n_u = min(3, len(I_val))
    Xu, Iu = X_val[:n_u], I_val[:n_u]
    semi = SemiSupervisedOPF(distance=metric)
    semi.pre_computed_distance = True
    semi.pre_distances = M
    rsemi = RefSemiSupervisedOPF(distance.DISTANCES[metric], M)
    semi.fit(X.copy(), Y.copy(), Xu, I_train=I, I_unlabeled=Iu)
    rsemi.fit(X.copy(), Y.copy(), Xu, I_train=I, I_unlabeled=Iu)
    same(tag + " semi-supervised fit, keyword indexes", snap(semi.subgraph), snap(rsemi.subgraph))
    semi.fit(X.copy(), Y.copy(), Xu, I, Iu)
    same(tag + " semi-supervised fit, positional indexes", snap(semi.subgraph), snap(rsemi.subgraph))


for seed in range(36):
    run_case(seed)

# ---------------------------------------------------------------------------
# (2) The property itself, on the call history that matters here: pre-computed
#     distances with DISTINCT weights (unique MST), training rows that are NOT
#     rows 0..n-1 of the matrix, indexes handed over as `I_train=` (the spelling
#     every caller has used so far).
# ---------------------------------------------------------------------------
for seed in range(12):
    rng = np.random.default_rng(77 + seed)
    size, n = 12, 7
    M = distinct_matrix(rng, size)
    I = rng.permutation(size)[:n]
    Y = rng.integers(1, 4, n)
    Y[0], Y[1] = 1, 2
    X = rng.random((n, 2))
    W = M[np.ix_(I, I)]

    for spelling in ("positional", "keyword"):
        opf = SupervisedOPF()
        opf.pre_computed_distance = True
        opf.pre_distances = M
        if spelling == "positional":
            opf.fit(X, Y, I)
        else:
            opf.fit(X, Y, I_train=I)
        check_property(f"property, seed {seed}, {spelling} indexes {I.tolist()}", opf.subgraph, W, Y.tolist())

    semi = SemiSupervisedOPF()
    semi.pre_computed_distance = True
    semi.pre_distances = M
    rest = np.array([i for i in range(size) if i not in set(I.tolist())])
    semi.fit(X, Y, rng.random((2, 2)), I_train=I, I_unlabeled=rest[:2])
    sub = Subgraph(X, Y, I)  # view on the labelled part only
    sub.nodes = semi.subgraph.nodes[:n]
    check_property(f"property (semi-supervised), seed {seed}, keyword indexes", sub, W, Y.tolist())

if FAILURES:
    print(f"{len(FAILURES)} check(s) failed")
    sys.exit(1)
print("all checks passed")
