"""C08 / p2 demo: pythonic rewrite of hassanat_distance (zip + scalar helper).

Exit 0  : original code, or clean.diff applied.
Exit !=0: broken.diff applied (the lift is taken from the first argument's
          feature before the pair is ordered -> Hassanat becomes asymmetric
          on vectors with negative features).
"""

import math
import sys
import warnings

import numpy as np
from numba import njit

import opfython.utils.constants as c
from opfython.math.distance import DISTANCES

warnings.simplefilter("ignore")


# ---- verbatim copies of the ORIGINAL kernels (compiled the same way) ---------------
@njit
def ref_hassanat_kernel(x, y):
    # Creates an empty variable to hold each dimension's
    dist = np.zeros(x.shape[0])

    # Creates a binary mask
    mask = np.minimum(x, y) >= 0

    # Iterates through all dimensions
    for i in range(x.shape[0]):
        if mask[i] is True:
            dist[i] = 1 - (1 + np.minimum(x[i], y[i])) / (1 + np.maximum(x[i], y[i]))

        else:
            dist[i] = 1 - (
                1 + np.minimum(x[i], y[i]) + np.fabs(np.minimum(x[i], y[i]))
            ) / (1 + np.maximum(x[i], y[i]) + np.fabs(np.minimum(x[i], y[i])))

    return np.sum(dist)


@njit
def ref_bhattacharyya_kernel(x, y):
    dist = -math.log(np.sum((x * y) ** 0.5))

    return dist


@njit
def ref_bray_curtis_kernel(x, y):
    dist = np.sum(np.fabs(x - y)) / np.sum(x + y)

    return dist


@njit
def ref_hamming_kernel(x, y):
    dist = np.count_nonzero(x != y)

    return dist


@njit
def ref_kulczynski_kernel(x, y):
    dist = np.sum(np.fabs(x - y)) / np.sum(np.minimum(x, y))

    return dist


@njit
def ref_soergel_kernel(x, y):
    dist = np.sum(np.fabs(x - y)) / np.sum(np.maximum(x, y))

    return dist


def shifted(kernel):
    def wrapper(x, y):
        x = x + c.EPSILON
        y = y + c.EPSILON

        return kernel(x, y)

    return wrapper


REFERENCE = {
    "hassanat": shifted(ref_hassanat_kernel),
    "bhattacharyya": shifted(ref_bhattacharyya_kernel),
    "bray_curtis": shifted(ref_bray_curtis_kernel),
    "hamming": ref_hamming_kernel,
    "kulczynski": shifted(ref_kulczynski_kernel),
    "soergel": shifted(ref_soergel_kernel),
}
# -------------------------------------------------------------------------------------


def same(a, b):
    a, b = float(a), float(b)
    return (math.isnan(a) and math.isnan(b)) or a == b


failures = []


def compare(tag, x, y, names=tuple(REFERENCE)):
    for name in names:
        for u, v, order in ((x, y, "xy"), (y, x, "yx"), (x, x, "xx")):
            try:
                got = DISTANCES[name](u, v)
                exp = REFERENCE[name](u, v)
            except ZeroDivisionError:
                continue
            if not same(got, exp):
                failures.append(f"{tag} {name}[{order}]: got {got!r}, original {exp!r}")


rng = np.random.default_rng(1308)

# (1) seeded inputs: positive, tie-heavy, zero-containing, long (summation order) ------
for k in range(48):
    n = [1, 2, 4, 9, 33, 130][k % 6]
    kind = k % 4
    if kind == 0:
        x, y = rng.uniform(0.05, 6.0, n), rng.uniform(0.05, 6.0, n)
    elif kind == 1:  # many equal coordinates and few distinct values
        x = rng.choice([0.5, 1.0, 2.0], n)
        y = np.where(rng.random(n) < 0.6, x, rng.choice([0.5, 1.0, 2.0], n))
    elif kind == 2:  # zeros, partly at the same coordinates
        x, y = rng.uniform(0.0, 3.0, n), rng.uniform(0.0, 3.0, n)
        x[rng.random(n) < 0.4] = 0.0
        y[rng.random(n) < 0.4] = 0.0
    else:  # wide dynamic range
        x, y = 10.0 ** rng.uniform(-12, 6, n), 10.0 ** rng.uniform(-12, 6, n)
    compare(f"pos#{k}", x, y)

# float32 operands
for k in range(4):
    x = rng.uniform(0.0, 3.0, 7).astype(np.float32)
    y = rng.uniform(0.0, 3.0, 7).astype(np.float32)
    compare(f"f32#{k}", x, y, names=("hassanat", "soergel"))

# (2) Hassanat is defined for negative features too (that is what its second
#     branch is for): signed vectors, ties, exact -1 / 0 / -EPSILON coordinates --------
signed = []
for k in range(40):
    n = [1, 2, 3, 5, 8, 21][k % 6]
    if k % 2 == 0:
        x, y = rng.uniform(-4.0, 4.0, n), rng.uniform(-4.0, 4.0, n)
    else:  # tie-heavy lattice around zero
        x = rng.choice([-2.0, -1.0, -0.5, 0.0, 0.5, 1.0], n)
        y = np.where(rng.random(n) < 0.4, x, rng.choice([-2.0, -1.0, -0.5, 0.0, 0.5, 1.0], n))
    signed.append((x, y))
signed.append((np.array([1.0, -c.EPSILON, -1.0]), np.array([-1.0, 0.5, -1.0])))
signed.append((np.array([2.0]), np.array([-1.0])))  # the minimal witness
signed.append((np.array([-0.5, 3.0]).astype(np.float32), np.array([-2.5, -3.0]).astype(np.float32)))

for k, (x, y) in enumerate(signed):
    compare(f"signed#{k}", x, y, names=("hassanat",))

    # the axioms: finite, symmetric, non-negative, zero self distance
    fn = DISTANCES["hassanat"]
    dxy, dyx, dxx = float(fn(x, y)), float(fn(y, x)), float(fn(x, x))
    if not (math.isfinite(dxy) and math.isfinite(dyx)):
        failures.append(f"signed#{k} hassanat: not finite ({dxy}, {dyx})")
    elif abs(dxy - dyx) > 1e-9 * max(1.0, abs(dxy)):
        failures.append(f"signed#{k} hassanat: asymmetric d(x,y)={dxy} d(y,x)={dyx}")
    if dxy < -1e-12 or abs(dxx) > 1e-9:
        failures.append(f"signed#{k} hassanat: negative / non-zero self distance ({dxy}, {dxx})")

if failures:
    print(f"{len(failures)} deviation(s) from the original behaviour / the metric axioms:")
    for line in failures[:15]:
        print("  " + line)
    sys.exit(1)

print("OK: all results identical to the original; Hassanat axioms hold on signed vectors")
