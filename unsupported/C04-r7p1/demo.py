"""C04 / p1 - SupervisedOPF._find_prototypes / fit rewritten with numpy masks.

Exit 0  : library behaves exactly like the original code (and zero resubstitution error holds).
Exit !=0: behaviour differs from the original / a training sample does not get its own label.

Part 1 compares the library against a verbatim copy of the original `_find_prototypes` and `fit`
on seeded inputs (several metrics, tie-heavy integer data, pre-computed distances with identity and
non-identity indexes, repeated fits).
Part 2 is the specific scenario: tie-free pre-computed distances, training rows that are NOT rows
0..n-1 of the distance matrix (I_train is a shuffled subset of a bigger matrix).
"""

import logging
import sys
import time

logging.disable(logging.CRITICAL)

import numpy as np

import opfython.utils.constants as c
from opfython.core import Heap, Subgraph
from opfython.models.supervised import SupervisedOPF

logger = logging.getLogger("demo")


class RefSupervisedOPF(SupervisedOPF):
    """Verbatim copy of the original `_find_prototypes` and `fit`."""

    def _find_prototypes(self) -> None:
        """Find prototype nodes using the Minimum Spanning Tree (MST) approach."""

        logger.debug("Finding prototypes ...")

        h = Heap(self.subgraph.n_nodes)

        self.subgraph.nodes[0].pred = c.NIL

        h.insert(0)

        prototypes = []
        while not h.is_empty():
            p = h.remove()

            self.subgraph.nodes[p].cost = h.cost[p]

            pred = self.subgraph.nodes[p].pred
            if pred != c.NIL:
                if self.subgraph.nodes[p].label != self.subgraph.nodes[pred].label:
                    if self.subgraph.nodes[p].status != c.PROTOTYPE:
                        self.subgraph.nodes[p].status = c.PROTOTYPE
                        prototypes.append(p)

                    if self.subgraph.nodes[pred].status != c.PROTOTYPE:
                        self.subgraph.nodes[pred].status = c.PROTOTYPE
                        prototypes.append(pred)

            for q in range(self.subgraph.n_nodes):
                if h.color[q] != c.BLACK:
                    if p != q:
                        if self.pre_computed_distance:
                            weight = self.pre_distances[self.subgraph.nodes[p].idx][
                                self.subgraph.nodes[q].idx
                            ]
                        else:
                            weight = self.distance_fn(
                                self.subgraph.nodes[p].features,
                                self.subgraph.nodes[q].features,
                            )

                        if weight < h.cost[q]:
                            self.subgraph.nodes[q].pred = p

                            h.update(q, weight)

        logger.debug("Prototypes: %s.", prototypes)

    def fit(self, X_train, Y_train, I_train=None) -> None:
        logger.info("Fitting classifier ...")

        start = time.time()

        self.subgraph = Subgraph(X_train, Y_train, I=I_train)

        self._find_prototypes()

        h = Heap(size=self.subgraph.n_nodes)

        for i in range(self.subgraph.n_nodes):
            if self.subgraph.nodes[i].status == c.PROTOTYPE:
                self.subgraph.nodes[i].pred = c.NIL
                self.subgraph.nodes[i].predicted_label = self.subgraph.nodes[i].label

                h.cost[i] = 0
                h.insert(i)
            else:
                h.cost[i] = c.FLOAT_MAX

        while not h.is_empty():
            p = h.remove()

            self.subgraph.idx_nodes.append(p)
            self.subgraph.nodes[p].cost = h.cost[p]

            for q in range(self.subgraph.n_nodes):
                if p != q:
                    if h.cost[p] < h.cost[q]:
                        if self.pre_computed_distance:
                            weight = self.pre_distances[self.subgraph.nodes[p].idx][
                                self.subgraph.nodes[q].idx
                            ]
                        else:
                            weight = self.distance_fn(
                                self.subgraph.nodes[p].features,
                                self.subgraph.nodes[q].features,
                            )

                        # The current cost will be the maximum cost between the node's and its weight (arc)
                        current_cost = np.maximum(h.cost[p], weight)

                        if current_cost < h.cost[q]:
                            self.subgraph.nodes[q].pred = p
                            self.subgraph.nodes[
                                q
                            ].predicted_label = self.subgraph.nodes[p].predicted_label

                            h.update(q, current_cost)

        self.subgraph.trained = True

        end = time.time()

        train_time = end - start

        logger.info("Classifier has been fitted.")
        logger.info("Training time: %s seconds.", train_time)


def typed(v):
    """Value together with its concrete type (np.float64 vs float vs int matters)."""

    return (type(v).__name__, v)


def snapshot(opf):
    sg = opf.subgraph
    return {
        "idx_nodes": [typed(i) for i in sg.idx_nodes],
        "trained": sg.trained,
        "nodes": [
            (
                n.idx,
                n.label,
                typed(n.predicted_label),
                typed(n.pred),
                typed(n.cost),
                n.status,
                n.relevant,
            )
            for n in sg.nodes
        ],
    }


FAILURES = []


def check(cond, msg):
    if not cond:
        FAILURES.append(msg)
        print("FAIL:", msg)


def make_opf(cls, metric, D):
    opf = cls(distance=metric)
    if D is not None:
        opf.pre_computed_distance = True
        opf.pre_distances = D
    return opf


def compare(tag, metric, X, Y, I=None, D=None, X_test=None, I_test=None, refits=1):
    lib = make_opf(SupervisedOPF, metric, D)
    ref = make_opf(RefSupervisedOPF, metric, D)

    for r in range(refits):
        lib.fit(X.copy(), Y.copy(), None if I is None else I.copy())
        ref.fit(X.copy(), Y.copy(), None if I is None else I.copy())
        check(snapshot(lib) == snapshot(ref), f"{tag}: state after fit #{r} differs from original")

        p_lib = lib.predict(X, I)
        p_ref = ref.predict(X, I)
        check(p_lib == p_ref, f"{tag}: predict(train) differs from original")

        if X_test is not None:
            check(
                lib.predict(X_test, I_test) == ref.predict(X_test, I_test),
                f"{tag}: predict(test) differs from original",
            )
        check(snapshot(lib) == snapshot(ref), f"{tag}: state after predict #{r} differs from original")

    return lib


def sym_distinct_matrix(rng, m):
    """Symmetric, zero-diagonal matrix whose off-diagonal upper-triangle entries are all distinct."""

    vals = rng.permutation(m * (m - 1) // 2).astype(float) + 1.0
    D = np.zeros((m, m))
    D[np.triu_indices(m, 1)] = vals
    return D + D.T


def part1():
    metrics = [
        "log_squared_euclidean",
        "euclidean",
        "manhattan",
        "chebyshev",
        "canberra",
        "squared_euclidean",
        "bray_curtis",
        "gaussian",
    ]
    n_cases = 0

    # (a) real-valued features, several metrics
    for seed in range(16):
        rng = np.random.default_rng(1000 + seed)
        n = int(rng.integers(2, 26))
        X = rng.random((n, 3)) + 0.1
        Y = rng.integers(1, 4, size=n)
        Xt = rng.random((7, 3)) + 0.1
        compare(f"real/{seed}", metrics[seed % len(metrics)], X, Y, X_test=Xt, refits=1 + seed % 2)
        n_cases += 1

    # (b) tie-heavy: small integer grid, duplicated points, few distinct distances
    for seed in range(14):
        rng = np.random.default_rng(2000 + seed)
        n = int(rng.integers(3, 30))
        X = rng.integers(0, 3, size=(n, 2)).astype(float)
        Y = rng.integers(1, 3, size=n)
        Xt = rng.integers(0, 3, size=(6, 2)).astype(float)
        compare(f"ties/{seed}", metrics[seed % 4], X, Y, X_test=Xt)
        n_cases += 1

    # (c) a single class (no prototype at all), a single node
    X = np.array([[0.0, 1.0], [1.0, 1.0], [2.0, 5.0]])
    lib = make_opf(SupervisedOPF, "euclidean", None)
    ref = make_opf(RefSupervisedOPF, "euclidean", None)
    lib.fit(X, np.array([1, 1, 1]))
    ref.fit(X, np.array([1, 1, 1]))
    check(snapshot(lib) == snapshot(ref), "one-class: state differs")
    lib.fit(X[:1], np.array([2]))
    ref.fit(X[:1], np.array([2]))
    check(snapshot(lib) == snapshot(ref), "one-node: state differs")
    n_cases += 2

    # (d) pre-computed distances, identity indexes (tie-free and tie-heavy, float and int matrices)
    for seed in range(8):
        rng = np.random.default_rng(3000 + seed)
        n = int(rng.integers(4, 20))
        X = rng.random((n, 2))
        Y = rng.integers(1, 4, size=n)
        if seed % 2 == 0:
            D = sym_distinct_matrix(rng, n)
        else:
            D = rng.integers(0, 4, size=(n, n))
            D = D + D.T
            np.fill_diagonal(D, 0)
            if seed % 4 == 1:
                D = D.astype(float)
        compare(f"pre-id/{seed}", "euclidean", X, Y, D=D, refits=2)
        compare(f"pre-id-explicit/{seed}", "euclidean", X, Y, I=np.arange(n), D=D)
        n_cases += 2

    # (e) pre-computed distances, training rows scattered over a bigger matrix
    for seed in range(10):
        rng = np.random.default_rng(4000 + seed)
        m = int(rng.integers(10, 26))
        n = int(rng.integers(4, m - 2))
        perm = rng.permutation(m)
        I_train, I_test = perm[:n], perm[n:]
        if seed % 3 == 2:
            D = rng.integers(0, 5, size=(m, m)).astype(float)
            D = D + D.T
            np.fill_diagonal(D, 0)
        else:
            D = sym_distinct_matrix(rng, m)
        X = rng.random((m, 2))
        Y = rng.integers(1, 4, size=m)
        compare(
            f"pre-scattered/{seed}",
            "euclidean",
            X[I_train],
            Y[I_train],
            I=I_train,
            D=D,
            X_test=X[I_test],
            I_test=I_test,
        )
        n_cases += 1

    print(f"part 1: {n_cases} differential cases run")


def part2():
    """Zero resubstitution error with tie-free pre-computed distances and non-identity indexes."""

    n_bad = 0
    for seed in range(12):
        rng = np.random.default_rng(5000 + seed)
        m, n = 24, 14
        D = sym_distinct_matrix(rng, m)
        Y_all = rng.integers(1, 4, size=m)
        I_train = rng.permutation(m)[:n]
        if len(set(Y_all[I_train].tolist())) < 2:
            continue
        X_train = np.zeros((n, 2))  # features are irrelevant, the matrix holds the distances
        Y_train = Y_all[I_train]

        opf = make_opf(SupervisedOPF, "euclidean", D)
        opf.fit(X_train, Y_train, I_train)

        fitted = [node.predicted_label for node in opf.subgraph.nodes]
        preds = opf.predict(X_train, I_train)
        ok = fitted == Y_train.tolist() and preds == Y_train.tolist()
        if not ok:
            n_bad += 1
            print(
                f"  seed {seed}: I_train={I_train.tolist()}\n"
                f"    Y_train        = {Y_train.tolist()}\n"
                f"    after fit      = {fitted}\n"
                f"    predict(train) = {preds}"
            )
    check(n_bad == 0, f"zero resubstitution error violated in {n_bad} tie-free scattered-index training sets")
    print("part 2 done")


if __name__ == "__main__":
    part1()
    part2()
    if FAILURES:
        print(f"{len(FAILURES)} failure(s)")
        sys.exit(1)
    print("OK")
    sys.exit(0)
