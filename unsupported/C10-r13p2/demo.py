"""C10 / p2 - distance files, node indexes and the reported distance matrix are unchanged.

Exit status 0: behaviour identical to the original library.
Exit status 1: a difference was found (details on stdout).

Run as: cd /tmp/wt/C10 && PYTHONPATH=/tmp/wt/C10 /venv/bin/python demo.py
"""

import logging
import os
import shutil
import sys
import tempfile
import time
import warnings

import numpy as np

logging.disable(logging.CRITICAL)
warnings.simplefilter("ignore")

import opfython.math.distance as d
import opfython.math.general as g
import opfython.utils.constants as c
from opfython.core import Heap, Node, Subgraph
from opfython.models import SemiSupervisedOPF, SupervisedOPF, UnsupervisedOPF

FAILURES = []
TMP = tempfile.mkdtemp(prefix="c10p2_")


def fail(msg):
    FAILURES.append(msg)
    print("MISMATCH:", msg)


def same_bits(a, b):
    a, b = np.asarray(a), np.asarray(b)
    return a.shape == b.shape and a.dtype == b.dtype and a.tobytes() == b.tobytes()


# --------------------------------------------------------------------------------------
# Reference: verbatim copies of the original functions
# --------------------------------------------------------------------------------------
def orig_pre_compute_distance(data, output, distance="log_squared_euclidean"):
    size = data.shape[0]

    distances = np.zeros((size, size))
    for i in range(size):
        for j in range(size):
            distances[i][j] = d.DISTANCES[distance](data[i], data[j])

    # A `.csv` file is read back with `,` as delimiter and a `.txt` file with a blank space
    delimiter = "," if output.split(".")[-1] == "csv" else " "

    np.savetxt(output, distances, delimiter=delimiter)


def orig_get_distances(self, normalize=False):
    distances = np.zeros((self.subgraph.n_nodes, self.subgraph.n_nodes))

    for i in range(self.subgraph.n_nodes):
        for j in range(self.subgraph.n_nodes):
            distances[i][j] = self.distance_fn(
                self.subgraph.nodes[i].features, self.subgraph.nodes[j].features
            )

    if normalize:
        return (distances - distances.min()) / (distances.max() - distances.min())

    return distances


class OrigSubgraph(Subgraph):
    def _build(self, X, Y, I):
        for i, (feature, label) in enumerate(zip(X, Y)):
            if I is not None:
                node = Node(I[i].item(), label.item(), feature)
            else:
                node = Node(i, label.item(), feature)

            self.nodes.append(node)

        self.n_features = self.nodes[0].features.shape[0]

    def destroy_arcs(self):
        for i in range(self.n_nodes):
            self.nodes[i].n_plateaus = 0
            self.nodes[i].adjacency = []

    def reset(self):
        for i in range(self.n_nodes):
            self.nodes[i].pred = c.NIL
            self.nodes[i].relevant = c.IRRELEVANT

        self.destroy_arcs()


def orig_semi_fit(self, X_train, Y_train, X_unlabeled, I_train=None, I_unlabeled=None):
    self.subgraph = OrigSubgraph(X_train, Y_train, I_train)

    self._find_prototypes()

    current_n_nodes = self.subgraph.n_nodes
    for i, feature in enumerate(X_unlabeled):
        if I_unlabeled is not None:
            node = Node(I_unlabeled[i].item(), 0, feature)
        else:
            node = Node(current_n_nodes + i, 0, feature)

        self.subgraph.nodes.append(node)

    h = Heap(size=self.subgraph.n_nodes)

    for i in range(self.subgraph.n_nodes):
        if self.subgraph.nodes[i].status == c.PROTOTYPE:
            self.subgraph.nodes[i].pred = c.NIL
            self.subgraph.nodes[i].predicted_label = self.subgraph.nodes[i].label

            h.cost[i] = 0
            h.insert(i)
        else:
            h.cost[i] = c.FLOAT_MAX

    while not h.is_empty():
        p = h.remove()

        self.subgraph.idx_nodes.append(p)
        self.subgraph.nodes[p].cost = h.cost[p]

        for q in range(self.subgraph.n_nodes):
            if p != q:
                if h.cost[p] < h.cost[q]:
                    if self.pre_computed_distance:
                        weight = self.pre_distances[self.subgraph.nodes[p].idx][
                            self.subgraph.nodes[q].idx
                        ]
                    else:
                        weight = self.distance_fn(
                            self.subgraph.nodes[p].features,
                            self.subgraph.nodes[q].features,
                        )

                    current_cost = np.maximum(h.cost[p], weight)
                    if current_cost < h.cost[q]:
                        self.subgraph.nodes[q].pred = p
                        self.subgraph.nodes[
                            q
                        ].predicted_label = self.subgraph.nodes[p].predicted_label

                        self.subgraph.nodes[q].label = self.subgraph.nodes[
                            q
                        ].predicted_label

                        h.update(q, current_cost)

    self.subgraph.trained = True


# --------------------------------------------------------------------------------------
def forest(opf):
    sg = opf.subgraph
    rows = [
        (
            node.idx,
            node.label,
            node.predicted_label,
            repr(float(node.cost)),
            node.pred,
            node.status,
            node.relevant,
            node.n_plateaus,
            list(node.adjacency),
        )
        for node in sg.nodes
    ]
    return rows, list(sg.idx_nodes)


def make_data(seed, positive):
    rng = np.random.RandomState(2000 + seed)
    n = 12 + seed % 7
    if seed % 2 == 0:
        # Tie-heavy: points of a small integer grid, with repeated points
        X = rng.randint(0, 4, size=(n, 2)).astype(float)
    else:
        X = np.round(rng.rand(n, 3) * 4, 1)
    if positive:
        X = X + 1.0
    Y = rng.randint(0, 3, size=n)
    Y[:3] = [0, 1, 2]
    perm = rng.permutation(n)
    n_train = n // 2
    return X, Y, perm[:n_train], perm[n_train:]


METRICS = ["log_squared_euclidean", "kullback_leibler", "manhattan", "gaussian", "chebyshev"]


def check_seed(seed):
    metric = METRICS[seed % len(METRICS)]
    ext = "txt" if seed % 3 else "csv"
    X, Y, I_train, I_rest = make_data(seed, positive=metric == "kullback_leibler")
    fn = d.DISTANCES[metric]
    tag = f"seed {seed} {metric} .{ext}"

    # 1. The file written for the whole dataset
    new_file = os.path.join(TMP, f"new{seed}.{ext}")
    old_file = os.path.join(TMP, f"old{seed}.{ext}")
    g.pre_compute_distance(X, new_file, metric)
    orig_pre_compute_distance(X, old_file, metric)
    if open(new_file, "rb").read() != open(old_file, "rb").read():
        fail(f"{tag}: pre_compute_distance wrote a different file")

    # 2. Node indexes and housekeeping of the subgraph
    for I in (I_train, None):
        new_sg, old_sg = Subgraph(X[I_train], Y[I_train], I), OrigSubgraph(X[I_train], Y[I_train], I)
        a = [(n.idx, n.label, n.features.tolist()) for n in new_sg.nodes]
        b = [(n.idx, n.label, n.features.tolist()) for n in old_sg.nodes]
        if a != b or new_sg.n_features != old_sg.n_features:
            fail(f"{tag}: Subgraph nodes differ (I given: {I is not None})")
        for sg in (new_sg, old_sg):
            for k, node in enumerate(sg.nodes):
                node.pred, node.relevant = k - 1, c.RELEVANT
                node.n_plateaus, node.adjacency = k, [k, 0]
            sg.reset()
        a = [(n.pred, n.relevant, n.n_plateaus, n.adjacency) for n in new_sg.nodes]
        b = [(n.pred, n.relevant, n.n_plateaus, n.adjacency) for n in old_sg.nodes]
        if a != b:
            fail(f"{tag}: Subgraph.reset differs")

    # 3. Supervised model fed by the file vs computing the metric, and the reported matrix
    pre = SupervisedOPF(distance=metric, pre_computed_distance=new_file)
    fly = SupervisedOPF(distance=metric)
    pre.fit(X[I_train], Y[I_train], I_train)
    fly.fit(X[I_train], Y[I_train], I_train)
    if forest(pre) != forest(fly):
        fail(f"{tag}: supervised forest through the file differs")
    if pre.predict(X[I_rest], I_rest) != fly.predict(X[I_rest], I_rest):
        fail(f"{tag}: supervised predictions through the file differ")

    pairs = np.zeros((len(I_train), len(I_train)))
    for i, a in enumerate(I_train):
        for j, b in enumerate(I_train):
            pairs[i][j] = fn(X[a], X[b])

    for model in (pre, fly):
        for normalize in (False, True):
            got = model.get_distances(normalize=normalize)
            want = orig_get_distances(model, normalize=normalize)
            if not same_bits(got, want):
                fail(
                    f"{tag}: get_distances(normalize={normalize}) differs from the original: "
                    f"shape {np.asarray(got).shape} instead of {want.shape}"
                    if np.asarray(got).shape != want.shape
                    else f"{tag}: get_distances(normalize={normalize}) differs from the original"
                )
        if not same_bits(model.get_distances(), pairs):
            fail(f"{tag}: get_distances() is not the metric on every ordered pair of training samples")
        if not same_bits(
            model.get_distances(normalize=True),
            (pairs - pairs.min()) / (pairs.max() - pairs.min()),
        ):
            fail(f"{tag}: get_distances(normalize=True) is not the min-max rescaled metric")

    if metric == "kullback_leibler":
        return

    # 4. Semi-supervised model: against the original fit, with and without explicit rows
    half = len(I_rest) // 2
    I_unl, I_test = I_rest[:half], I_rest[half:]
    for kwargs in (
        dict(I_train=I_train, I_unlabeled=I_unl),
        dict(I_train=I_train),
        dict(),
    ):
        for file_name in (new_file, None):
            new = SemiSupervisedOPF(distance=metric, pre_computed_distance=file_name)
            old = SemiSupervisedOPF(distance=metric, pre_computed_distance=file_name)
            new.fit(X[I_train], Y[I_train].copy(), X[I_unl], **kwargs)
            orig_semi_fit(old, X[I_train], Y[I_train].copy(), X[I_unl], **kwargs)
            if forest(new) != forest(old):
                fail(f"{tag}: semi-supervised fit differs from the original ({sorted(kwargs)}, file: {file_name is not None})")
            if new.predict(X[I_test], I_test) != old.predict(X[I_test], I_test):
                fail(f"{tag}: semi-supervised predictions differ from the original ({sorted(kwargs)})")
            if not same_bits(new.get_distances(), orig_get_distances(old)):
                fail(f"{tag}: semi-supervised get_distances differs from the original")

    # 5. Unsupervised model through the file (uses destroy_arcs between the candidate k's)
    upre = UnsupervisedOPF(max_k=3, distance=metric, pre_computed_distance=new_file)
    ufly = UnsupervisedOPF(max_k=3, distance=metric)
    upre.fit(X[I_train], Y[I_train], I_train)
    ufly.fit(X[I_train], Y[I_train], I_train)
    if forest(upre) != forest(ufly) or upre.predict(X[I_rest], I_rest) != ufly.predict(X[I_rest], I_rest):
        fail(f"{tag}: unsupervised model through the file differs")
    if not same_bits(upre.get_distances(True), orig_get_distances(ufly, True)):
        fail(f"{tag}: unsupervised get_distances differs from the original")


def specific():
    """Three training samples: the reported matrix must be the 3 x 3 table of the metric."""

    X = np.array([[0.0, 0.0], [3.0, 4.0], [6.0, 8.0]])
    Y = np.array([0, 1, 1])

    opf = SupervisedOPF(distance="euclidean")
    opf.fit(X, Y)

    want = np.array([[0.0, 5.0, 10.0], [5.0, 0.0, 5.0], [10.0, 5.0, 0.0]])
    got = opf.get_distances()
    if not same_bits(got, want):
        fail(f"specific: get_distances() returned {np.asarray(got).tolist()} instead of {want.tolist()}")

    got = opf.get_distances(normalize=True)
    if not same_bits(got, want / 10.0):
        fail(f"specific: get_distances(normalize=True) returned {np.asarray(got).tolist()} instead of {(want / 10.0).tolist()}")

    # Asking twice gives the same answer
    if not same_bits(opf.get_distances(), opf.get_distances()):
        fail("specific: two calls of get_distances() disagree")


if __name__ == "__main__":
    start = time.time()
    n_seeds = 35
    for seed in range(n_seeds):
        check_seed(seed)
    specific()

    shutil.rmtree(TMP, ignore_errors=True)

    print(f"{n_seeds} seeded inputs, {len(FAILURES)} mismatches, {time.time() - start:.1f} s")
    sys.exit(1 if FAILURES else 0)
