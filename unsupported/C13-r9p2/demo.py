"""C13 / p2 demo -- KNNSubgraph.create_arcs / calculate_pdf (arcs, densities and
the starting cost of the density competition).

Exit 0  : the installed KNNSubgraph behaves exactly like the original one on
          every valid input tried and the forests left by UnsupervisedOPF.fit /
          KNNSupervisedOPF.fit are well-formed.
Exit !=0: some observable result differs from the original, or the C13 forest
          property is violated.

The reference is a verbatim copy of the ORIGINAL `calculate_pdf` / `create_arcs`
on a subclass of KNNSubgraph which is swapped into the model modules for the
reference run; everything else (clustering, heap, predict) is shared.
"""

import logging
import sys

logging.disable(logging.CRITICAL)

import warnings

import numpy as np

warnings.simplefilter("ignore")

import opfython.models.knn_supervised as knn_module
import opfython.models.unsupervised as uns_module
import opfython.utils.constants as c
from opfython.models.knn_supervised import KNNSupervisedOPF
from opfython.models.unsupervised import UnsupervisedOPF
from opfython.subgraphs import KNNSubgraph


class RefKNNSubgraph(KNNSubgraph):
    """KNNSubgraph with the original (pre-hardening) pdf and arcs."""

    def calculate_pdf(
        self, n_neighbours, distance_function, pre_computed_distance=False, pre_distances=None
    ):
        self.constant = 2 * self.density / 9

        self.min_density = c.FLOAT_MAX
        self.max_density = -c.FLOAT_MAX

        pdf = np.zeros(self.n_nodes)
        for i in range(self.n_nodes):
            pdf[i] = 0
            n_pdf = 1

            for k in range(n_neighbours):
                j = int(self.nodes[i].adjacency[k])

                if pre_computed_distance:
                    distance = pre_distances[self.nodes[i].idx][self.nodes[j].idx]

                else:
                    distance = distance_function(
                        self.nodes[i].features, self.nodes[j].features
                    )

                pdf[i] += np.exp(-distance / self.constant)
                n_pdf += 1

            pdf[i] /= n_pdf

            if pdf[i] < self.min_density:
                self.min_density = pdf[i]
            if pdf[i] > self.max_density:
                self.max_density = pdf[i]

        if self.min_density == self.max_density:
            for i in range(self.n_nodes):
                self.nodes[i].density = c.MAX_DENSITY
                self.nodes[i].cost = c.MAX_DENSITY - 1
        else:
            for i in range(self.n_nodes):
                self.nodes[i].density = (
                    (c.MAX_DENSITY - 1)
                    * (pdf[i] - self.min_density)
                    / (self.max_density - self.min_density)
                ) + 1
                self.nodes[i].cost = self.nodes[i].density - 1

    def create_arcs(self, k, distance_function, pre_computed_distance=False, pre_distances=None):
        distances = np.zeros(k + 1)
        neighbours_idx = np.zeros(k + 1)
        max_distances = np.zeros(k)

        self.density = 0.0

        for i in range(self.n_nodes):
            distances.fill(c.FLOAT_MAX)

            for j in range(self.n_nodes):
                if j != i:
                    if pre_computed_distance:
                        distances[k] = pre_distances[self.nodes[i].idx][
                            self.nodes[j].idx
                        ]
                    else:
                        distances[k] = distance_function(
                            self.nodes[i].features, self.nodes[j].features
                        )

                    neighbours_idx[k] = j
                    cur_k = k

                    # While current `k` is bigger than 0 and the `k` distance is smaller than `k-1` distance
                    while cur_k > 0 and distances[cur_k] < distances[cur_k - 1]:
                        distances[cur_k], distances[cur_k - 1] = (
                            distances[cur_k - 1],
                            distances[cur_k],
                        )

                        neighbours_idx[cur_k], neighbours_idx[cur_k - 1] = (
                            neighbours_idx[cur_k - 1],
                            neighbours_idx[cur_k],
                        )

                        cur_k -= 1

            self.nodes[i].radius = 0.0
            self.nodes[i].n_plateaus = 0

            for l in range(k - 1, -1, -1):
                if distances[l] != c.FLOAT_MAX:
                    if distances[l] > self.density:
                        self.density = distances[l]
                    if distances[l] > self.nodes[i].radius:
                        self.nodes[i].radius = distances[l]
                    if distances[l] > max_distances[l]:
                        max_distances[l] = distances[l]

                    self.nodes[i].adjacency.insert(0, neighbours_idx[l])

        if self.density < 0.00001:
            self.density = 1

        return max_distances


class swapped:
    """Context manager: the model modules build `cls` instead of KNNSubgraph."""

    def __init__(self, cls):
        self.cls = cls

    def __enter__(self):
        uns_module.KNNSubgraph = self.cls
        knn_module.KNNSubgraph = self.cls

    def __exit__(self, *exc):
        uns_module.KNNSubgraph = KNNSubgraph
        knn_module.KNNSubgraph = KNNSubgraph


# --------------------------------------------------------------------------
# observation + property
# --------------------------------------------------------------------------
def state(opf, extra=()):
    sg = opf.subgraph
    out = {
        "pred": [n.pred for n in sg.nodes],
        "root": [n.root for n in sg.nodes],
        "cluster_label": [n.cluster_label for n in sg.nodes],
        "predicted_label": [n.predicted_label for n in sg.nodes],
        "cost": [float(n.cost) for n in sg.nodes],
        "density": [float(n.density) for n in sg.nodes],
        "radius": [float(n.radius) for n in sg.nodes],
        "n_plateaus": [n.n_plateaus for n in sg.nodes],
        "adjacency": [[int(a) for a in n.adjacency] for n in sg.nodes],
        "idx_nodes": list(sg.idx_nodes),
        "best_k": sg.best_k,
        "n_clusters": sg.n_clusters,
        "pdf scale": (float(sg.constant), float(sg.density), float(sg.min_density), float(sg.max_density)),
    }
    for key, value in extra:
        out[key] = value
    return out


def check_forest(nodes, arcs, label_of, tag):
    """The part of C13 shared by both models.  `arcs[p]` are the samples p was
    allowed to conquer, `label_of(node)` the identifier that travels down."""

    errors = []
    for i, node in enumerate(nodes):
        seen, j = set(), i
        while nodes[j].pred != c.NIL:
            if j in seen:
                errors.append("%s: cycle through node %d" % (tag, i))
                break
            seen.add(j)
            j = nodes[j].pred
        if node.root != j:
            errors.append("%s: node %d records root %d, reaches %d" % (tag, i, node.root, j))
        if label_of(node) != label_of(nodes[j]):
            errors.append("%s: node %d identifier differs from its root's" % (tag, i))

        if node.pred == c.NIL:
            if float(node.cost) != float(node.density):
                errors.append(
                    "%s: root %d cost %r != density %r"
                    % (tag, i, float(node.cost), float(node.density))
                )
        else:
            p = node.pred
            if i not in arcs[p]:
                errors.append("%s: node %d is not a graph neighbour of its predecessor %d" % (tag, i, p))
            expected = min(float(nodes[p].cost), float(node.density))
            if float(node.cost) != expected:
                errors.append(
                    "%s: node %d cost %r != min(cost(pred)=%r, density=%r)"
                    % (tag, i, float(node.cost), float(nodes[p].cost), float(node.density))
                )
            if not float(node.cost) > float(node.density) - 1:
                errors.append(
                    "%s: node %d was conquered with cost %r, not above its density %r minus 1"
                    % (tag, i, float(node.cost), float(node.density))
                )

        if float(node.density) - float(nodes[j].density) >= 1:
            errors.append(
                "%s: node %d (density %r) is denser than its root %d (density %r) by >= 1"
                % (tag, i, float(node.density), j, float(nodes[j].density))
            )
    return errors


def check_unsupervised(opf, tag):
    sg = opf.subgraph
    nodes = sg.nodes
    k = sg.best_k
    arcs = [[int(a) for a in n.adjacency[: n.n_plateaus + k]] for n in nodes]

    errors = check_forest(nodes, arcs, lambda n: n.cluster_label, tag)

    roots = [i for i, n in enumerate(nodes) if n.pred == c.NIL]
    if sg.n_clusters != len(roots):
        errors.append("%s: n_clusters %d != number of roots %d" % (tag, sg.n_clusters, len(roots)))
    if sorted(nodes[r].cluster_label for r in roots) != list(range(len(roots))):
        errors.append("%s: root identifiers are not 0..n_clusters-1" % tag)
    for i, n in enumerate(nodes):
        if n.predicted_label != nodes[n.root].label:
            errors.append("%s: node %d did not receive the true label of its root" % (tag, i))
    return errors


# --------------------------------------------------------------------------
# inputs
# --------------------------------------------------------------------------
def make_points(seed, total):
    rng = np.random.RandomState(7700 + seed)
    kind = seed % 6
    d = 2 + seed % 3
    distance = "log_squared_euclidean"
    pre = False

    if kind == 0:  # generic real-valued samples
        X = rng.normal(size=(total, d))
    elif kind == 1:  # heavily tied: tiny integer grid, duplicated rows
        X = rng.randint(0, 3, size=(total, d)).astype(float)
    elif kind == 2:  # blobs, other metric
        centers = rng.normal(scale=3.0, size=(3, d))
        X = centers[rng.randint(0, 3, total)] + rng.normal(scale=0.7, size=(total, d))
        distance = "euclidean"
    elif kind == 3:  # coarse grid -> tied distances, manhattan
        X = rng.randint(0, 5, size=(total, d)).astype(float) / 2.0
        distance = "manhattan"
    elif kind == 4:  # evenly spaced line (flat pdf for some k), chebyshev
        X = np.tile(np.arange(total, dtype=float)[:, None], (1, d))
        rng.shuffle(X)
        distance = "chebyshev"
    else:  # pre-computed distances, non-identity indexes
        X = rng.normal(size=(total, d)).round(1)
        pre = True
    return rng, kind, X, distance, pre


def unsupervised_case(seed):
    n = 22 + (seed % 5) * 4
    rng, kind, X, distance, pre = make_points(seed, n)
    min_k = 1 + seed % 2
    max_k = min_k + (seed % 4)
    Y = rng.randint(1, 4, size=n)

    I, matrix = None, None
    if pre:
        I = rng.permutation(n + 5)[:n]
        pts = rng.normal(size=(n + 5, 3)).round(1)
        matrix = np.abs(pts[:, None, :] - pts[None, :, :]).sum(axis=2)

    tag = "unsupervised seed=%d kind=%d n=%d k=[%d,%d] %s%s" % (
        seed, kind, n, min_k, max_k, distance, " pre-computed" if pre else "")
    return tag, {"min_k": min_k, "max_k": max_k, "distance": distance}, matrix, (X, Y, I)


def run_unsupervised(subgraph_cls, kw, matrix, fit_args, repeat=1):
    with swapped(subgraph_cls):
        opf = UnsupervisedOPF(**kw)
        if matrix is not None:
            opf.pre_computed_distance = True
            opf.pre_distances = matrix
        for _ in range(repeat):
            opf.fit(*fit_args)
        opf.propagate_labels()
        preds, clusters = opf.predict(fit_args[0][:7], None if fit_args[2] is None else fit_args[2][:7])
    return opf, (("preds", preds), ("clusters", clusters))


def compare_unsupervised(tag, kw, matrix, fit_args, repeat=1):
    ref, ref_extra = run_unsupervised(RefKNNSubgraph, kw, matrix, fit_args, repeat)
    new, new_extra = run_unsupervised(KNNSubgraph, kw, matrix, fit_args, repeat)

    failures = []
    ref_state, new_state = state(ref, ref_extra), state(new, new_extra)
    for key in ref_state:
        if ref_state[key] != new_state[key]:
            failures.append("%s: `%s` differs from the original implementation" % (tag, key))
    failures += check_unsupervised(new, tag)
    return failures, new


def knn_case(seed):
    n, n_val = 24 + (seed % 4) * 4, 9
    rng, kind, X, distance, pre = make_points(seed, n + n_val)
    max_k = 2 + seed % 3
    n_classes = 2 + seed % 2
    Y = rng.randint(1, n_classes + 1, size=n + n_val)
    Y[:n_classes] = np.arange(1, n_classes + 1)
    Y[n:n + n_classes] = np.arange(1, n_classes + 1)

    I_train = I_val = matrix = None
    if pre:
        I_train = rng.permutation(n)
        I_val = rng.randint(0, n, size=n_val)
        pts = rng.normal(size=(n, 3)).round(1)
        matrix = np.abs(pts[:, None, :] - pts[None, :, :]).sum(axis=2)

    tag = "knn-supervised seed=%d kind=%d n=%d max_k=%d %s%s" % (
        seed, kind, n, max_k, distance, " pre-computed" if pre else "")
    kw = {"max_k": max_k, "distance": distance}
    return tag, kw, matrix, (X[:n], Y[:n], X[n:], Y[n:], I_train, I_val)


def run_knn(subgraph_cls, kw, matrix, fit_args):
    store = {}

    class Recording(KNNSupervisedOPF):
        def _clustering(self, force_prototype=False):
            KNNSupervisedOPF._clustering(self, force_prototype)
            store["arcs"] = [[int(a) for a in n.adjacency] for n in self.subgraph.nodes]

    with swapped(subgraph_cls):
        opf = Recording(**kw)
        if matrix is not None:
            opf.pre_computed_distance = True
            opf.pre_distances = matrix
        opf.fit(*fit_args)
        preds = opf.predict(fit_args[2], fit_args[5])
    return opf, store["arcs"], (("preds", preds),)


def compare_knn(tag, kw, matrix, fit_args):
    ref, _, ref_extra = run_knn(RefKNNSubgraph, kw, matrix, fit_args)
    new, arcs, new_extra = run_knn(KNNSubgraph, kw, matrix, fit_args)

    failures = []
    ref_state, new_state = state(ref, ref_extra), state(new, new_extra)
    for key in ref_state:
        if ref_state[key] != new_state[key]:
            failures.append("%s: `%s` differs from the original implementation" % (tag, key))
    failures += check_forest(new.subgraph.nodes, arcs, lambda n: n.predicted_label, tag)
    return failures


# --------------------------------------------------------------------------
# the specific history
# --------------------------------------------------------------------------
def three_blobs(seed):
    rng = np.random.RandomState(seed)
    X = np.concatenate(
        [
            rng.normal(loc=(0.0, 0.0), scale=0.3, size=(9, 2)),
            rng.normal(loc=(4.0, 0.5), scale=0.8, size=(9, 2)),
            rng.normal(loc=(1.5, 5.0), scale=1.4, size=(9, 2)),
        ]
    )
    return X, np.repeat([1, 2, 3], 9)


def replay(subgraph_cls, X, Y, first_k, second_k):
    """The calls UnsupervisedOPF.fit makes on its subgraph when the k range
    ends at `first_k` and the selected k is `second_k`: arcs + pdf for the
    larger k, arcs destroyed, arcs + pdf for the selected k, competition."""

    opf = UnsupervisedOPF(min_k=second_k, max_k=first_k, distance="euclidean")
    opf.subgraph = sg = subgraph_cls(X, Y)

    sg.create_arcs(first_k, opf.distance_fn, False, None)
    sg.calculate_pdf(first_k, opf.distance_fn, False, None)
    sg.destroy_arcs()

    sg.best_k = second_k
    sg.create_arcs(second_k, opf.distance_fn, False, None)
    sg.calculate_pdf(second_k, opf.distance_fn, False, None)

    start = [(float(n.cost), float(n.density)) for n in sg.nodes]

    opf._clustering(second_k)
    opf.propagate_labels()
    return opf, start


def specific_case():
    """A k RANGE: calculate_pdf runs more than once on the same subgraph.

    UnsupervisedOPF(min_k, max_k) computes one pdf per candidate k, keeps the k
    with the smallest normalised cut, rebuilds the arcs for it and recomputes
    the pdf (KNNSupervisedOPF does the same with max_k).  The density
    competition then starts every sample at `density - 1` of THAT pdf, which is
    what makes 'conquered strictly above density - 1' and 'never denser than the
    root by 1 or more' true.  Three blobs of different spread: the densities
    for k = 4 and for k = 2 differ by far more than 1 for most samples, so
    anything carried over from the earlier pdf shows in the final forest.
    """

    failures = []

    # (a) the call history itself: pdf for k = 4, then arcs + pdf for k = 2
    X, Y = three_blobs(20269)
    ref, ref_start = replay(RefKNNSubgraph, X, Y, 4, 2)
    new, new_start = replay(KNNSubgraph, X, Y, 4, 2)

    stale = [i for i, (cost, density) in enumerate(new_start) if cost != density - 1]
    for i in stale[:3]:
        failures.append(
            "replay k=4 then k=2: node %d enters the competition with cost %r, density %r"
            % ((i,) + new_start[i])
        )
    if new_start != ref_start:
        failures.append("replay k=4 then k=2: starting costs differ from the original implementation")
    if state(new) != state(ref):
        failures.append("replay k=4 then k=2: forest differs from the original implementation")
    failures += check_unsupervised(new, "replay k=4 then k=2")

    # (b) the same through the public API
    X, Y = three_blobs(20257)
    kw = {"min_k": 1, "max_k": 4, "distance": "euclidean"}
    failures += compare_unsupervised("three-blobs k=[1,4]", kw, None, (X, Y, None))[0]

    return failures


def main():
    failures = specific_case()
    n_runs = 1

    for seed in range(24):
        failures += compare_unsupervised(*unsupervised_case(seed))[0]
        n_runs += 1

    for seed in range(18):
        failures += compare_knn(*knn_case(seed))
        n_runs += 1

    # repeated fits on the same model object
    for seed in (0, 3, 7):
        tag, kw, matrix, fit_args = unsupervised_case(seed)
        failures += compare_unsupervised(tag + " (fit twice)", kw, matrix, fit_args, repeat=2)[0]
        n_runs += 1

    if failures:
        print("FAIL (%d findings)" % len(failures))
        for line in failures[:25]:
            print("  " + line)
        sys.exit(1)

    print("OK: identical to the original on %d runs, forests well-formed" % n_runs)
    sys.exit(0)


if __name__ == "__main__":
    main()
