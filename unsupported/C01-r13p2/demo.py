"""Demo for pair C01/p2 (pythonic idioms commit on opfython/core/heap.py).

Exit 0: behaviour identical to the original and the forest property holds.
Exit 1: some result differs / the property is violated.
"""

import logging
import sys

logging.disable(logging.CRITICAL)

import warnings

warnings.simplefilter("ignore")

from typing import List, Optional

import numpy as np

import opfython.utils.constants as c
import opfython.utils.exception as e
from opfython.core import OPF, Heap, Subgraph
from opfython.models.supervised import SupervisedOPF

# --------------------------------------------------------------------------
# Reference: verbatim copy of the ORIGINAL opfython/core/heap.py (class renamed)
# --------------------------------------------------------------------------

class RefHeap:
    """A standard implementation of a Heap structure."""

    def __init__(self, size: int = 1, policy: str = "min") -> None:
        """Initialization method.

        Args:
            size: Maximum size of the heap.
            policy: Heap's policy (`min` or `max`).

        """

        self.size = size
        self.policy = policy

        self.cost = [c.FLOAT_MAX for i in range(size)]
        self.color = [c.WHITE for i in range(size)]
        self.p = [-1 for i in range(size)]
        self.pos = [-1 for i in range(size)]

        self.last = -1

    @property
    def size(self) -> int:
        """Maximum size of the heap."""

        return self._size

    @size.setter
    def size(self, size: int) -> None:
        if not isinstance(size, int):
            raise e.TypeError("`size` should be an integer")
        if size < 1:
            raise e.ValueError("`size` should be > 0")

        self._size = size

    @property
    def policy(self) -> str:
        """Policy that rules the heap."""

        return self._policy

    @policy.setter
    def policy(self, policy: str) -> None:
        if policy not in ["min", "max"]:
            raise e.ValueError("`policy` should be `min` or `max`")

        self._policy = policy

    @property
    def cost(self) -> List[float]:
        """List of nodes' costs."""

        return self._cost

    @cost.setter
    def cost(self, cost: List[float]) -> None:
        if not isinstance(cost, list):
            raise e.TypeError("`cost` should be a list")

        self._cost = cost

    @property
    def color(self) -> List[int]:
        """List of nodes' colors."""

        return self._color

    @color.setter
    def color(self, color: List[int]) -> None:
        if not isinstance(color, list):
            raise e.TypeError("`color` should be a list")

        self._color = color

    @property
    def p(self) -> List[int]:
        """List of nodes' values."""

        return self._p

    @p.setter
    def p(self, p: List[int]) -> None:
        if not isinstance(p, list):
            raise e.TypeError("`p` should be a list")

        self._p = p

    @property
    def pos(self) -> List[int]:
        """List of nodes' positioning markers."""

        return self._pos

    @pos.setter
    def pos(self, pos: List[int]) -> None:
        if not isinstance(pos, list):
            raise e.TypeError("`pos` should be a list")

        self._pos = pos

    @property
    def last(self) -> int:
        """Last element identifier."""

        return self._last

    @last.setter
    def last(self, last: int) -> None:
        if not isinstance(last, int):
            raise e.TypeError("`last` should be an integer")
        if last < -1:
            raise e.ValueError("`last` should be > -1")

        self._last = last

    def is_full(self) -> bool:
        """Checks if the heap is full.

        Returns:
            (bool): A boolean indicating whether the heap is full.

        """

        if self.last == (self.size - 1):
            return True

        return False

    def is_empty(self) -> bool:
        """Checks if the heap is empty.

        Returns:
            (bool): A boolean indicating whether the heap is empty.

        """

        if self.last == -1:
            return True

        return False

    def dad(self, i: int) -> int:
        """Gathers the position of the node's dad.

        Args:
            i: Node's position.

        Returns:
            (int): The position of node's dad.

        """

        return int(((i - 1) / 2))

    def left_son(self, i: int) -> int:
        """Gathers the position of the node's left son.

        Args:
            i: Node's position.

        Returns:
            (int): The position of node's left son

        """

        return int((2 * i + 1))

    def right_son(self, i: int) -> int:
        """Gathers the position of the node's right son.

        Args:
            i: Node's position.

        Returns:
            (int): The position of node's right son.

        """

        return int((2 * i + 2))

    def go_up(self, i: int) -> None:
        """Goes up in the heap.

        Args:
            i: Position to be achieved.

        """

        j = self.dad(i)

        if self.policy == "min":
            # While the heap exists and the cost of post-node is bigger than current node
            while i > 0 and self.cost[self.p[j]] > self.cost[self.p[i]]:
                self.p[j], self.p[i] = self.p[i], self.p[j]

                self.pos[self.p[i]] = i
                self.pos[self.p[j]] = j

                i = j
                j = self.dad(i)

        else:
            # While the heap exists and the cost of post-node is smaller than current node
            while i > 0 and self.cost[self.p[j]] < self.cost[self.p[i]]:
                self.p[j], self.p[i] = self.p[i], self.p[j]

                self.pos[self.p[i]] = i
                self.pos[self.p[j]] = j

                i = j
                j = self.dad(i)

    def go_down(self, i: int) -> None:
        """Goes down in the heap.

        Args:
            i: Position to be achieved.

        """

        left = self.left_son(i)
        right = self.right_son(i)

        j = i

        if self.policy == "min":
            # Checks if left node is not the last and its cost is smaller than previous
            if left <= self.last and self.cost[self.p[left]] < self.cost[self.p[i]]:
                j = left

            # Checks if right node is not the last and its cost is smaller than previous
            if right <= self.last and self.cost[self.p[right]] < self.cost[self.p[j]]:
                j = right

        else:
            # Checks if left node is not the last and its cost is bigger than previous
            if left <= self.last and self.cost[self.p[left]] > self.cost[self.p[i]]:
                j = left

            # Checks if right node is not the last and its cost is bigger than previous
            if right <= self.last and self.cost[self.p[right]] > self.cost[self.p[j]]:
                j = right

        if j != i:
            self.p[j], self.p[i] = self.p[i], self.p[j]

            self.pos[self.p[i]] = i
            self.pos[self.p[j]] = j

            self.go_down(j)

    def insert(self, p: int) -> bool:
        """Inserts a new node into the heap.

        Args:
            p: Node's value to be inserted.

        Returns:
            (bool): Boolean indicating whether insertion was performed correctly.

        """

        if not self.is_full():
            self.last += 1

            self.p[self.last] = p
            self.color[p] = c.GRAY
            self.pos[p] = self.last

            self.go_up(self.last)

            return True

        return False

    def remove(self) -> int:
        """Removes a node from the heap.

        Returns:
            (int): The removed node value.

        """

        if not self.is_empty():
            p = self.p[0]

            self.pos[p] = -1
            self.color[p] = c.BLACK

            self.p[0] = self.p[self.last]

            self.pos[self.p[0]] = 0
            self.p[self.last] = -1

            self.last -= 1

            self.go_down(0)

            return p

        return False

    def update(self, p: int, cost: float) -> None:
        """Updates a node with a new value.

        Args:
            p: Node's position.
            cost: Node's cost.

        """

        self.cost[p] = cost

        if self.color[p] == c.BLACK:
            pass

        if self.color[p] == c.WHITE:
            self.insert(p)
        else:
            self.go_up(self.pos[p])


# --------------------------------------------------------------------------
# Reference: verbatim copy of the ORIGINAL SupervisedOPF._find_prototypes / fit
# (timing and logging lines removed, Heap -> RefHeap)
# --------------------------------------------------------------------------


class RefSupervisedOPF(OPF):
    def _find_prototypes(self) -> None:
        h = RefHeap(self.subgraph.n_nodes)

        self.subgraph.nodes[0].pred = c.NIL

        h.insert(0)

        prototypes = []
        while not h.is_empty():
            p = h.remove()

            self.subgraph.nodes[p].cost = h.cost[p]

            pred = self.subgraph.nodes[p].pred
            if pred != c.NIL:
                if self.subgraph.nodes[p].label != self.subgraph.nodes[pred].label:
                    if self.subgraph.nodes[p].status != c.PROTOTYPE:
                        self.subgraph.nodes[p].status = c.PROTOTYPE
                        prototypes.append(p)

                    if self.subgraph.nodes[pred].status != c.PROTOTYPE:
                        self.subgraph.nodes[pred].status = c.PROTOTYPE
                        prototypes.append(pred)

            for q in range(self.subgraph.n_nodes):
                if h.color[q] != c.BLACK:
                    if p != q:
                        if self.pre_computed_distance:
                            weight = self.pre_distances[self.subgraph.nodes[p].idx][
                                self.subgraph.nodes[q].idx
                            ]
                        else:
                            weight = self.distance_fn(
                                self.subgraph.nodes[p].features,
                                self.subgraph.nodes[q].features,
                            )

                        if weight < h.cost[q]:
                            self.subgraph.nodes[q].pred = p

                            h.update(q, weight)

    def fit(self, X_train, Y_train, I_train=None) -> None:
        self.subgraph = Subgraph(X_train, Y_train, I=I_train)

        self._find_prototypes()

        h = RefHeap(size=self.subgraph.n_nodes)

        for i in range(self.subgraph.n_nodes):
            if self.subgraph.nodes[i].status == c.PROTOTYPE:
                self.subgraph.nodes[i].pred = c.NIL
                self.subgraph.nodes[i].predicted_label = self.subgraph.nodes[i].label

                h.cost[i] = 0
                h.insert(i)
            else:
                h.cost[i] = c.FLOAT_MAX

        while not h.is_empty():
            p = h.remove()

            self.subgraph.idx_nodes.append(p)
            self.subgraph.nodes[p].cost = h.cost[p]

            for q in range(self.subgraph.n_nodes):
                if p != q:
                    if h.cost[p] < h.cost[q]:
                        if self.pre_computed_distance:
                            weight = self.pre_distances[self.subgraph.nodes[p].idx][
                                self.subgraph.nodes[q].idx
                            ]
                        else:
                            weight = self.distance_fn(
                                self.subgraph.nodes[p].features,
                                self.subgraph.nodes[q].features,
                            )

                        # The current cost will be the maximum cost between the node's and its weight (arc)
                        current_cost = np.maximum(h.cost[p], weight)

                        if current_cost < h.cost[q]:
                            self.subgraph.nodes[q].pred = p
                            self.subgraph.nodes[
                                q
                            ].predicted_label = self.subgraph.nodes[p].predicted_label

                            h.update(q, current_cost)

        self.subgraph.trained = True


# --------------------------------------------------------------------------
# Helpers
# --------------------------------------------------------------------------

FAILURES = []


def fail(msg):
    FAILURES.append(msg)
    print("FAIL:", msg)


def make(cls, distance, matrix):
    opf = cls(distance=distance)
    if matrix is not None:
        opf.pre_computed_distance = True
        opf.pre_distances = np.array(matrix, copy=True)
    return opf


def snapshot(opf):
    nodes = opf.subgraph.nodes
    return {
        "idx": [n.idx for n in nodes],
        "status": [n.status for n in nodes],
        "cost": [float(n.cost) for n in nodes],
        "pred": [n.pred for n in nodes],
        "predicted_label": [n.predicted_label for n in nodes],
        "order": list(opf.subgraph.idx_nodes),
        "trained": opf.subgraph.trained,
    }


def compare(name, got, ref):
    for key in ref:
        if got[key] != ref[key]:
            fail("%s: `%s` differs from the original implementation" % (name, key))
            return False
    return True


def arc_matrix(opf, I_true):
    """Arc weights d(p, q) as the property defines them (independent of node.idx)."""

    nodes = opf.subgraph.nodes
    n = len(nodes)
    D = np.zeros((n, n))
    for p in range(n):
        for q in range(n):
            if p == q:
                continue
            if opf.pre_computed_distance:
                D[p][q] = opf.pre_distances[I_true[p]][I_true[q]]
            else:
                D[p][q] = opf.distance_fn(nodes[p].features, nodes[q].features)
    return D


def check_property(name, opf, Y, I_true):
    """Independent check of the optimum-path forest property (max-arc cost)."""

    nodes = opf.subgraph.nodes
    n = len(nodes)
    D = arc_matrix(opf, I_true)
    protos = [i for i in range(n) if nodes[i].status == c.PROTOTYPE]
    problems = []

    # Minimax cost from the prototype set, plain O(n^2) label-setting.
    best = [0.0 if i in protos else float("inf") for i in range(n)]
    done = [False] * n
    for _ in range(n):
        u = min((i for i in range(n) if not done[i]), key=lambda i: best[i])
        done[u] = True
        for v in range(n):
            if not done[v]:
                cand = max(best[u], D[u][v])
                if cand < best[v]:
                    best[v] = cand

    for i in range(n):
        if float(nodes[i].cost) != best[i]:
            problems.append(
                "cost of sample %d is %r, optimum is %r" % (i, nodes[i].cost, best[i])
            )
            break

    for i in range(n):
        j, steps, bad_link = i, 0, False
        while nodes[j].pred != c.NIL and steps <= n:
            parent = nodes[j].pred
            if float(nodes[j].cost) != max(float(nodes[parent].cost), D[parent][j]):
                problems.append("link %d -> %d breaks cost = max(cost, d)" % (parent, j))
                bad_link = True
                break
            j = parent
            steps += 1
        if bad_link:
            pass
        elif steps > n:
            problems.append("predecessor cycle from sample %d" % i)
        elif nodes[j].status != c.PROTOTYPE:
            problems.append("sample %d does not reach a prototype" % i)
        elif nodes[i].predicted_label != int(Y[j]):
            problems.append("sample %d has not the label of its prototype" % i)
        if problems:
            break

    order = opf.subgraph.idx_nodes
    if sorted(order) != list(range(n)):
        problems.append("conquest order is not a permutation of the samples")
    else:
        costs = [float(nodes[i].cost) for i in order]
        if any(a > b for a, b in zip(costs, costs[1:])):
            problems.append("conquest order is not in non-decreasing cost")

    for msg in problems:
        fail("%s: PROPERTY: %s" % (name, msg))

    return not problems


def gen_features(seed, kind):
    rng = np.random.RandomState(seed)
    n = int(rng.randint(6, 28))
    k = int(rng.randint(2, 5))
    dim = int(rng.randint(1, 5))
    if kind == "gauss":
        X = rng.rand(n, dim) + 0.05
    elif kind == "grid":  # tie-heavy: few integer coordinates
        X = rng.randint(1, 4, size=(n, dim)).astype(float)
    else:  # duplicates
        base = rng.rand(max(2, n // 3), dim) + 0.05
        X = base[rng.randint(0, len(base), size=n)]
    Y = rng.randint(1, k + 1, size=n)
    Y[0], Y[1] = 1, 2
    return X, Y


def gen_matrix(seed, m, ties):
    rng = np.random.RandomState(1000 + seed)
    if ties:
        A = rng.randint(0, 4, size=(m, m)).astype(float)
    else:
        A = rng.rand(m, m)
    M = np.maximum(A, A.T)
    np.fill_diagonal(M, 0.0)
    return M


# --------------------------------------------------------------------------
# Part 1a: Heap against the original Heap on random operation sequences
# --------------------------------------------------------------------------


def heap_state(h):
    return (list(h.cost), list(h.color), list(h.p), list(h.pos), h.last)


def run_heap_case(seed, policy, ties):
    rng = np.random.RandomState(seed)
    size = int(rng.randint(1, 24))
    a, b = Heap(size, policy), RefHeap(size, policy)
    name = "heap seed=%d policy=%s ties=%s" % (seed, policy, ties)

    def draw():
        return float(rng.randint(0, 4)) if ties else float(rng.rand())

    for step in range(6 * size + 10):
        op = rng.randint(0, 4)
        if op == 0:  # set a cost and insert a white node
            p = int(rng.randint(0, size))
            if a.color[p] == c.WHITE:
                v = draw()
                a.cost[p] = v
                b.cost[p] = v
                ra, rb = a.insert(p), b.insert(p)
            else:
                ra = rb = None
        elif op == 1:
            ra, rb = a.remove(), b.remove()
        else:  # update: improves the key of a queued node or queues a white one
            p = int(rng.randint(0, size))
            if a.color[p] == c.BLACK:
                ra = rb = None
            else:
                v = draw()
                if a.color[p] == c.GRAY:
                    v = min(v, a.cost[p]) if policy == "min" else max(v, a.cost[p])
                ra, rb = a.update(p, v), b.update(p, v)
        if ra != rb or type(ra) is not type(rb) or heap_state(a) != heap_state(b):
            fail("%s: diverges from the original heap at step %d" % (name, step))
            return
        if (a.is_empty(), a.is_full()) != (b.is_empty(), b.is_full()):
            fail("%s: is_empty / is_full differ" % name)
            return

    drained_a, drained_b = [], []
    while not b.is_empty():
        drained_a.append(a.remove())
        drained_b.append(b.remove())
    if drained_a != drained_b or heap_state(a) != heap_state(b):
        fail("%s: removal order differs from the original heap" % name)


for seed in range(40):
    run_heap_case(seed, "min" if seed % 2 == 0 else "max", ties=bool((seed // 2) % 2))

# update on an already removed (BLACK) node: cost is stored, nothing moves
a, b = Heap(3), RefHeap(3)
for h in (a, b):
    h.cost[0], h.cost[1] = 1.0, 2.0
    h.insert(0)
    h.insert(1)
    h.remove()
    h.update(0, 0.5)
if heap_state(a) != heap_state(b):
    fail("update on a removed node differs from the original heap")

# --------------------------------------------------------------------------
# Part 1b: SupervisedOPF.fit against the original implementation
# --------------------------------------------------------------------------

METRICS = ["log_squared_euclidean", "euclidean", "manhattan", "chebyshev", "squared_euclidean"]


def run_feature_case(seed, kind):
    X, Y = gen_features(seed, kind)
    metric = METRICS[seed % len(METRICS)]
    name = "features seed=%d kind=%s metric=%s" % (seed, kind, metric)

    ref = make(RefSupervisedOPF, metric, None)
    ref.fit(X.copy(), Y.copy())

    opf = make(SupervisedOPF, metric, None)
    opf.fit(X.copy(), Y.copy())
    compare(name, snapshot(opf), snapshot(ref))
    check_property(name, opf, Y, list(range(len(X))))

    opf.fit(X.copy(), Y.copy())
    compare(name + " (refit)", snapshot(opf), snapshot(ref))
    if len(opf.predict(X.copy())) != len(X):
        fail(name + ": wrong number of predictions")


def run_matrix_case(seed, ties):
    rng = np.random.RandomState(seed)
    m = int(rng.randint(12, 30))
    M = gen_matrix(seed, m, ties)
    n = int(rng.randint(6, m))
    I = rng.permutation(m)[:n]
    X = rng.rand(n, 2)
    Y = rng.randint(1, 4, size=n)
    Y[0], Y[1] = 1, 2
    name = "matrix seed=%d ties=%s" % (seed, ties)

    ref = make(RefSupervisedOPF, "log_squared_euclidean", M)
    ref.fit(X.copy(), Y.copy(), I.copy())
    opf = make(SupervisedOPF, "log_squared_euclidean", M)
    opf.fit(X.copy(), Y.copy(), I.copy())
    compare(name, snapshot(opf), snapshot(ref))
    check_property(name, opf, Y, [int(i) for i in I])


for seed in range(8):
    run_feature_case(seed, "gauss")
for seed in range(8, 16):
    run_feature_case(seed, "grid")
for seed in range(16, 22):
    run_feature_case(seed, "dups")
for seed in range(22, 32):
    run_matrix_case(seed, ties=bool(seed % 2))

# --------------------------------------------------------------------------
# Part 2: the specific history that exposes the slip
#   a queued node that sits directly below the root (position 1 or 2) gets a
#   key that beats the root: it has to become the new root.
# --------------------------------------------------------------------------

h = Heap(3)
h.cost[0], h.cost[1], h.cost[2] = 5.0, 7.0, 9.0
for p in (0, 1, 2):
    h.insert(p)
h.update(1, 3.0)  # decrease-key of the node at position 1 below the root's key
if h.p[0] != 1 or h.pos[1] != 0:
    fail("decrease-key: node 1 (cost 3) did not reach the root, root is node %d" % h.p[0])
first = h.remove()
if first != 1:
    fail("decrease-key: remove() returned node %d (cost %s) instead of node 1 (cost 3)" % (first, h.cost[first]))

# The same situation inside fit: six samples on a line, Manhattan distance.
X = np.array([[11.0], [23.0], [3.0], [22.0], [18.0], [15.0]])
Y = np.array([1, 2, 2, 2, 1, 1])
opf = make(SupervisedOPF, "manhattan", None)
opf.fit(X, Y)
ref = make(RefSupervisedOPF, "manhattan", None)
ref.fit(X, Y)
compare("six samples on a line", snapshot(opf), snapshot(ref))
check_property("six samples on a line", opf, Y, list(range(6)))

if FAILURES:
    print("%d check(s) failed" % len(FAILURES))
    sys.exit(1)

print("all checks passed")
sys.exit(0)
