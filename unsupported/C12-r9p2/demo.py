"""Demo for property C12 (k-NN graph and density estimate are exact).

Compares KNNSubgraph.create_arcs / calculate_pdf / eliminate_maxima_height of the
library in the working tree against a verbatim copy of the original functions
(applied to an independent KNNSubgraph built from the same data) on seeded inputs,
then runs the specific scenario that exposes the slip.  Exit code 0 = identical.
"""

import math
import sys
import warnings
from typing import Optional

import numpy as np

import opfython.math.distance as distance
import opfython.utils.constants as c
from opfython.subgraphs import KNNSubgraph
from opfython.utils import logging

import logging as _std_logging

warnings.simplefilter("ignore")
_std_logging.disable(_std_logging.CRITICAL)
logger = logging.get_logger("demo_ref")


# --------------------------------------------------------------------------
# Verbatim copies of the original methods (only renamed, `self` is explicit)
# --------------------------------------------------------------------------
def ref_calculate_pdf(
    self,
    n_neighbours: int,
    distance_function: callable,
    pre_computed_distance: bool = False,
    pre_distances: Optional[np.array] = None,
) -> None:
    """Calculates the probability density function for `k` neighbours.

    Args:
        n_neighbours: Number of neighbours in the adjacency relation.
        distance_function: The distance function to be used to calculate the arcs.
        pre_computed_distance: Whether OPF should use a pre-computed distance or not.
        pre_distances: Pre-computed distance matrix.

    """

    self.constant = 2 * self.density / 9

    self.min_density = c.FLOAT_MAX
    self.max_density = -c.FLOAT_MAX

    pdf = np.zeros(self.n_nodes)
    for i in range(self.n_nodes):
        pdf[i] = 0
        n_pdf = 1

        for k in range(n_neighbours):
            j = int(self.nodes[i].adjacency[k])

            if pre_computed_distance:
                distance = pre_distances[self.nodes[i].idx][self.nodes[j].idx]

            else:
                distance = distance_function(
                    self.nodes[i].features, self.nodes[j].features
                )

            pdf[i] += np.exp(-distance / self.constant)
            n_pdf += 1

        pdf[i] /= n_pdf

        if pdf[i] < self.min_density:
            self.min_density = pdf[i]
        if pdf[i] > self.max_density:
            self.max_density = pdf[i]

    if self.min_density == self.max_density:
        for i in range(self.n_nodes):
            self.nodes[i].density = c.MAX_DENSITY
            self.nodes[i].cost = c.MAX_DENSITY - 1
    else:
        for i in range(self.n_nodes):
            self.nodes[i].density = (
                (c.MAX_DENSITY - 1)
                * (pdf[i] - self.min_density)
                / (self.max_density - self.min_density)
            ) + 1
            self.nodes[i].cost = self.nodes[i].density - 1

def ref_create_arcs(
    self,
    k: int,
    distance_function: callable,
    pre_computed_distance: bool = False,
    pre_distances: Optional[np.array] = None,
) -> np.array:
    """Creates arcs for each node (adjacency relation).

    Args:
        k: Number of neighbours in the adjacency relation.
        distance_function: The distance function to be used to calculate the arcs.
        pre_computed_distance: Whether OPF should use a pre-computed distance or not.
        pre_distances: Pre-computed distance matrix.

    Returns:
        (np.array): The maximum possible distances for each value of k.

    """

    distances = np.zeros(k + 1)
    neighbours_idx = np.zeros(k + 1)
    max_distances = np.zeros(k)

    self.density = 0.0

    for i in range(self.n_nodes):
        distances.fill(c.FLOAT_MAX)

        for j in range(self.n_nodes):
            if j != i:
                if pre_computed_distance:
                    distances[k] = pre_distances[self.nodes[i].idx][
                        self.nodes[j].idx
                    ]
                else:
                    distances[k] = distance_function(
                        self.nodes[i].features, self.nodes[j].features
                    )

                neighbours_idx[k] = j
                cur_k = k

                # While current `k` is bigger than 0 and the `k` distance is smaller than `k-1` distance
                while cur_k > 0 and distances[cur_k] < distances[cur_k - 1]:
                    distances[cur_k], distances[cur_k - 1] = (
                        distances[cur_k - 1],
                        distances[cur_k],
                    )

                    neighbours_idx[cur_k], neighbours_idx[cur_k - 1] = (
                        neighbours_idx[cur_k - 1],
                        neighbours_idx[cur_k],
                    )

                    cur_k -= 1

        self.nodes[i].radius = 0.0
        self.nodes[i].n_plateaus = 0

        for l in range(k - 1, -1, -1):
            if distances[l] != c.FLOAT_MAX:
                if distances[l] > self.density:
                    self.density = distances[l]
                if distances[l] > self.nodes[i].radius:
                    self.nodes[i].radius = distances[l]
                if distances[l] > max_distances[l]:
                    max_distances[l] = distances[l]

                self.nodes[i].adjacency.insert(0, neighbours_idx[l])

    if self.density < 0.00001:
        self.density = 1

    return max_distances

def ref_eliminate_maxima_height(self, height: float) -> None:
    """Eliminates maxima values in the subgraph that are below the inputted height.

    Args:
        height: Height's threshold.

    """

    logger.debug("Eliminating maxima above height = %s ...", height)

    if height > 0:
        for i in range(self.n_nodes):
            self.nodes[i].cost = np.maximum(self.nodes[i].density - height, 0)

    logger.debug("Maxima eliminated.")


REF = {
    "arcs": ref_create_arcs,
    "pdf": ref_calculate_pdf,
    "elim": ref_eliminate_maxima_height,
}


# --------------------------------------------------------------------------
# Harness
# --------------------------------------------------------------------------
def bits(value):
    """Bit-exact, NaN-safe fingerprint of a number."""

    return float(value).hex()


def snapshot(graph):
    nodes = [
        (
            [bits(a) for a in node.adjacency],
            bits(node.radius),
            bits(node.density),
            bits(node.cost),
            int(node.n_plateaus),
        )
        for node in graph.nodes
    ]
    model = (
        bits(graph.density),
        bits(graph.constant),
        bits(graph.min_density),
        bits(graph.max_density),
    )
    return nodes, model


def apply(graph, op, metric, pre, use_reference):
    kind = op[0]
    if kind == "destroy":
        graph.destroy_arcs()
        return None
    if kind == "elim":
        if use_reference:
            return ref_eliminate_maxima_height(graph, op[1])
        return graph.eliminate_maxima_height(op[1])

    pre_computed = pre is not None
    if use_reference:
        result = REF[kind](graph, op[1], metric, pre_computed, pre)
    elif kind == "arcs":
        result = graph.create_arcs(op[1], metric, pre_computed, pre)
    else:
        result = graph.calculate_pdf(op[1], metric, pre_computed, pre)

    return None if result is None else [bits(v) for v in result]


def run_scenario(name, X, I, metric, pre, ops):
    """Runs `ops` on the library and on the reference; returns a list of differences."""

    lib = KNNSubgraph(X, None, I)
    ref = KNNSubgraph(X, None, I)

    for step, op in enumerate(ops):
        got = apply(lib, op, metric, pre, use_reference=False)
        want = apply(ref, op, metric, pre, use_reference=True)

        if got != want:
            return [f"{name}: step {step} {op}: returned {got}, expected {want}"]

        got_nodes, got_model = snapshot(lib)
        want_nodes, want_model = snapshot(ref)

        if got_model != want_model:
            return [
                f"{name}: step {step} {op}: (density, constant, min, max) = "
                f"{[float.fromhex(v) for v in got_model]}, expected "
                f"{[float.fromhex(v) for v in want_model]}"
            ]
        for i, (g, w) in enumerate(zip(got_nodes, want_nodes)):
            if g != w:
                show = lambda t: (
                    [float.fromhex(a) for a in t[0]],
                    *[float.fromhex(v) for v in t[1:4]],
                    t[4],
                )
                return [
                    f"{name}: step {step} {op}: node {i} "
                    f"(adjacency, radius, density, cost, plateaus) = {show(g)}, "
                    f"expected {show(w)}"
                ]

    return []


def history(rng, n, k_max):
    """create_arcs(k_max) -> calculate_pdf for several k -> heights -> rebuild."""

    k_top = min(k_max, n - 1)
    ops = [("arcs", k_max)]
    for k in sorted({1, k_top, int(rng.integers(1, k_top + 1))}):
        ops.append(("pdf", k))
        ops.append(("elim", float(rng.choice([-1.0, 0.0, 0.5, 2.5, 400.0]))))
    k2 = int(rng.integers(1, n + 2))
    ops += [("destroy",), ("arcs", k2), ("pdf", min(k2, n - 1)), ("elim", 1.5)]
    # A second scan without destroying the arcs (lists are prepended to)
    ops += [("arcs", 1), ("pdf", 1)]
    return ops


def scenarios():
    rng = np.random.default_rng(20261003)
    metrics = [
        "euclidean",
        "squared_euclidean",
        "manhattan",
        "chebyshev",
        "canberra",
        "log_squared_euclidean",
        "kullback_leibler",  # asymmetric
        "neyman",  # asymmetric
    ]
    out = []

    # 1) random clouds, every metric twice
    for r in range(16):
        n = int(rng.integers(4, 12))
        X = rng.random((n, int(rng.integers(2, 5)))) * float(rng.choice([0.3, 1.0, 20.0]))
        X = X + 0.05
        name = metrics[r % len(metrics)]
        out.append((f"cloud{r}-{name}", X, None, distance.DISTANCES[name], None,
                    history(rng, n, int(rng.integers(1, n + 3)))))

    # 2) lattices (many equal distances)
    for r in range(8):
        side = int(rng.integers(2, 4))
        grid = np.array([[a, b] for a in range(side) for b in range(side + 1)], dtype=float)
        grid = grid * float(rng.choice([0.125, 1.0, 3.0]))
        grid = grid[rng.permutation(len(grid))]
        name = ["euclidean", "manhattan", "chebyshev", "squared_euclidean"][r % 4]
        out.append((f"lattice{r}-{name}", grid, None, distance.DISTANCES[name], None,
                    history(rng, len(grid), int(rng.integers(2, len(grid) + 2)))))

    # 3) duplicated samples / all identical / tiny cloud
    for r in range(6):
        n = int(rng.integers(5, 10))
        base = rng.integers(0, 3, size=(n, 2)).astype(float)
        if r == 0:
            base[:] = 1.0
        if r == 1:
            base = 1.0 + rng.random((n, 2)) * 1e-7
        out.append((f"dups{r}", base, None, distance.DISTANCES["euclidean"], None,
                    history(rng, n, int(rng.integers(1, n + 2)))))

    # 4) pre-computed matrices (asymmetric, tie-heavy) with non-identity indexes
    for r in range(10):
        n = int(rng.integers(4, 10))
        m = n + int(rng.integers(0, 5))
        if r % 2:
            pre = rng.integers(0, 4, size=(m, m)).astype(float)
        else:
            pre = rng.random((m, m)) * float(rng.choice([0.5, 1.0, 7.0]))
        np.fill_diagonal(pre, 0.0)
        I = rng.permutation(m)[:n]
        X = rng.random((n, 3))
        out.append((f"pre{r}", X, I, distance.DISTANCES["euclidean"], pre,
                    history(rng, n, int(rng.integers(1, n + 2)))))

    return out


def main():
    failures = []
    cases = scenarios()
    for case in cases:
        failures += run_scenario(*case)

    failures += specific_case()

    print(f"{len(cases)} seeded scenarios + specific case, {len(failures)} difference(s)")
    for line in failures[:12]:
        print("  DIFF", line)

    sys.exit(1 if failures else 0)


def specific_case():
    """All arcs shorter than 1 (but >= 1e-5): constant must be 2/9 of the TRUE bound."""

    rng = np.random.default_rng(12)
    X = rng.random((9, 2)) * 0.2  # every pairwise distance is below 0.3
    metric = distance.DISTANCES["euclidean"]
    k = 2

    graph = KNNSubgraph(X, None, None)
    graph.create_arcs(k, metric)
    graph.calculate_pdf(k, metric)

    # Independent recomputation of the bound, the constant and the raw estimates
    D = np.sqrt(((X[:, None, :] - X[None, :, :]) ** 2).sum(-1))
    np.fill_diagonal(D, np.inf)
    knn = np.sort(D, axis=1)[:, :k]
    bound = knn.max()
    constant = 2 * bound / 9
    raw = np.exp(-knn / constant).sum(axis=1) / (k + 1)

    problems = []
    if not (1e-5 <= bound < 1):
        problems.append("specific: test data is not in the intended regime")
    if not math.isclose(graph.density, bound, rel_tol=1e-12):
        problems.append(f"specific: density bound {graph.density}, expected {bound}")
    if not math.isclose(graph.constant, constant, rel_tol=1e-12):
        problems.append(
            f"specific: constant {graph.constant}, expected 2/9 * {bound} = {constant}"
        )
    if not math.isclose(graph.min_density, raw.min(), rel_tol=1e-9):
        problems.append(f"specific: min_density {graph.min_density}, expected {raw.min()}")
    if not math.isclose(graph.max_density, raw.max(), rel_tol=1e-9):
        problems.append(f"specific: max_density {graph.max_density}, expected {raw.max()}")

    expected = (c.MAX_DENSITY - 1) * (raw - raw.min()) / (raw.max() - raw.min()) + 1
    for i, node in enumerate(graph.nodes):
        if not math.isclose(node.density, expected[i], rel_tol=1e-7):
            problems.append(
                f"specific: node {i} density {node.density}, expected {expected[i]}"
            )
        if not math.isclose(node.cost, expected[i] - 1, rel_tol=1e-7, abs_tol=1e-9):
            problems.append(f"specific: node {i} cost {node.cost}, expected {expected[i] - 1}")

    # Heights: positive resets to max(density - h, 0), non-positive changes nothing
    before = [bits(n.cost) for n in graph.nodes]
    graph.eliminate_maxima_height(0.0)
    graph.eliminate_maxima_height(-3.0)
    if before != [bits(n.cost) for n in graph.nodes]:
        problems.append("specific: non-positive height changed the costs")
    graph.eliminate_maxima_height(250.0)
    for i, node in enumerate(graph.nodes):
        if bits(node.cost) != bits(max(node.density - 250.0, 0)):
            problems.append(f"specific: node {i} cost after h=250 is {node.cost}")

    return problems


if __name__ == "__main__":
    main()
