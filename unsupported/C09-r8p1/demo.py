"""C09 / p1 - UnsupervisedOPF.predict.

Exits 0 when
  (1) predict() returns exactly the labels and clusters of a verbatim copy of the
      ORIGINAL predict (inlined below as `reference_predict`) on > 30 seeded models
      and several batches each (random, tie-heavy, pre-computed distances with
      non-identity indexes, asymmetric matrices, several metrics, labelled models
      after propagate_labels, repeated calls), and leaves the model untouched, and
  (2) the label / cluster of a sample does not depend on its position in the batch,
      on the other samples of the batch or on earlier predict calls.
Exits 1 otherwise.
"""

import copy
import logging as pylogging
import sys
import time
import warnings

import numpy as np

pylogging.disable(pylogging.CRITICAL)
warnings.simplefilter("ignore")

import opfython.utils.constants as c  # noqa: E402
import opfython.utils.exception as e  # noqa: E402
from opfython.models.unsupervised import UnsupervisedOPF  # noqa: E402
from opfython.subgraphs import KNNSubgraph  # noqa: E402


# --------------------------------------------------------------------------- #
# Verbatim copy of the original UnsupervisedOPF.predict (logging / timing removed)
# --------------------------------------------------------------------------- #
def reference_predict(self, X_val, I_val=None):
    if not self.subgraph:
        raise e.BuildError("KNNSubgraph has not been properly created")

    if not self.subgraph.trained:
        raise e.BuildError("Classifier has not been properly clustered")

    pred_subgraph = KNNSubgraph(X_val, I=I_val)

    best_k = self.subgraph.best_k

    distances = np.zeros(best_k + 1)
    neighbours_idx = np.zeros(best_k + 1)

    for i in range(pred_subgraph.n_nodes):
        cost = -c.FLOAT_MAX
        distances.fill(c.FLOAT_MAX)

        for j in range(self.subgraph.n_nodes):
            if self.pre_computed_distance:
                distances[best_k] = self.pre_distances[pred_subgraph.nodes[i].idx][
                    self.subgraph.nodes[j].idx
                ]
            else:
                distances[best_k] = self.distance_fn(
                    pred_subgraph.nodes[i].features,
                    self.subgraph.nodes[j].features,
                )

            neighbours_idx[best_k] = j

            cur_k = best_k
            while cur_k > 0 and distances[cur_k] < distances[cur_k - 1]:
                distances[cur_k], distances[cur_k - 1] = (
                    distances[cur_k - 1],
                    distances[cur_k],
                )

                neighbours_idx[cur_k], neighbours_idx[cur_k - 1] = (
                    neighbours_idx[cur_k - 1],
                    neighbours_idx[cur_k],
                )

                cur_k -= 1

        density = 0.0
        for k in range(best_k):
            density += np.exp(-distances[k] / self.subgraph.constant)

        density /= best_k

        density = (
            (c.MAX_DENSITY - 1)
            * (density - self.subgraph.min_density)
            / (self.subgraph.max_density - self.subgraph.min_density + c.EPSILON)
        ) + 1

        for k in range(best_k):
            if distances[k] != c.FLOAT_MAX:
                neighbour = int(neighbours_idx[k])

                temp_cost = np.minimum(self.subgraph.nodes[neighbour].cost, density)
                if temp_cost > cost:
                    cost = temp_cost

                    pred_subgraph.nodes[i].predicted_label = self.subgraph.nodes[
                        neighbour
                    ].predicted_label

                    pred_subgraph.nodes[i].cluster_label = self.subgraph.nodes[
                        neighbour
                    ].cluster_label

    preds = [pred.predicted_label for pred in pred_subgraph.nodes]
    clusters = [pred.cluster_label for pred in pred_subgraph.nodes]

    return preds, clusters


# --------------------------------------------------------------------------- #
# Helpers
# --------------------------------------------------------------------------- #
FAILURES = []


def fail(msg):
    FAILURES.append(msg)
    if len(FAILURES) <= 15:
        print("FAIL:", msg)


def model_state(opf):
    sg = opf.subgraph
    return [
        (
            n.idx,
            n.label,
            n.predicted_label,
            n.cluster_label,
            n.cost,
            n.density,
            n.pred,
            n.root,
            n.n_plateaus,
            [int(a) for a in n.adjacency],
        )
        for n in sg.nodes
    ] + [sg.best_k, sg.constant, sg.min_density, sg.max_density, sg.n_clusters]


def same(a, b):
    return len(a) == len(b) and all(
        type(x) is type(y) and x == y for x, y in zip(a, b)
    )


def sub(I, sel):
    return None if I is None else I[sel]


def check_against_reference(tag, opf, batches):
    """Runs the same sequence of predict calls on two copies of the fitted model."""

    ref = copy.deepcopy(opf)
    new = copy.deepcopy(opf)
    before = model_state(new)

    for n, (X, I) in enumerate(batches):
        exp_preds, exp_clusters = reference_predict(ref, X, I)
        got_preds, got_clusters = new.predict(X, I)

        if not same(exp_preds, got_preds):
            fail("%s call %d: labels differ from the original predict" % (tag, n))
        if not same(exp_clusters, got_clusters):
            fail("%s call %d: clusters differ from the original predict" % (tag, n))

    if model_state(new) != before:
        fail("%s: predict changed the fitted model" % tag)


def check_property(tag, opf, X, I, rng):
    """predict(X)[i] == predict(X[i:i+1])[0] == predict(permuted X)[...]"""

    base = list(zip(*copy.deepcopy(opf).predict(X, I)))

    m = copy.deepcopy(opf)
    for i in range(len(X)):
        p, q = m.predict(X[i : i + 1], sub(I, slice(i, i + 1)))
        if (p[0], q[0]) != base[i]:
            fail(
                "%s: row %d alone -> %s, in the batch -> %s"
                % (tag, i, (p[0], q[0]), base[i])
            )

    perm = rng.permutation(len(X))
    permuted = list(zip(*copy.deepcopy(opf).predict(X[perm], sub(I, perm))))
    for pos, i in enumerate(perm):
        if permuted[pos] != base[i]:
            fail(
                "%s: row %d -> %s, at position %d of a permuted batch -> %s"
                % (tag, i, base[i], pos, permuted[pos])
            )

    rev = np.arange(len(X))[::-1]
    doubled = list(
        zip(
            *copy.deepcopy(opf).predict(
                np.concatenate([X, X[rev]]),
                None if I is None else np.concatenate([I, I[rev]]),
            )
        )
    )
    if doubled[: len(X)] != base or doubled[len(X) :] != base[::-1]:
        fail("%s: duplicated batch gives other labels" % tag)


def blobs(rng, n, n_class, dim, spread=1.0, integer=False, positive=False):
    centers = rng.uniform(-4, 4, size=(n_class, dim))
    Y = rng.integers(1, n_class + 1, size=n)
    Y[:n_class] = np.arange(1, n_class + 1)
    X = centers[Y - 1] + spread * rng.normal(size=(n, dim))
    if integer:
        X = np.round(X / 2.0)
    if positive:
        X = np.abs(X) + 0.1
    return X.astype(float), Y.astype(int)


METRICS = [
    "log_squared_euclidean",
    "euclidean",
    "manhattan",
    "squared_euclidean",
    "chebyshev",
    "log_euclidean",
]


def fitted(rng, seed, kind):
    """Returns (tag, fitted model, list of (X, I) batches)."""

    n_class = int(rng.integers(2, 4))
    dim = int(rng.integers(1, 4))
    n_train = int(rng.integers(8, 30))
    n_test = int(rng.integers(2, 16))
    min_k = int(rng.integers(1, 3))
    max_k = min_k + int(rng.integers(0, 4))

    if kind in ("features", "labelled", "ties"):
        ties = kind == "ties"
        metric = METRICS[seed % len(METRICS)]
        if ties:
            metric = ["manhattan", "chebyshev", "squared_euclidean"][seed % 3]
        X, Y = blobs(rng, n_train + n_test, n_class, dim, spread=1.2, integer=ties)
        opf = UnsupervisedOPF(min_k=min_k, max_k=max_k, distance=metric)
        if kind == "labelled":
            opf.fit(X[:n_train], Y[:n_train])
            opf.propagate_labels()
        else:
            opf.fit(X[:n_train])
        Xt = X[n_train:]
        batches = [
            (Xt, None),
            (Xt[::-1], None),
            (np.concatenate([X[:n_train][::3], Xt[: max(1, n_test // 2)]]), None),
        ]

    elif kind == "asymmetric":
        X, Y = blobs(rng, n_train + n_test, n_class, dim, spread=1.2, positive=True)
        opf = UnsupervisedOPF(min_k=min_k, max_k=max_k, distance="kullback_leibler")
        opf.fit(X[:n_train], Y[:n_train])
        opf.propagate_labels()
        Xt = X[n_train:]
        batches = [(Xt, None), (Xt[::-1], None)]

    elif kind == "precomputed":
        n = n_train + n_test
        X, Y = blobs(rng, n, n_class, dim, spread=1.2, integer=(seed % 2 == 0))
        pool = rng.permutation(n)
        I_train, I_test = pool[:n_train], pool[n_train:]
        diff = X[:, None, :] - X[None, :, :]
        D = np.sqrt((diff**2).sum(-1))
        if seed % 3 == 0:
            D = D * rng.uniform(0.5, 1.5, size=D.shape)  # asymmetric matrix
        if seed % 4 == 1:
            D = np.round(D)  # many equal arc weights
        if seed % 4 == 3:
            D = D.astype(np.float32)
        opf = UnsupervisedOPF(min_k=min_k, max_k=max_k)
        opf.pre_computed_distance = True
        opf.pre_distances = D
        opf.fit(X[I_train], Y[I_train], I_train)
        opf.propagate_labels()
        # features handed to predict are irrelevant here, only the indexes count
        batches = [
            (X[I_test], I_test),
            (X[I_test[::-1]], I_test[::-1]),
            (X[pool], pool),
        ]

    return "%s/seed%d" % (kind, seed), opf, batches


def explicit_history():
    """The specific histories: every sample has to scan every training node.

    Three separated groups on a line, clustered with k = 2 and labelled afterwards.
    """

    X_train = np.array(
        [[0.0], [0.5], [1.0], [1.5], [10.0], [10.5], [11.0], [11.5], [20.0], [20.5], [21.0]]
    )
    Y_train = np.array([1, 1, 1, 1, 2, 2, 2, 2, 3, 3, 3])

    opf = UnsupervisedOPF(min_k=2, max_k=2, distance="euclidean")
    opf.fit(X_train, Y_train)
    opf.propagate_labels()

    X = np.array([[0.7], [10.8], [20.6], [1.2], [11.1], [0.1], [21.4], [10.2]])

    batch = list(zip(*copy.deepcopy(opf).predict(X)))
    singles = [
        tuple(v[0] for v in copy.deepcopy(opf).predict(X[i : i + 1]))
        for i in range(len(X))
    ]
    reverse = list(zip(*copy.deepcopy(opf).predict(X[::-1])))[::-1]

    m = copy.deepcopy(opf)
    sequence = [tuple(v[0] for v in m.predict(X[i : i + 1])) for i in range(len(X))]

    print("explicit: batch (label, cluster)   ", batch)
    print("explicit: one by one, fresh copies ", singles)
    print("explicit: reversed batch           ", reverse)
    print("explicit: one by one, same model   ", sequence)

    if not batch == singles == reverse == sequence:
        fail("explicit: a sample's label / cluster depends on its place in the batch")

    labels = [b[0] for b in batch]
    if labels != [1, 2, 3, 1, 2, 1, 3, 2]:
        fail("explicit: unexpected labels %s" % labels)


def main():
    start = time.time()

    n_models = 0
    kinds = ["features", "ties", "precomputed", "labelled", "asymmetric"]
    for seed in range(45):
        rng = np.random.default_rng(2000 + seed)
        kind = kinds[seed % len(kinds)]
        tag, opf, batches = fitted(rng, seed, kind)

        check_against_reference(tag, opf, batches)
        X, I = batches[0]
        check_property(tag, opf, X, I, rng)
        n_models += 1

    explicit_history()

    print("%d models checked in %.1f s" % (n_models, time.time() - start))

    if FAILURES:
        print("%d FAILURES" % len(FAILURES))
        return 1

    print("OK")
    return 0


if __name__ == "__main__":
    sys.exit(main())
