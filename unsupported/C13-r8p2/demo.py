"""C13 / p2 - edge-case hardening of UnsupervisedOPF (fit / _best_minimum_cut / predict /
propagate_labels).

Exit 0: behaviour identical to the original methods on all seeded (valid) inputs and the
        cluster forest, including the propagated labels, is well formed.
Exit 1: some observable differs from the original, or the forest property is violated.

Run as: cd /tmp/wt/C13 && PYTHONPATH=/tmp/wt/C13 /venv/bin/python demo.py
"""

import logging
import sys
import time
import warnings
from typing import List, Optional

logging.disable(logging.CRITICAL)
warnings.filterwarnings("ignore")

import numpy as np

import opfython.utils.constants as c
import opfython.utils.exception as e
from opfython.models.unsupervised import UnsupervisedOPF
from opfython.subgraphs import KNNSubgraph

logger = logging.getLogger("demo.reference")


class RefUnsupervisedOPF(UnsupervisedOPF):
    """Same classifier, but the four methods touched by the commit are verbatim copies
    of the original code."""

    def _best_minimum_cut(self, min_k: int, max_k: int) -> None:
        """Performs a minimum cut on the subgraph using the best `k` value.

        Args:
            min_k: Minimum value of k.
            max_k: Maximum value of k.

        """

        logger.debug(
            "Calculating the best minimum cut within [%d, %d] ...", min_k, max_k
        )

        max_distances = self.subgraph.create_arcs(
            max_k, self.distance_fn, self.pre_computed_distance, self.pre_distances
        )

        min_cut = c.FLOAT_MAX
        for k in range(min_k, max_k + 1):
            if min_cut != 0.0:
                self.subgraph.density = max_distances[k - 1]
                self.subgraph.best_k = k
                self.subgraph.calculate_pdf(
                    k, self.distance_fn, self.pre_computed_distance, self.pre_distances
                )

                self._clustering(k)

                cut = self._normalized_cut(k)
                if cut < min_cut:
                    min_cut = cut
                    best_k = k

        self.subgraph.destroy_arcs()

        self.subgraph.best_k = best_k

        self.subgraph.create_arcs(
            best_k, self.distance_fn, self.pre_computed_distance, self.pre_distances
        )
        self.subgraph.calculate_pdf(
            best_k, self.distance_fn, self.pre_computed_distance, self.pre_distances
        )

        logger.debug("Best: %d | Minimum cut: %d.", best_k, min_cut)

    def fit(
        self,
        X_train: np.array,
        Y_train: Optional[np.array] = None,
        I_train: Optional[np.array] = None,
    ) -> None:
        """Fits data in the classifier.

        Args:
            X_train: Array of training features.
            Y_train: Array of training labels.
            I_train: Array of training indexes.

        """

        logger.info("Clustering with classifier ...")

        start = time.time()

        self.subgraph = KNNSubgraph(X_train, Y_train, I_train)

        self._best_minimum_cut(self.min_k, self.max_k)

        self._clustering(self.subgraph.best_k)

        self.subgraph.trained = True

        end = time.time()

        train_time = end - start

        logger.info("Classifier has been clustered with.")
        logger.info("Number of clusters: %d.", self.subgraph.n_clusters)
        logger.info("Clustering time: %s seconds.", train_time)

    def predict(self, X_val: np.array, I_val: Optional[np.array] = None) -> List[int]:
        """Predicts new data using the pre-trained classifier.

        Args:
            X_val: Array of validation features.
            I_val: Array of validation indexes.

        Returns:
            (List[int]): A list of predictions for each record of the data.

        """

        if not self.subgraph:
            raise e.BuildError("KNNSubgraph has not been properly created")

        if not self.subgraph.trained:
            raise e.BuildError("Classifier has not been properly clustered")

        logger.info("Predicting data ...")

        start = time.time()

        pred_subgraph = KNNSubgraph(X_val, I=I_val)

        best_k = self.subgraph.best_k

        distances = np.zeros(best_k + 1)
        neighbours_idx = np.zeros(best_k + 1)

        for i in range(pred_subgraph.n_nodes):
            cost = -c.FLOAT_MAX
            distances.fill(c.FLOAT_MAX)

            for j in range(self.subgraph.n_nodes):
                if self.pre_computed_distance:
                    distances[best_k] = self.pre_distances[
                        pred_subgraph.nodes[i].idx
                    ][self.subgraph.nodes[j].idx]
                else:
                    distances[best_k] = self.distance_fn(
                        pred_subgraph.nodes[i].features,
                        self.subgraph.nodes[j].features,
                    )

                neighbours_idx[best_k] = j

                cur_k = best_k
                while cur_k > 0 and distances[cur_k] < distances[cur_k - 1]:
                    distances[cur_k], distances[cur_k - 1] = (
                        distances[cur_k - 1],
                        distances[cur_k],
                    )

                    neighbours_idx[cur_k], neighbours_idx[cur_k - 1] = (
                        neighbours_idx[cur_k - 1],
                        neighbours_idx[cur_k],
                    )

                    cur_k -= 1

            density = 0.0
            for k in range(best_k):
                density += np.exp(-distances[k] / self.subgraph.constant)

            density /= best_k

            # Scale the density between minimum and maximum values
            density = (
                (c.MAX_DENSITY - 1)
                * (density - self.subgraph.min_density)
                / (self.subgraph.max_density - self.subgraph.min_density + c.EPSILON)
            ) + 1

            for k in range(best_k):
                if distances[k] != c.FLOAT_MAX:
                    neighbour = int(neighbours_idx[k])

                    temp_cost = np.minimum(self.subgraph.nodes[neighbour].cost, density)
                    if temp_cost > cost:
                        cost = temp_cost

                        # Propagates the predicted label from the neighbour
                        pred_subgraph.nodes[i].predicted_label = self.subgraph.nodes[
                            neighbour
                        ].predicted_label

                        # Propagates the cluster label from the neighbour
                        pred_subgraph.nodes[i].cluster_label = self.subgraph.nodes[
                            neighbour
                        ].cluster_label

        preds = [pred.predicted_label for pred in pred_subgraph.nodes]
        clusters = [pred.cluster_label for pred in pred_subgraph.nodes]

        end = time.time()

        predict_time = end - start

        logger.info("Data has been predicted.")
        logger.info("Prediction time: %s seconds.", predict_time)

        return preds, clusters

    def propagate_labels(self) -> None:
        """Runs through the clusters and propagate the clusters roots labels to the samples."""

        logger.info("Assigning predicted labels from clusters ...")

        for i in range(self.subgraph.n_nodes):
            root = self.subgraph.nodes[i].root

            if root == i:
                self.subgraph.nodes[i].predicted_label = self.subgraph.nodes[i].label
            else:
                self.subgraph.nodes[i].predicted_label = self.subgraph.nodes[root].label

        logger.info("Labels assigned.")


# --------------------------------------------------------------------------- inputs


def make_case(seed):
    """Returns (description, constructor kwargs, pre_distances, X, Y, I, X_val, I_val)."""

    rng = np.random.default_rng(1000 + seed)
    kind = seed % 6
    n = 18 + (seed * 7) % 17
    min_k = 1 + seed % 3
    max_k = min_k + (seed // 3) % 4
    kwargs = {"min_k": min_k, "max_k": max_k}
    pre, I, I_val = None, None, None

    if kind == 0:  # generic blobs, default metric
        centres = rng.normal(0, 4, size=(3, 3))
        X = centres[rng.integers(0, 3, n)] + rng.normal(0, 1, size=(n, 3))
    elif kind == 1:  # heavily tied integer lattice, euclidean
        X = rng.integers(0, 6, size=(n, 2)).astype(float)
        kwargs["distance"] = "euclidean"
    elif kind == 2:  # equally spaced line with a few duplicates: density plateaus
        X = np.arange(n, dtype=float).reshape(-1, 1) * 0.5
        X[rng.integers(0, n, 3)] = X[rng.integers(0, n, 3)]
        kwargs["distance"] = "manhattan"
    elif kind == 3:  # asymmetric metric on strictly positive data
        X = rng.uniform(0.5, 3.0, size=(n, 4))
        kwargs["distance"] = "neyman"
    elif kind == 4:  # coarse lattice, chebyshev -> many equal distances
        X = rng.integers(0, 5, size=(n, 3)).astype(float)
        kwargs["distance"] = "chebyshev"
    else:  # pre-computed (asymmetric, tie-heavy) distances with permuted indexes
        m = 2 * n
        pre = rng.integers(1, 9, size=(m, m)).astype(float)
        np.fill_diagonal(pre, 0.0)
        perm = rng.permutation(m)
        I, I_val = perm[:n], perm[n:]
        X = rng.normal(size=(n, 2))

    Y = rng.integers(1, 4, size=len(X))
    if kind == 5:
        X_val = rng.normal(size=(len(I_val), 2))
    else:
        X_val = X[rng.integers(0, len(X), 7)] + 0.25

    return "seed=%d kind=%d n=%d k=[%d,%d]" % (seed, kind, len(X), min_k, max_k), (
        kwargs,
        pre,
        X,
        Y,
        I,
        X_val,
        I_val,
    )


def run(cls, spec):
    kwargs, pre, X, Y, I, X_val, I_val = spec

    opf = cls(**kwargs)
    if pre is not None:
        opf.pre_computed_distance = True
        opf.pre_distances = pre

    opf.fit(X, Y, I)
    opf.propagate_labels()
    preds, clusters = opf.predict(X_val, I_val)

    return opf, preds, clusters


def snapshot(opf, preds, clusters):
    sg = opf.subgraph
    rows = [
        (
            int(nd.pred),
            int(nd.root),
            int(nd.cluster_label),
            int(nd.predicted_label),
            repr(float(nd.cost)),
            repr(float(nd.density)),
            int(nd.n_plateaus),
            tuple(int(a) for a in nd.adjacency),
        )
        for nd in sg.nodes
    ]
    return {
        "nodes": rows,
        "n_clusters": sg.n_clusters,
        "best_k": sg.best_k,
        "idx_nodes": [int(i) for i in sg.idx_nodes],
        "preds": [int(p) for p in preds],
        "clusters": [int(p) for p in clusters],
    }


# ----------------------------------------------------------------- property C13


def check_forest(opf):
    """Returns a list of violations of the cluster-forest property."""

    sg = opf.subgraph
    nodes = sg.nodes
    n = sg.n_nodes
    k = sg.best_k
    bad = []

    roots = [i for i in range(n) if nodes[i].pred == c.NIL]

    for i, nd in enumerate(nodes):
        # every sample reaches exactly one root
        j, steps = i, 0
        while nodes[j].pred != c.NIL and steps <= n:
            j, steps = nodes[j].pred, steps + 1
        if steps > n:
            bad.append("node %d: predecessor cycle" % i)
            continue
        if nd.root != j:
            bad.append("node %d: root %d recorded, %d reached" % (i, nd.root, j))
        if nd.cluster_label != nodes[j].cluster_label:
            bad.append("node %d: cluster label differs from its root's" % i)
        if nd.predicted_label != nodes[j].label:
            bad.append("node %d: propagated label is not the root's true label" % i)
        if not nd.density < nodes[j].density + 1:
            bad.append("node %d: density exceeds its root's by >= 1" % i)

        if nd.pred == c.NIL:
            if nd.cost != nd.density:
                bad.append(
                    "root %d: cost %r != density %r" % (i, float(nd.cost), float(nd.density))
                )
        else:
            p = nodes[nd.pred]
            arcs = [int(a) for a in p.adjacency[: p.n_plateaus + k]]
            if i not in arcs:
                bad.append("node %d: not a graph neighbour of its predecessor" % i)
            if nd.cost != min(p.cost, nd.density):
                bad.append(
                    "node %d: cost %r != min(cost(pred)=%r, density=%r)"
                    % (i, float(nd.cost), float(p.cost), float(nd.density))
                )
            if not nd.cost > nd.density - 1:
                bad.append("node %d: cost not above density - 1" % i)

    if sg.n_clusters != len(roots):
        bad.append("n_clusters %d != number of roots %d" % (sg.n_clusters, len(roots)))
    if sorted(nodes[r].cluster_label for r in roots) != list(range(len(roots))):
        bad.append("root identifiers are not 0..n_clusters-1")

    return bad


# ------------------------------------------------------------------------- main


def root_zero_scenarios():
    """The history that exposes a root guard which also rejects the valid root 0: the very
    first training sample is the densest sample of its cluster (hence its root) and the
    other members of that cluster carry different true labels.  Label propagation must give
    all of them the true label of sample 0."""

    out = []

    for seed, k in ((2, 3), (1, 4), (3, 5)):
        rng = np.random.default_rng(50 + seed)
        blob_a = rng.normal(0.0, 1.0, size=(20, 2))
        blob_a[0] = 0.0  # sample 0 sits at the mode of the first blob
        blob_a[1:7] = rng.normal(0.0, 0.15, size=(6, 2))
        blob_b = rng.normal(9.0, 1.0, size=(15, 2))
        X = np.vstack([blob_a, blob_b])
        Y = np.array([1 + (i % 3) for i in range(len(X))])
        spec = ({"min_k": k, "max_k": k, "distance": "euclidean"}, None, X, Y, None, X[:6] + 0.05, None)
        out.append(("sample 0 is a root, mixed labels, k=%d seed=%d" % (k, seed), spec))

    return out


def main():
    failures = 0

    cases = [make_case(seed) for seed in range(42)]
    scenarios = root_zero_scenarios()
    cases.extend(scenarios)

    for name, spec in cases:
        ref = snapshot(*run(RefUnsupervisedOPF, spec))
        opf, preds, clusters = run(UnsupervisedOPF, spec)
        new = snapshot(opf, preds, clusters)

        for key in ref:
            if ref[key] != new[key]:
                failures += 1
                print("DIFF  %s: `%s` differs from the original" % (name, key))
                break

        bad = check_forest(opf)
        if bad:
            failures += 1
            print("PROP  %s: %d violations, e.g. %s" % (name, len(bad), bad[0]))

        # the scenario is only meaningful if sample 0 really roots a mixed-label cluster
        if (name, spec) in scenarios:
            nodes = opf.subgraph.nodes
            members = [i for i, nd in enumerate(nodes) if nd.root == 0 and i != 0]
            if nodes[0].pred != c.NIL or not any(nodes[i].label != nodes[0].label for i in members):
                failures += 1
                print("SETUP %s: sample 0 does not root a mixed-label cluster" % name)

    print("%d cases, %d failures" % (len(cases), failures))
    return 1 if failures else 0


if __name__ == "__main__":
    sys.exit(main())
