"""Demo for C13 / p1: exits 0 on the original and on clean.diff, non-zero on broken.diff.

Run as: cd /tmp/wt/C13 && PYTHONPATH=/tmp/wt/C13 /venv/bin/python demo.py
"""
import hashlib
import logging
import sys

import numpy as np

logging.disable(logging.CRITICAL)

import opfython.utils.constants as c  # noqa: E402
from opfython.models.knn_supervised import KNNSupervisedOPF  # noqa: E402
from opfython.models.unsupervised import UnsupervisedOPF  # noqa: E402

FAILURES = []


def fail(msg):
    FAILURES.append(msg)
    print("FAIL:", msg)


# --------------------------------------------------------------------------
# seeded inputs
# --------------------------------------------------------------------------
def make_data(kind, seed, n, d):
    rng = np.random.RandomState(seed)
    if kind == "blobs":
        centres = rng.uniform(0.5, 9.5, size=(3, d))
        lab = rng.randint(0, 3, size=n)
        X = np.abs(centres[lab] + rng.normal(0, 0.6, size=(n, d))) + 0.05
        Y = lab + 1
    elif kind == "grid":
        # heavily tied: small integer coordinates, many duplicates
        X = rng.randint(1, 4, size=(n, d)).astype(float)
        Y = (X[:, 0] > 2).astype(int) + 1
    elif kind == "line":
        # equally spaced points -> every nearest-neighbour distance ties
        X = np.tile(np.arange(1, n + 1, dtype=float)[:, None], (1, d))
        Y = (np.arange(n) % 2) + 1
    elif kind == "same":
        X = np.ones((n, d)) * 2.0
        Y = (np.arange(n) % 2) + 1
    else:
        raise ValueError(kind)
    return X, Y.astype(int)


def split(X, Y, seed):
    rng = np.random.RandomState(seed + 1000)
    perm = rng.permutation(len(X))
    n_val = max(4, len(X) // 4)
    val, trn = perm[:n_val], perm[n_val:]
    return X[trn], Y[trn], X[val], Y[val], trn, val


CASES = []
_metrics = [
    "log_squared_euclidean",
    "euclidean",
    "manhattan",
    "squared_euclidean",
    "chi_squared",
    "canberra",
]
_kr = [(1, 1), (1, 3), (2, 5), (3, 3), (1, 4), (2, 2)]
_i = 0
for kind, n, d in [
    ("blobs", 44, 2),
    ("blobs", 52, 3),
    ("grid", 40, 2),
    ("grid", 48, 3),
    ("line", 36, 2),
    ("blobs", 40, 4),
]:
    for rep in range(5):
        CASES.append(
            dict(
                name="%s-n%d-d%d-r%d" % (kind, n, d, rep),
                kind=kind,
                n=n,
                d=d,
                seed=100 + 7 * _i,
                metric=_metrics[_i % len(_metrics)],
                k=_kr[(_i // 2) % len(_kr)],
                pre=(rep == 4),
            )
        )
        _i += 1
CASES.append(dict(name="same-n20", kind="same", n=20, d=2, seed=5, metric="euclidean", k=(1, 2), pre=False))
CASES.append(dict(name="same-n24-pre", kind="same", n=24, d=2, seed=6, metric="euclidean", k=(1, 3), pre=True))


# --------------------------------------------------------------------------
# observation helpers
# --------------------------------------------------------------------------
def fl(x):
    return repr(float(x))


def node_state(sg):
    out = []
    for nd in sg.nodes:
        out.append(
            (
                int(nd.idx),
                int(nd.label),
                int(nd.pred),
                int(nd.root),
                int(nd.cluster_label),
                int(nd.predicted_label),
                fl(nd.cost),
                fl(nd.density),
                fl(nd.radius),
                int(nd.n_plateaus),
                tuple(int(a) for a in nd.adjacency),
            )
        )
    return out


def sg_state(sg):
    return (
        int(sg.n_clusters),
        int(sg.best_k),
        fl(sg.constant),
        fl(sg.density),
        fl(sg.min_density),
        fl(sg.max_density),
        tuple(int(i) for i in sg.idx_nodes),
        node_state(sg),
    )


def digest(obj):
    return hashlib.sha256(repr(obj).encode()).hexdigest()[:20]


# --------------------------------------------------------------------------
# the property itself (forest well-formedness)
# --------------------------------------------------------------------------
def check_forest(sg, unsup, tag, adjacency_before=None):
    nodes = sg.nodes
    n = len(nodes)
    roots = [i for i in range(n) if nodes[i].pred == c.NIL]
    for i in range(n):
        # reaches exactly one root
        seen, j = set(), i
        while nodes[j].pred != c.NIL:
            if j in seen:
                fail("%s: cycle through node %d" % (tag, i))
                return
            seen.add(j)
            j = nodes[j].pred
        if nodes[i].root != j:
            fail("%s: node %d records root %d but reaches %d" % (tag, i, nodes[i].root, j))
        if unsup:
            if nodes[i].cluster_label != nodes[j].cluster_label:
                fail("%s: node %d cluster differs from its root's" % (tag, i))
        else:
            if nodes[i].predicted_label != nodes[j].predicted_label:
                fail("%s: node %d label differs from its root's" % (tag, i))
        dens = float(nodes[i].density)
        cost = float(nodes[i].cost)
        if nodes[i].pred == c.NIL:
            if cost != dens:
                fail("%s: root %d cost %r != density %r" % (tag, i, cost, dens))
        else:
            p = nodes[i].pred
            if adjacency_before is not None:
                if i not in adjacency_before[p]:
                    fail("%s: node %d is not a graph neighbour of its predecessor %d" % (tag, i, p))
            want = min(float(nodes[p].cost), dens)
            if cost != want:
                fail("%s: node %d cost %r != min(cost(pred), density) %r" % (tag, i, cost, want))
            if not cost > dens - 1:
                fail("%s: node %d conquered with cost %r not above density-1 = %r" % (tag, i, cost, dens - 1))
        if not dens - float(nodes[j].density) < 1:
            fail(
                "%s: node %d density %r exceeds its root's %r by >= 1"
                % (tag, i, dens, float(nodes[j].density))
            )
    if unsup:
        if sg.n_clusters != len(roots):
            fail("%s: n_clusters %d != number of roots %d" % (tag, sg.n_clusters, len(roots)))
        if sorted(nodes[r].cluster_label for r in roots) != list(range(len(roots))):
            fail("%s: root identifiers are not 0..n_clusters-1" % tag)
    else:
        for r in roots:
            if nodes[r].predicted_label != nodes[r].label:
                fail("%s: root %d does not carry its own label" % (tag, r))


def check_propagated(sg, tag):
    nodes = sg.nodes
    for i in range(len(nodes)):
        j = i
        while nodes[j].pred != c.NIL:
            j = nodes[j].pred
        if nodes[i].predicted_label != nodes[j].label:
            fail(
                "%s: node %d got label %d, its root %d has true label %d"
                % (tag, i, nodes[i].predicted_label, j, nodes[j].label)
            )
            return


# --------------------------------------------------------------------------
# one case = unsupervised + knn-supervised runs
# --------------------------------------------------------------------------
def run_case(cs):
    X, Y = make_data(cs["kind"], cs["seed"], cs["n"], cs["d"])
    Xt, Yt, Xv, Yv, trn, val = split(X, Y, cs["seed"])
    rng = np.random.RandomState(cs["seed"] + 5)
    obs = []

    # ---- unsupervised
    opf = UnsupervisedOPF(min_k=cs["k"][0], max_k=cs["k"][1], distance=cs["metric"])
    if cs["pre"]:
        m = len(X) + 6
        M = np.round(rng.uniform(0.1, 5.0, size=(m, m)), 1 if cs["kind"] != "blobs" else 6)
        np.fill_diagonal(M, 0.0)
        opf.pre_computed_distance = True
        opf.pre_distances = M
        It = rng.permutation(m)[: len(Xt)]
        Iv = rng.permutation(m)[: len(Xv)]
        opf.fit(Xt, Yt, It)
    else:
        It = Iv = None
        opf.fit(Xt, Yt)
    check_forest(opf.subgraph, True, cs["name"] + "/unsup")
    obs.append(sg_state(opf.subgraph))
    opf.propagate_labels()
    check_propagated(opf.subgraph, cs["name"] + "/unsup-propagate")
    obs.append(node_state(opf.subgraph))
    preds, clus = opf.predict(Xv, Iv)
    obs.append(([int(p) for p in preds], [int(q) for q in clus]))
    # fitting the same object again must give the same forest
    if cs["pre"]:
        opf.fit(Xt, Yt, It)
    else:
        opf.fit(Xt, Yt)
    obs.append(sg_state(opf.subgraph))

    # ---- knn supervised
    kopf = KNNSupervisedOPF(max_k=cs["k"][1], distance=cs["metric"])
    if cs["pre"]:
        nt = len(Xt)
        M2 = np.round(rng.uniform(0.1, 5.0, size=(nt, nt)), 1 if cs["kind"] != "blobs" else 6)
        np.fill_diagonal(M2, 0.0)
        kopf.pre_computed_distance = True
        kopf.pre_distances = M2
        It2 = rng.permutation(nt)
        Iv2 = rng.permutation(nt)[: len(Xv)]
        kopf.fit(Xt, Yt, Xv, Yv, It2, Iv2)
        kp = kopf.predict(Xv, Iv2)
    else:
        kopf.fit(Xt, Yt, Xv, Yv)
        kp = kopf.predict(Xv)
    check_forest(kopf.subgraph, False, cs["name"] + "/knn")
    obs.append(sg_state(kopf.subgraph))
    obs.append([int(p) for p in kp])
    return digest(obs)


# digests of the results of the ORIGINAL implementation on every case
DIGESTS = {
    "blobs-n44-d2-r0": "dc36bb15513fc4cf4986",
    "blobs-n44-d2-r1": "9eb261c72f22c67a9552",
    "blobs-n44-d2-r2": "e38beeafaa549056bfb5",
    "blobs-n44-d2-r3": "8f552f4c0c625613ea03",
    "blobs-n44-d2-r4": "19d810c2241f6b4d9e63",
    "blobs-n52-d3-r0": "e1d0a25d8d0cc5799f37",
    "blobs-n52-d3-r1": "5313f1cfb400bb79fb49",
    "blobs-n52-d3-r2": "c6caf7c457ff729aea05",
    "blobs-n52-d3-r3": "3a26c269961d07b1b0e2",
    "blobs-n52-d3-r4": "4486d554d81b863d51b0",
    "grid-n40-d2-r0": "7ff8241d3be5074556cc",
    "grid-n40-d2-r1": "cc32eb74af30d7783059",
    "grid-n40-d2-r2": "bab5f89bb56b6db1ceb2",
    "grid-n40-d2-r3": "074fa12374269719d7d9",
    "grid-n40-d2-r4": "a6f6be359d60edeee66d",
    "grid-n48-d3-r0": "79b4c95bcecfedaaba4b",
    "grid-n48-d3-r1": "9b8129cf1a642c589aac",
    "grid-n48-d3-r2": "3f9b525edd8224d991bf",
    "grid-n48-d3-r3": "f77f96be1b01b684a3a6",
    "grid-n48-d3-r4": "a0e05c299aa39503e5cb",
    "line-n36-d2-r0": "0b3c16ac669dfc2dd5c8",
    "line-n36-d2-r1": "3569e68bc47a526bbda2",
    "line-n36-d2-r2": "158064bf23056208f222",
    "line-n36-d2-r3": "a54a2cf3f6c72da2fd28",
    "line-n36-d2-r4": "9015b355abfb82e5fd04",
    "blobs-n40-d4-r0": "e05c0962d9860158cbd7",
    "blobs-n40-d4-r1": "6869186f7363989f5725",
    "blobs-n40-d4-r2": "7c83d6cfd8f7a27816f4",
    "blobs-n40-d4-r3": "2ea701a836d5b99d7636",
    "blobs-n40-d4-r4": "c08f6f13d12a81de45eb",
    "same-n20": "28c76903e64fac0df4a2",
    "same-n24-pre": "1883c12c4336fe5949ee"
}


# --------------------------------------------------------------------------
# the specific history: one model object, fitted twice, labels propagated
# after each fit
# --------------------------------------------------------------------------
def refit_history():
    for seed in range(8):
        Xa, Ya = make_data("blobs", 900 + seed, 44, 2)
        if seed % 2:
            # the same samples in another order: same clusters, other root rows
            perm = np.random.RandomState(seed).permutation(len(Xa))
            Xb, Yb = Xa[perm], Ya[perm]
        else:
            # a different, heavily tied sample set with fewer clusters
            Xb, Yb = make_data("grid", 950 + seed, 44, 2)

        opf = UnsupervisedOPF(min_k=1, max_k=3)
        opf.fit(Xa, Ya)
        opf.propagate_labels()
        check_propagated(opf.subgraph, "refit-%d/first fit" % seed)
        first = [nd.predicted_label for nd in opf.subgraph.nodes]

        opf.fit(Xb, Yb)
        try:
            opf.propagate_labels()
        except Exception as exc:  # stale table shorter than the new forest
            fail("refit-%d: propagate_labels raised %r after the second fit" % (seed, exc))
            continue
        check_forest(opf.subgraph, True, "refit-%d/second fit" % seed)
        check_propagated(opf.subgraph, "refit-%d/second fit" % seed)

        fresh = UnsupervisedOPF(min_k=1, max_k=3)
        fresh.fit(Xb, Yb)
        fresh.propagate_labels()
        if node_state(fresh.subgraph) != node_state(opf.subgraph):
            fail("refit-%d: re-fitted model differs from a freshly built one" % seed)

        # and back again: the first data set must give the first answer
        opf.fit(Xa, Ya)
        opf.propagate_labels()
        if [nd.predicted_label for nd in opf.subgraph.nodes] != first:
            fail("refit-%d: third fit does not reproduce the first one" % seed)


def main():
    import warnings

    warnings.simplefilter("ignore")
    for cs in CASES:
        got = run_case(cs)
        if got != DIGESTS[cs["name"]]:
            fail("%s: results differ from the original implementation" % cs["name"])
    refit_history()
    if FAILURES:
        print("%d failure(s)" % len(FAILURES))
        sys.exit(1)
    print("OK: %d seeded cases identical to the original, forest property holds" % len(CASES))


if __name__ == "__main__":
    main()
