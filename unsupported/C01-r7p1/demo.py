"""C01 / p1 demo: SupervisedOPF.fit re-written with whole-array operations
(np.flatnonzero seeding, candidate mask, fancy-indexed arc weights, np.maximum over the row).

Exit 0  -> library behaves exactly like the original code and the optimum-path
           forest property holds on every input below.
Exit 1  -> a difference to the original code or a violation of the property was found.

Run as: cd /tmp/wt/C01 && PYTHONPATH=/tmp/wt/C01 /venv/bin/python demo.py
"""

import logging as _pylogging
import sys

import numpy as np

import opfython.utils.constants as c
from opfython.core import Heap, Subgraph
from opfython.models.supervised import SupervisedOPF

_pylogging.disable(_pylogging.CRITICAL)


class ReferenceOPF(SupervisedOPF):
    """Verbatim copy of the ORIGINAL _find_prototypes / fit (timing and logging removed)."""

    def _find_prototypes(self) -> None:
        h = Heap(self.subgraph.n_nodes)

        self.subgraph.nodes[0].pred = c.NIL

        h.insert(0)

        prototypes = []
        while not h.is_empty():
            p = h.remove()

            self.subgraph.nodes[p].cost = h.cost[p]

            pred = self.subgraph.nodes[p].pred
            if pred != c.NIL:
                if self.subgraph.nodes[p].label != self.subgraph.nodes[pred].label:
                    if self.subgraph.nodes[p].status != c.PROTOTYPE:
                        self.subgraph.nodes[p].status = c.PROTOTYPE
                        prototypes.append(p)

                    if self.subgraph.nodes[pred].status != c.PROTOTYPE:
                        self.subgraph.nodes[pred].status = c.PROTOTYPE
                        prototypes.append(pred)

            for q in range(self.subgraph.n_nodes):
                if h.color[q] != c.BLACK:
                    if p != q:
                        if self.pre_computed_distance:
                            weight = self.pre_distances[self.subgraph.nodes[p].idx][
                                self.subgraph.nodes[q].idx
                            ]
                        else:
                            weight = self.distance_fn(
                                self.subgraph.nodes[p].features,
                                self.subgraph.nodes[q].features,
                            )

                        if weight < h.cost[q]:
                            self.subgraph.nodes[q].pred = p

                            h.update(q, weight)

    def fit(self, X_train, Y_train, I_train=None) -> None:
        self.subgraph = Subgraph(X_train, Y_train, I=I_train)

        self._find_prototypes()

        h = Heap(size=self.subgraph.n_nodes)

        for i in range(self.subgraph.n_nodes):
            if self.subgraph.nodes[i].status == c.PROTOTYPE:
                self.subgraph.nodes[i].pred = c.NIL
                self.subgraph.nodes[i].predicted_label = self.subgraph.nodes[i].label

                h.cost[i] = 0
                h.insert(i)
            else:
                h.cost[i] = c.FLOAT_MAX

        while not h.is_empty():
            p = h.remove()

            self.subgraph.idx_nodes.append(p)
            self.subgraph.nodes[p].cost = h.cost[p]

            for q in range(self.subgraph.n_nodes):
                if p != q:
                    if h.cost[p] < h.cost[q]:
                        if self.pre_computed_distance:
                            weight = self.pre_distances[self.subgraph.nodes[p].idx][
                                self.subgraph.nodes[q].idx
                            ]
                        else:
                            weight = self.distance_fn(
                                self.subgraph.nodes[p].features,
                                self.subgraph.nodes[q].features,
                            )

                        # The current cost will be the maximum cost between the node's and its weight (arc)
                        current_cost = np.maximum(h.cost[p], weight)

                        if current_cost < h.cost[q]:
                            self.subgraph.nodes[q].pred = p
                            self.subgraph.nodes[
                                q
                            ].predicted_label = self.subgraph.nodes[p].predicted_label

                            h.update(q, current_cost)

        self.subgraph.trained = True


# ---------------------------------------------------------------------------
# inputs
# ---------------------------------------------------------------------------
METRICS = [
    "log_squared_euclidean",
    "euclidean",
    "manhattan",
    "chebyshev",
    "squared_euclidean",
    "canberra",
    "bray_curtis",
    "hamming",
]


def _labels(rng, n, n_classes):
    y = rng.integers(1, n_classes + 1, size=n)
    y[0], y[1] = 1, 2  # at least two classes
    return y.astype(int)


def make_cases():
    cases = []

    # continuous features, (almost surely) no ties
    for seed in range(12):
        rng = np.random.default_rng(1000 + seed)
        n = int(rng.integers(6, 40))
        d = int(rng.integers(1, 5))
        X = rng.random((n, d)) + 0.05
        Y = _labels(rng, n, int(rng.integers(2, 5)))
        cases.append(("cont-%d" % seed, X, Y, None, METRICS[seed % len(METRICS)], None))

    # small integer grids: many equal distances, duplicated points, label conflicts
    for seed in range(24):
        rng = np.random.default_rng(2000 + seed)
        n = int(rng.integers(8, 45))
        d = int(rng.integers(1, 3))
        X = rng.integers(1, 5, size=(n, d)).astype(float)
        Y = _labels(rng, n, int(rng.integers(2, 4)))
        cases.append(("grid-%d" % seed, X, Y, None, METRICS[seed % len(METRICS)], None))

    # pre-computed, symmetric, small-integer (tie-heavy) matrices, identity indexes (I_train=None)
    for seed in range(6):
        rng = np.random.default_rng(2500 + seed)
        n = int(rng.integers(6, 30))
        A = rng.integers(1, 6, size=(n, n)).astype(float)
        D = np.maximum(A, A.T)
        np.fill_diagonal(D, 0.0)
        X = rng.random((n, 2))
        Y = _labels(rng, n, int(rng.integers(2, 4)))
        cases.append(("pre-id-%d" % seed, X, Y, None, "euclidean", D))

    # pre-computed, symmetric matrices, training on a permuted subset of the matrix rows
    for seed in range(14):
        rng = np.random.default_rng(3000 + seed)
        n = int(rng.integers(6, 30))
        m = n + int(rng.integers(0, 6))
        if seed % 2:
            A = rng.random((m, m)) + 0.01  # continuous, no ties
        else:
            A = rng.integers(1, 6, size=(m, m)).astype(float)  # tie-heavy
        D = np.maximum(A, A.T)
        np.fill_diagonal(D, 0.0)
        if seed >= 12:
            D = D.astype(int) if seed % 2 == 0 else np.round(D * 100).astype(int)  # integer matrix
        I = rng.permutation(m)[:n].astype(int)
        X = rng.random((n, 2))
        Y = _labels(rng, n, int(rng.integers(2, 4)))
        cases.append(("pre-perm-%d" % seed, X, Y, I, "euclidean", D))

    return cases


# The call history that exposes an arc weight that is looked up with the *position* of a
# training sample instead of its *index* in the pre-computed matrix: six objects on a line at
# 0, 1, 2, 10, 11, 12 (matrix rows 0..5, |a - b| as dissimilarity), and a training set that
# uses rows 5, 0, 4, 1 in this order (I_train = [5, 0, 4, 1]); rows 2 and 3 are not used.
#
#   training sample : 0    1    2    3
#   matrix row      : 5    0    4    1
#   coordinate      : 12   0    11   1
#   label           : 2    1    2    1
#
# Minimum spanning tree: 0-2 (1), 1-3 (1), 2-3 (10): prototypes are samples 2 and 3, samples
# 0 and 1 are conquered over an arc of weight 1 by the prototype of their own class.
SPECIFIC_D = np.abs(np.subtract.outer([0.0, 1.0, 2.0, 10.0, 11.0, 12.0], [0.0, 1.0, 2.0, 10.0, 11.0, 12.0]))
SPECIFIC_I = np.array([5, 0, 4, 1])
SPECIFIC_X = np.zeros((4, 1))
SPECIFIC_Y = np.array([2, 1, 2, 1])
SPECIFIC_COSTS = [1.0, 1.0, 0.0, 0.0]
SPECIFIC_PREDS = [2, 3, -1, -1]
SPECIFIC_LABELS = [2, 1, 2, 1]


def build(cls, metric, D):
    opf = cls(distance=metric)
    if D is not None:
        opf.pre_computed_distance = True
        opf.pre_distances = D
    return opf


def snapshot(opf):
    sg = opf.subgraph
    return (
        [(float(n.cost), type(n.cost).__name__) for n in sg.nodes],
        [int(n.pred) for n in sg.nodes],
        [int(n.predicted_label) for n in sg.nodes],
        [int(n.status) for n in sg.nodes],
        [int(i) for i in sg.idx_nodes],
    )


def weight_matrix(opf):
    sg = opf.subgraph
    n = sg.n_nodes
    W = np.zeros((n, n))
    for i in range(n):
        for j in range(n):
            if i == j:
                continue
            if opf.pre_computed_distance:
                W[i, j] = opf.pre_distances[sg.nodes[i].idx][sg.nodes[j].idx]
            else:
                W[i, j] = opf.distance_fn(sg.nodes[i].features, sg.nodes[j].features)
    return W


def check_property(opf):
    """Checks the optimum-path forest property on a fitted classifier; returns a list of violations."""

    sg = opf.subgraph
    n = sg.n_nodes
    W = weight_matrix(opf)
    bad = []

    protos = [i for i in range(n) if sg.nodes[i].status == c.PROTOTYPE]
    if not protos:
        return ["no prototypes"]

    # minimax path costs (Floyd-Warshall on the (min, max) semiring)
    M = W.copy()
    for k in range(n):
        M = np.minimum(M, np.maximum(M[:, k][:, None], M[k, :][None, :]))
    np.fill_diagonal(M, 0.0)
    best = M[protos, :].min(axis=0)

    for i in range(n):
        node = sg.nodes[i]
        if float(node.cost) != float(best[i]):
            bad.append("cost[%d]=%r, optimum is %r" % (i, float(node.cost), float(best[i])))

        # follow the predecessor links
        j, steps = i, 0
        while sg.nodes[j].pred != c.NIL and steps <= n:
            par = sg.nodes[j].pred
            expect = max(float(sg.nodes[par].cost), float(W[par, j]))
            if float(sg.nodes[j].cost) != expect:
                bad.append("link %d->%d: cost %r != max(parent cost, arc) %r"
                           % (par, j, float(sg.nodes[j].cost), expect))
            j = par
            steps += 1
        if steps > n:
            bad.append("predecessor cycle from %d" % i)
            continue
        if sg.nodes[j].status != c.PROTOTYPE:
            bad.append("root %d of %d is not a prototype" % (j, i))
        if sg.nodes[j].cost != 0:
            bad.append("prototype %d has cost %r" % (j, sg.nodes[j].cost))
        if node.predicted_label != sg.nodes[j].label:
            bad.append("sample %d carries label %d but its root %d has true label %d"
                       % (i, node.predicted_label, j, sg.nodes[j].label))

    order = list(sg.idx_nodes)
    if sorted(order) != list(range(n)):
        bad.append("conquest order is not a permutation")
    costs = [float(sg.nodes[i].cost) for i in order]
    if any(a > b for a, b in zip(costs, costs[1:])):
        bad.append("conquest order is not sorted by cost")

    return bad


def run_case(name, X, Y, I, metric, D):
    failures = []

    lib = build(SupervisedOPF, metric, D)
    ref = build(ReferenceOPF, metric, D)

    # fit twice on the same object: a repeated call has to give the same forest
    for rep in range(2):
        lib.fit(X.copy(), Y.copy(), None if I is None else I.copy())
        ref.fit(X.copy(), Y.copy(), None if I is None else I.copy())

        got, want = snapshot(lib), snapshot(ref)
        for field, g_, w_ in zip(("cost", "pred", "predicted_label", "status", "idx_nodes"), got, want):
            if g_ != w_:
                failures.append("%s (fit #%d): %s differs from the original\n      got  %s\n      want %s"
                                % (name, rep + 1, field, g_, w_))

        for msg in check_property(lib)[:5]:
            failures.append("%s (fit #%d): property violated: %s" % (name, rep + 1, msg))

    return failures


def main():
    failures = []
    cases = make_cases()
    cases.append(("specific-subset", SPECIFIC_X, SPECIFIC_Y, SPECIFIC_I, "euclidean", SPECIFIC_D))

    for case in cases:
        failures.extend(run_case(*case))

    opf = build(SupervisedOPF, "euclidean", SPECIFIC_D)
    opf.fit(SPECIFIC_X.copy(), SPECIFIC_Y.copy(), SPECIFIC_I.copy())
    costs = [float(n.cost) for n in opf.subgraph.nodes]
    preds = [int(n.pred) for n in opf.subgraph.nodes]
    labels = [int(n.predicted_label) for n in opf.subgraph.nodes]
    if (costs, preds, labels) != (SPECIFIC_COSTS, SPECIFIC_PREDS, SPECIFIC_LABELS):
        failures.append("specific-subset: costs %s preds %s labels %s, expected %s %s %s"
                        % (costs, preds, labels, SPECIFIC_COSTS, SPECIFIC_PREDS, SPECIFIC_LABELS))

    print("%d inputs checked" % len(cases))
    if failures:
        print("%d FAILURES" % len(failures))
        for f in failures[:25]:
            print("  -", f)
        return 1

    print("OK: identical to the original code, optimum-path forest property holds")
    return 0


if __name__ == "__main__":
    sys.exit(main())
