"""C08 / p1 demo - EPSILON-shift decorator (opfython/utils/decorator.py).

Exit 0  : every EPSILON-shifted metric is bit-identical to the ORIGINAL decorator
          (verbatim copy below) and the metric axioms hold on the probe inputs.
Exit 1  : a difference / axiom violation was found.

Run as: cd /tmp/wt/C08 && PYTHONPATH=/tmp/wt/C08 /venv/bin/python demo.py
"""

import math
import struct
import sys
import types
from functools import wraps

import numpy as np

import opfython.utils.constants as c
from opfython.math.distance import DISTANCES


# --------------------------------------------------------------------------- #
# Verbatim copy of the ORIGINAL decorator (reference behaviour)
# --------------------------------------------------------------------------- #
def ref_avoid_zero_division(f: callable) -> callable:
    @wraps(f)
    def _avoid_zero_division(x: np.array, y: np.array) -> callable:
        x = x + c.EPSILON
        y = y + c.EPSILON

        return f(x, y)

    return _avoid_zero_division


def call(f, x, y):
    """Evaluates a metric; an exception is reported as a value, not propagated."""
    try:
        return f(x, y)
    except Exception as e:  # e.g. numba's ZeroDivisionError on scalar divisions
        return f"raised {type(e).__name__}"


def bits(v):
    if isinstance(v, str):
        return v
    v = float(v)
    if math.isnan(v):
        return "nan"
    return struct.pack("<d", v).hex()


# Decorated metrics are plain python wrappers carrying functools.wraps'
# `__wrapped__` (un-decorated ones are numba dispatchers); the raw
# (numba / numpy) body is re-wrapped with the original decorator as reference.
SHIFTED = {
    n: f
    for n, f in DISTANCES.items()
    if isinstance(f, types.FunctionType) and hasattr(f, "__wrapped__")
}
REF = {n: ref_avoid_zero_division(f.__wrapped__) for n, f in SHIFTED.items()}
assert len(SHIFTED) >= 30, "expected the EPSILON-shifted metrics to be decorated"

failures = []


def fail(msg, always=False):
    failures.append(msg)
    if always or len(failures) <= 12:
        print("FAIL:", msg)


# --------------------------------------------------------------------------- #
# Seeded inputs: dense positive, sparse (exact zeros), tie-heavy small integers,
# one-dimensional, parallel, float32 and integer-dtype rows
# --------------------------------------------------------------------------- #
rng = np.random.default_rng(808)
pairs = []
for k in range(12):
    n = int(rng.integers(1, 9))
    pairs.append((rng.random(n) * 5 + 0.1, rng.random(n) * 5 + 0.1))
for k in range(12):
    n = int(rng.integers(1, 9))
    x = rng.random(n) * (rng.random(n) > 0.4)
    y = rng.random(n) * (rng.random(n) > 0.4)
    pairs.append((x, y))
for k in range(10):
    n = int(rng.integers(2, 7))
    pairs.append(
        (rng.integers(0, 3, n).astype(float), rng.integers(0, 3, n).astype(float))
    )
for k in range(4):
    n = int(rng.integers(2, 6))
    x = rng.integers(0, 4, n).astype(float)
    pairs.append((x, 2.0 * x))
pairs.append((np.zeros(3), np.zeros(3)))
pairs.append((np.array([0.0]), np.array([0.0])))
pairs.append((np.array([0.0]), np.array([2.5])))
pairs.append(
    (np.array([0, 1, 2, 4], dtype=np.float32), np.array([0, 2, 2, 3], dtype=np.float32))
)
pairs.append((np.array([0, 3, 1, 0]), np.array([2, 0, 1, 0])))  # int64 histograms
pairs.append((np.array([5.1, 3.5, 1.4, 0.3]), np.array([5.4, 3.4, 1.7, 0.2])))
assert len(pairs) >= 30


def same(name, what, got, want):
    if bits(got) != bits(want):
        fail(f"{name}: {what}: got {got!r}, original gives {want!r}")


n_checked = 0
with np.errstate(all="ignore"):
    for name in sorted(SHIFTED):
        new, ref = SHIFTED[name], REF[name]
        for i, (x, y) in enumerate(pairs):
            x0, y0 = x.copy(), y.copy()
            same(name, f"pair {i} d(x, y)", call(new, x, y), call(ref, x, y))
            same(name, f"pair {i} d(y, x)", call(new, y, x), call(ref, y, x))
            # self-distance the way a caller holding ONE row object asks for it
            same(name, f"pair {i} d(x, x) x={x.tolist()}", call(new, x, x), call(ref, x, x))
            same(name, f"pair {i} d(y, y) y={y.tolist()}", call(new, y, y), call(ref, y, y))
            # ... and with an equal but distinct object
            same(name, f"pair {i} d(x, copy(x))", call(new, x, x.copy()), call(ref, x, x.copy()))
            # repeated call gives the same answer, inputs are never modified
            same(name, f"pair {i} repeated d(x, y)", call(new, x, y), call(ref, x, y))
            if not (np.array_equal(x, x0) and np.array_equal(y, y0)):
                fail(f"{name}: pair {i}: caller's arrays were modified")
            n_checked += 6

# --------------------------------------------------------------------------- #
# The specific probe: self-distance of ONE zero-containing row object
# --------------------------------------------------------------------------- #
row = np.array([0.0, 1.0, 2.0, 4.0, 0.0])
for name in (
    "canberra",
    "soergel",
    "chi_squared",
    "clark",
    "divergence",
    "jeffreys",
    "kullback_leibler",
    "topsoe",
    "vicis_wave_hedges",
    "additive_symmetric",
):
    with np.errstate(all="ignore"):
        v = float(DISTANCES[name](row, row))
    if not math.isfinite(v):
        fail(f"{name}: d(row, row) = {v} is not finite for row={row.tolist()}", True)
    elif abs(v) > 1e-9:
        fail(f"{name}: d(row, row) = {v} instead of 0 for row={row.tolist()}", True)

# Canberra is a true metric: d(a, a) <= d(a, b) + d(b, a) must hold
a, b = np.array([0.0, 0.0, 0.0, 3.0]), np.array([0.0, 0.0, 1.0, 3.0])
can = DISTANCES["canberra"]
if can(a, a) > can(a, b) + can(b, a) + 1e-12:
    fail(
        f"canberra: triangle inequality violated through the self-distance: "
        f"d(a,a)={can(a, a)}, d(a,b)={can(a, b)}, d(b,a)={can(b, a)}",
        True,
    )

print(f"{n_checked} comparisons against the original decorator, {len(failures)} failures")
sys.exit(1 if failures else 0)
