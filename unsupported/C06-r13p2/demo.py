"""C06 / p2 demo: every registry metric equals its closed form, for every sign pattern.

Exit 0 : hassanat (the rewritten formula) is bit-identical to the original njit body,
         all 47 registry entries - called directly and through OPF(distance=name).distance_fn -
         agree with an independent closed form, and OPF.get_distances /
         general.pre_compute_distance / OPF._read_distances behave as the original code.
Exit 1 : otherwise.
"""

import logging
import math
import os
import shutil
import sys
import tempfile
import types
import warnings
from functools import wraps

logging.disable(logging.CRITICAL)

import numpy as np
from numba import njit

import opfython.utils.constants as c
from opfython.core.opf import OPF
from opfython.core.subgraph import Subgraph
from opfython.math import general
from opfython.math.distance import DISTANCES

warnings.simplefilter("ignore")
np.seterr(all="ignore")

failures = []
printed = {}


def fail(msg, section="values"):
    printed[section] = printed.get(section, 0) + 1
    if printed[section] <= 10:
        print(f"FAIL ({section}):", msg)
    failures.append(msg)


# --------------------------------------------------------------------------- references
# verbatim copies of the original code
def avoid_zero_division(f: callable) -> callable:
    @wraps(f)
    def _avoid_zero_division(x: np.array, y: np.array) -> callable:
        x = x + c.EPSILON
        y = y + c.EPSILON

        return f(x, y)

    return _avoid_zero_division


@avoid_zero_division
@njit
def original_hassanat_distance(x: np.array, y: np.array) -> float:
    # Creates an empty variable to hold each dimension's
    dist = np.zeros(x.shape[0])

    # Creates a binary mask
    mask = np.minimum(x, y) >= 0

    # Iterates through all dimensions
    for i in range(x.shape[0]):
        if mask[i] is True:
            dist[i] = 1 - (1 + np.minimum(x[i], y[i])) / (1 + np.maximum(x[i], y[i]))

        else:
            dist[i] = 1 - (
                1 + np.minimum(x[i], y[i]) + np.fabs(np.minimum(x[i], y[i]))
            ) / (1 + np.maximum(x[i], y[i]) + np.fabs(np.minimum(x[i], y[i])))

    return np.sum(dist)


def original_get_distances(self, normalize: bool = False) -> np.array:
    distances = np.zeros((self.subgraph.n_nodes, self.subgraph.n_nodes))

    for i in range(self.subgraph.n_nodes):
        for j in range(self.subgraph.n_nodes):
            distances[i][j] = self.distance_fn(
                self.subgraph.nodes[i].features, self.subgraph.nodes[j].features
            )

    if normalize:
        return (distances - distances.min()) / (
            distances.max() - distances.min()
        )

    return distances


def original_pre_compute_distance(data, output, distance="log_squared_euclidean"):
    size = data.shape[0]

    distances = np.zeros((size, size))
    for i in range(size):
        for j in range(size):
            distances[i][j] = DISTANCES[distance](data[i], data[j])

    delimiter = "," if output.split(".")[-1] == "csv" else " "

    np.savetxt(output, distances, delimiter=delimiter)


# independent closed forms (plain python / numpy, written from the published definitions)
def hassanat_closed_form(x, y):
    total = 0.0
    for a, b in zip(x, y):
        lo, hi = min(a, b), max(a, b)
        if lo >= 0:
            total += 1 - (1 + lo) / (1 + hi)
        else:
            total += 1 - (1 + lo + abs(lo)) / (1 + hi + abs(lo))
    return total


E = c.EPSILON
W = c.MAX_ARC_WEIGHT
s = np.sum
CLOSED = {
    "additive_symmetric": lambda x, y: 2 * s((x - y) ** 2 * (x + y) / (x * y)),
    "average_euclidean": lambda x, y: math.sqrt(s((x - y) ** 2) / len(x)),
    "bhattacharyya": lambda x, y: -math.log(s(np.sqrt(x * y))),
    "bray_curtis": lambda x, y: s(abs(x - y)) / s(x + y),
    "canberra": lambda x, y: s(abs(x - y) / (abs(x) + abs(y))),
    "chebyshev": lambda x, y: max(abs(x - y)),
    "chi_squared": lambda x, y: 0.5 * s((x - y) ** 2 / (x + y)),
    "chord": lambda x, y: math.sqrt(max(2 - 2 * s(x * y) / (math.sqrt(s(x * x)) * math.sqrt(s(y * y))), 0.0)),
    "clark": lambda x, y: math.sqrt(s(((x - y) / abs(x + y)) ** 2)),
    "cosine": lambda x, y: 1 - s(x * y) / (math.sqrt(s(x * x)) * math.sqrt(s(y * y))),
    "dice": lambda x, y: 1 - 2 * s(x * y) / (s(x * x) + s(y * y)),
    "divergence": lambda x, y: 2 * s((x - y) ** 2 / (x + y) ** 2),
    "euclidean": lambda x, y: math.sqrt(s((x - y) ** 2)),
    "gaussian": lambda x, y: math.exp(-math.sqrt(s((x - y) ** 2))),
    "gower": lambda x, y: s(abs(x - y)) / len(x),
    "hamming": lambda x, y: float(sum(1 for a, b in zip(x, y) if a != b)),
    "hassanat": hassanat_closed_form,
    "hellinger": lambda x, y: math.sqrt(2 * s((np.sqrt(x) - np.sqrt(y)) ** 2)),
    "jaccard": lambda x, y: s((x - y) ** 2) / (s(x * x) + s(y * y) - s(x * y)),
    "jeffreys": lambda x, y: s((x - y) * np.log(x / y)),
    "jensen": lambda x, y: 0.5 * s((x * np.log(x) + y * np.log(y)) / 2 - (x + y) / 2 * np.log((x + y) / 2)),
    "jensen_shannon": lambda x, y: 0.5 * (s(x * np.log(2 * x / (x + y))) + s(y * np.log(2 * y / (x + y)))),
    "k_divergence": lambda x, y: s(x * np.log(2 * x / (x + y))),
    "kulczynski": lambda x, y: s(abs(x - y)) / s(np.minimum(x, y)),
    "kullback_leibler": lambda x, y: s(x * np.log(x / y)),
    "log_euclidean": lambda x, y: W * math.log(math.sqrt(s((x - y) ** 2)) + 1),
    "log_squared_euclidean": lambda x, y: W * math.log(s((x - y) ** 2) + 1),
    "lorentzian": lambda x, y: s(np.log(1 + abs(x - y))),
    "manhattan": lambda x, y: s(abs(x - y)),
    "matusita": lambda x, y: math.sqrt(s((np.sqrt(x) - np.sqrt(y)) ** 2)),
    "max_symmetric": lambda x, y: max(s((x - y) ** 2 / x), s((x - y) ** 2 / y)),
    "mean_censored_euclidean": lambda x, y: math.sqrt(s((x - y) ** 2) / np.count_nonzero(x + y)),
    "min_symmetric": lambda x, y: min(s((x - y) ** 2 / x), s((x - y) ** 2 / y)),
    "neyman": lambda x, y: s((x - y) ** 2 / x),
    "non_intersection": lambda x, y: 0.5 * s(abs(x - y)),
    "pearson": lambda x, y: s((x - y) ** 2 / y),
    "sangvi": lambda x, y: 2 * s((x - y) ** 2 / (x + y)),
    "soergel": lambda x, y: s(abs(x - y)) / s(np.maximum(x, y)),
    "squared": lambda x, y: s((x - y) ** 2 / (x + y)),
    "squared_chord": lambda x, y: s((np.sqrt(x) - np.sqrt(y)) ** 2),
    "squared_euclidean": lambda x, y: s((x - y) ** 2),
    "statistic": lambda x, y: s((x - (x + y) / 2) / ((x + y) / 2)),
    "topsoe": lambda x, y: s(x * np.log(2 * x / (x + y))) + s(y * np.log(2 * y / (x + y))),
    "vicis_symmetric1": lambda x, y: s((x - y) ** 2 / np.minimum(x, y) ** 2),
    "vicis_symmetric2": lambda x, y: s((x - y) ** 2 / np.minimum(x, y)),
    "vicis_symmetric3": lambda x, y: s((x - y) ** 2 / np.maximum(x, y)),
    "vicis_wave_hedges": lambda x, y: s(abs(x - y) / np.minimum(x, y)),
}
# metrics defined for every real vector; the others need strictly positive components
ALL_REALS = {
    "average_euclidean", "chebyshev", "euclidean", "gaussian", "gower", "hamming", "hassanat",
    "log_euclidean", "log_squared_euclidean", "lorentzian", "manhattan", "non_intersection",
    "squared_euclidean", "jaccard", "dice", "cosine", "chord",
}

if set(CLOSED) != set(DISTANCES) or len(DISTANCES) != 47:
    fail("registry identifiers differ from the 47 published ones", "registry")

accepted = set()
for name in CLOSED:
    try:
        clf = OPF(distance=name)
    except Exception as err:
        fail(f"OPF(distance={name!r}) rejected: {type(err).__name__}", "registry")
        continue
    accepted.add(name)
    if clf.distance_fn is not DISTANCES.get(name):
        fail(f"OPF(distance={name!r}).distance_fn is not DISTANCES[{name!r}]", "registry")
for bogus in ("", "euclid", "Euclidean", "squared_", "l2"):
    try:
        OPF(distance=bogus)
        fail(f"OPF accepted unknown identifier {bogus!r}", "registry")
    except Exception:
        pass


# --------------------------------------------------------------------------- inputs
def make_inputs():
    rng = np.random.default_rng(20261003)
    inputs = []
    for n in (1, 2, 3, 4, 5, 8, 13, 33):
        inputs.append(("positive", rng.uniform(0.05, 6.0, n), rng.uniform(0.05, 6.0, n)))
        p, q = rng.uniform(0.01, 1.0, n), rng.uniform(0.01, 1.0, n)
        inputs.append(("probability", p / p.sum(), q / q.sum()))
        inputs.append(("negative", -rng.uniform(0.05, 6.0, n), -rng.uniform(0.05, 6.0, n)))
        inputs.append(("mixed sign", rng.normal(0, 3, n), rng.normal(0, 3, n)))
        # tie heavy: small integer grids, plenty of equal components, zeros and sign changes
        inputs.append(
            ("grid", rng.integers(-2, 3, n).astype(float), rng.integers(-2, 3, n).astype(float))
        )
        inputs.append(
            ("positive grid", rng.integers(1, 4, n).astype(float), rng.integers(1, 4, n).astype(float))
        )
    x = rng.normal(0, 2, 6)
    inputs.append(("identical", x, x.copy()))
    inputs.append(("opposite", x, -x))
    inputs.append(("zeros", np.zeros(5), np.zeros(5)))
    inputs.append(("zero vs negative", np.zeros(4), -rng.uniform(0.1, 2, 4)))
    inputs.append(("zero vs positive", np.zeros(4), rng.uniform(0.1, 2, 4)))
    # the smallest witness: each component has one negative and one non-negative value
    inputs.append(("witness", np.asarray([-1.5, 2.0]), np.asarray([0.5, -1.0])))
    return inputs


def call(fn, x, y):
    try:
        return ("ok", np.float64(fn(x, y)))
    except Exception as err:
        return ("raised", type(err).__name__)


def identical(a, b):
    if a[0] != b[0]:
        return False
    if a[0] == "raised":
        return True
    return a[1].tobytes() == b[1].tobytes() or (np.isnan(a[1]) and np.isnan(b[1]))


# --------------------------------------------------------------------------- part 1
inputs = make_inputs()
n_bits = n_closed = 0
for kind, x, y in inputs:
    in_positive_domain = bool(np.all(x > 0) and np.all(y > 0))

    # (a) the rewritten formula against the verbatim original: bit for bit, every input
    for fn in (DISTANCES["hassanat"], OPF(distance="hassanat").distance_fn):
        got, want = call(fn, x.copy(), y.copy()), call(original_hassanat_distance, x.copy(), y.copy())
        n_bits += 1
        if not identical(got, want):
            fail(f"hassanat on {kind} n={x.size}: got {got[1]!r}, original gave {want[1]!r}")
        got, want = call(fn, y.copy(), x.copy()), call(original_hassanat_distance, y.copy(), x.copy())
        if not identical(got, want):
            fail(f"hassanat (swapped) on {kind} n={x.size}: got {got[1]!r}, original gave {want[1]!r}")

    # (b) every metric against its closed form, inside its domain
    for name, closed in CLOSED.items():
        if not (in_positive_domain or name in ALL_REALS):
            continue
        if name in ("jaccard", "dice", "cosine", "chord") and (not x.any() or not y.any()):
            continue  # 0 / 0
        decorated = isinstance(DISTANCES[name], types.FunctionType)
        xs, ys = (x + E, y + E) if decorated else (x, y)
        want = closed(xs, ys)
        got = DISTANCES[name](x.copy(), y.copy())
        n_closed += 1
        if not np.isclose(got, want, rtol=1e-9, atol=1e-12, equal_nan=True):
            fail(f"{name} on {kind} n={x.size}: got {got!r}, closed form {want!r}")
print(f"part 1: {n_bits} bit-exact hassanat comparisons, {n_closed} closed-form comparisons")

# --------------------------------------------------------------------------- part 2
# the surrounding plumbing that was rewritten: distance matrices and the distance file reader
rng = np.random.default_rng(99)
tmp = tempfile.mkdtemp(prefix="c06p2_")
for trial in range(6):
    n = (1, 2, 5, 9, 12, 7)[trial]
    feats = rng.integers(-2, 3, (n, 4)).astype(float) if trial % 2 else rng.normal(0, 2, (n, 4))
    for name in ("hassanat", "log_squared_euclidean", "manhattan", "chebyshev"):
        clf = OPF(distance=name)
        clf.subgraph = Subgraph(feats.copy(), np.zeros(n, dtype=int))
        for normalize in (False, True):
            got = clf.get_distances(normalize=normalize)
            want = original_get_distances(clf, normalize=normalize)
            if got.shape != want.shape or not np.array_equal(got, want, equal_nan=True):
                fail(f"get_distances({name}, normalize={normalize}) differs, n={n}", "plumbing")
        # hassanat matrix against the original formula
        if name == "hassanat":
            want = np.array([[original_hassanat_distance(a, b) for b in feats] for a in feats]).reshape(n, n)
            if not np.array_equal(clf.get_distances(), want):
                dev = np.max(np.abs(clf.get_distances() - want))
                fail(f"OPF(distance='hassanat').get_distances() n={n}: max |deviation| = {dev:.3g}")
        for ext in ("txt", "csv"):
            a, b = os.path.join(tmp, f"a.{ext}"), os.path.join(tmp, f"b.{ext}")
            general.pre_compute_distance(feats, a, name)
            original_pre_compute_distance(feats, b, name)
            if open(a).read() != open(b).read():
                fail(f"pre_compute_distance({name}) wrote a different .{ext} file, n={n}", "plumbing")
            if n > 1:
                loaded = OPF(distance=name, pre_computed_distance=a).pre_distances
                if not np.array_equal(loaded, np.loadtxt(b, delimiter="," if ext == "csv" else None).reshape(loaded.shape)):
                    fail(f"_read_distances gave a different matrix for .{ext}, n={n}", "plumbing")
for bad in ("matrix.dat", "matrix", os.path.join(tmp, "missing.txt")):
    try:
        OPF(pre_computed_distance=bad)
        fail(f"OPF accepted the distance file {bad!r}", "plumbing")
    except Exception:
        pass

shutil.rmtree(tmp, ignore_errors=True)

if failures:
    print(f"{len(failures)} check(s) failed")
    sys.exit(1)
print("all checks passed")
sys.exit(0)
