"""C08 / p1 demo: Bray-Curtis, Kulczynski and Soergel as fused single-pass loops.

Exit 0  : the three metrics are bit-identical to the original implementation
          (inlined verbatim below) on all seeded inputs and Soergel keeps its
          metric axioms (finite, symmetric, non-negative, triangle).
Exit !=0: any difference / axiom violation.
"""

import sys
from functools import wraps

import numpy as np
from numba import njit

import opfython.utils.constants as c
from opfython.math.distance import DISTANCES


# --------------------------------------------------------------------------
# Verbatim copy of the ORIGINAL code (decorator + the three metrics)
# --------------------------------------------------------------------------
def avoid_zero_division(f):
    @wraps(f)
    def _avoid_zero_division(x, y):
        x = x + c.EPSILON
        y = y + c.EPSILON

        return f(x, y)

    return _avoid_zero_division


@avoid_zero_division
@njit
def ref_bray_curtis_distance(x, y):
    dist = np.sum(np.fabs(x - y)) / np.sum(x + y)

    return dist


@avoid_zero_division
@njit
def ref_kulczynski_distance(x, y):
    dist = np.sum(np.fabs(x - y)) / np.sum(np.minimum(x, y))

    return dist


@avoid_zero_division
@njit
def ref_soergel_distance(x, y):
    dist = np.sum(np.fabs(x - y)) / np.sum(np.maximum(x, y))

    return dist


REFERENCE = {
    "bray_curtis": ref_bray_curtis_distance,
    "kulczynski": ref_kulczynski_distance,
    "soergel": ref_soergel_distance,
}


# --------------------------------------------------------------------------
# Inputs
# --------------------------------------------------------------------------
def seeded_pairs():
    pairs = []

    # The pinned unit-test pair
    pairs.append((np.asarray([5.1, 3.5, 1.4, 0.3]), np.asarray([5.4, 3.4, 1.7, 0.2])))

    for seed in range(60):
        rng = np.random.RandomState(seed)
        n = [1, 2, 3, 4, 7, 16, 129, 1000][seed % 8]
        kind = seed % 5

        if kind == 0:
            # Generic positive reals
            x, y = rng.rand(n) * 10, rng.rand(n) * 10
        elif kind == 1:
            # Tie-heavy: small integer grid, many equal coordinates
            x = rng.randint(0, 3, n).astype(float)
            y = rng.randint(0, 3, n).astype(float)
        elif kind == 2:
            # Zero-containing, y equals x in about half of the dimensions
            x = np.round(rng.rand(n) * 4, 1) * (rng.rand(n) > 0.3)
            y = np.where(rng.rand(n) > 0.5, x, np.round(rng.rand(n) * 4, 1))
        elif kind == 3:
            # Tiny magnitudes (the EPSILON shift is not a no-op here)
            x, y = rng.rand(n) * 1e-6, rng.rand(n) * 1e-6
            y[:: 2] = x[:: 2]
        else:
            # float32 features with ties
            x = np.round(rng.rand(n) * 5, 1).astype(np.float32)
            y = np.where(rng.rand(n) > 0.5, x, x + np.float32(0.5)).astype(np.float32)

        pairs.append((x, y))

    # Mixed dtypes, integer features, parallel vectors
    pairs.append((np.asarray([1.5, 2.5, 0.0], dtype=np.float32), np.asarray([1.5, 1.0, 3.0])))
    pairs.append((np.asarray([1, 2, 3, 0]), np.asarray([1, 5, 3, 2])))
    pairs.append((np.asarray([1.5, 4.3, 0.7]), 2 * np.asarray([1.5, 4.3, 0.7])))

    return pairs


def same(a, b):
    a, b = np.asarray(a), np.asarray(b)

    if a.dtype != b.dtype:
        return False

    return a.tobytes() == b.tobytes() or (np.isnan(a) and np.isnan(b))


def main():
    failures = []

    # (1) bit-identity against the original, both argument orders
    pairs = seeded_pairs()
    for k, (x, y) in enumerate(pairs):
        for name, ref in REFERENCE.items():
            for a, b in ((x, y), (y, x)):
                want = ref(a, b)
                try:
                    got = DISTANCES[name](a, b)
                except ZeroDivisionError as e:
                    failures.append(f"pair {k} {name}: original {want!r}, current raised {e!r}")
                    continue

                if not same(want, got):
                    failures.append(
                        f"pair {k} {name}: original {want!r} != current {got!r}"
                    )

    # Identical non-zero vectors: zero self-distance
    for k, (x, _) in enumerate(pairs):
        if not np.any(x):
            continue
        for name, ref in REFERENCE.items():
            try:
                got = DISTANCES[name](x, x)
            except ZeroDivisionError as e:
                failures.append(f"self {k} {name}: raised {e!r}")
                continue
            if not same(ref(x, x), got):
                failures.append(f"self {k} {name}: {ref(x, x)!r} != {got!r}")

    # (2) the specific history: Soergel triangle inequality on a triple whose
    #     outer vectors tie in the dominant coordinate
    soergel = DISTANCES["soergel"]
    x = np.asarray([0.0, 100.0])
    y = np.asarray([1.0, 101.0])
    z = np.asarray([2.0, 100.0])

    d_xz, d_xy, d_yz = soergel(x, z), soergel(x, y), soergel(y, z)
    print(f"soergel d(x,z)={d_xz!r}  d(x,y)+d(y,z)={d_xy + d_yz!r}")

    if not d_xz <= d_xy + d_yz + 1e-12:
        failures.append(
            f"soergel triangle inequality violated: d(x,z)={d_xz} > {d_xy} + {d_yz}"
        )

    # Axioms on tie-heavy seeded triples
    for seed in range(40):
        rng = np.random.RandomState(1000 + seed)
        n = 1 + seed % 4
        a, b, e = (rng.randint(0, 4, n).astype(float) for _ in range(3))

        if not (np.any(a) and np.any(b) and np.any(e)):
            continue

        try:
            d_ab, d_ba, d_be, d_ae = soergel(a, b), soergel(b, a), soergel(b, e), soergel(a, e)
        except ZeroDivisionError as err:
            failures.append(f"triple {seed}: raised {err!r}")
            continue

        if not all(np.isfinite(v) and v >= 0 for v in (d_ab, d_be, d_ae)):
            failures.append(f"triple {seed}: not finite / negative")
        if d_ab != d_ba:
            failures.append(f"triple {seed}: asymmetric {d_ab} vs {d_ba}")
        if d_ae > d_ab + d_be + 1e-12:
            failures.append(
                f"triple {seed}: triangle violated {d_ae} > {d_ab} + {d_be} "
                f"for {a}, {b}, {e}"
            )

    if failures:
        print(f"FAIL ({len(failures)} problems)")
        for f in failures[:15]:
            print("  ", f)
        return 1

    print(f"OK: {len(pairs)} seeded pairs bit-identical, Soergel axioms hold")
    return 0


if __name__ == "__main__":
    sys.exit(main())
