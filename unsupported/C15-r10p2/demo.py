"""Demo for C15 / p2 (NumPy 2 clean-up of the shared MST prototype search).

Exits 0 when SemiSupervisedOPF.fit behaves exactly like the original implementation
(verbatim reference copy below) on every default-path call, non-zero otherwise.

Run as: cd /tmp/wt/C15 && PYTHONPATH=/tmp/wt/C15 /venv/bin/python demo.py
"""

import logging as _pylogging
import sys

import numpy as np

import opfython.math.distance as d
import opfython.utils.constants as c
from opfython.core import Heap, Node, Subgraph
from opfython.models.semi_supervised import SemiSupervisedOPF
from opfython.models.supervised import SupervisedOPF

_pylogging.disable(_pylogging.CRITICAL)


# --------------------------------------------------------------------------- #
# Verbatim reference copies of the ORIGINAL functions (HEAD a6a0f45).
# --------------------------------------------------------------------------- #
def ref_find_prototypes(self):
    h = Heap(self.subgraph.n_nodes)

    self.subgraph.nodes[0].pred = c.NIL

    h.insert(0)

    prototypes = []
    while not h.is_empty():
        p = h.remove()

        self.subgraph.nodes[p].cost = h.cost[p]

        pred = self.subgraph.nodes[p].pred
        if pred != c.NIL:
            if self.subgraph.nodes[p].label != self.subgraph.nodes[pred].label:
                if self.subgraph.nodes[p].status != c.PROTOTYPE:
                    self.subgraph.nodes[p].status = c.PROTOTYPE
                    prototypes.append(p)

                if self.subgraph.nodes[pred].status != c.PROTOTYPE:
                    self.subgraph.nodes[pred].status = c.PROTOTYPE
                    prototypes.append(pred)

        for q in range(self.subgraph.n_nodes):
            if h.color[q] != c.BLACK:
                if p != q:
                    if self.pre_computed_distance:
                        weight = self.pre_distances[self.subgraph.nodes[p].idx][
                            self.subgraph.nodes[q].idx
                        ]
                    else:
                        weight = self.distance_fn(
                            self.subgraph.nodes[p].features,
                            self.subgraph.nodes[q].features,
                        )

                    if weight < h.cost[q]:
                        self.subgraph.nodes[q].pred = p

                        h.update(q, weight)


def ref_semi_fit(self, X_train, Y_train, X_unlabeled, I_train=None, I_unlabeled=None):
    self.subgraph = Subgraph(X_train, Y_train, I_train)

    ref_find_prototypes(self)

    current_n_nodes = self.subgraph.n_nodes
    for i, feature in enumerate(X_unlabeled):
        if I_unlabeled is not None:
            node = Node(I_unlabeled[i].item(), 0, feature)
        else:
            node = Node(current_n_nodes + i, 0, feature)

        self.subgraph.nodes.append(node)

    h = Heap(size=self.subgraph.n_nodes)

    for i in range(self.subgraph.n_nodes):
        if self.subgraph.nodes[i].status == c.PROTOTYPE:
            self.subgraph.nodes[i].pred = c.NIL
            self.subgraph.nodes[i].predicted_label = self.subgraph.nodes[i].label

            h.cost[i] = 0
            h.insert(i)
        else:
            h.cost[i] = c.FLOAT_MAX

    while not h.is_empty():
        p = h.remove()

        self.subgraph.idx_nodes.append(p)
        self.subgraph.nodes[p].cost = h.cost[p]

        for q in range(self.subgraph.n_nodes):
            if p != q:
                if h.cost[p] < h.cost[q]:
                    if self.pre_computed_distance:
                        weight = self.pre_distances[self.subgraph.nodes[p].idx][
                            self.subgraph.nodes[q].idx
                        ]
                    else:
                        weight = self.distance_fn(
                            self.subgraph.nodes[p].features,
                            self.subgraph.nodes[q].features,
                        )

                    current_cost = np.maximum(h.cost[p], weight)
                    if current_cost < h.cost[q]:
                        self.subgraph.nodes[q].pred = p
                        self.subgraph.nodes[
                            q
                        ].predicted_label = self.subgraph.nodes[p].predicted_label

                        self.subgraph.nodes[q].label = self.subgraph.nodes[
                            q
                        ].predicted_label

                        h.update(q, current_cost)

    self.subgraph.trained = True


def ref_sup_fit(self, X_train, Y_train, I_train=None):
    self.subgraph = Subgraph(X_train, Y_train, I=I_train)

    ref_find_prototypes(self)

    h = Heap(size=self.subgraph.n_nodes)

    for i in range(self.subgraph.n_nodes):
        if self.subgraph.nodes[i].status == c.PROTOTYPE:
            self.subgraph.nodes[i].pred = c.NIL
            self.subgraph.nodes[i].predicted_label = self.subgraph.nodes[i].label

            h.cost[i] = 0
            h.insert(i)
        else:
            h.cost[i] = c.FLOAT_MAX

    while not h.is_empty():
        p = h.remove()

        self.subgraph.idx_nodes.append(p)
        self.subgraph.nodes[p].cost = h.cost[p]

        for q in range(self.subgraph.n_nodes):
            if p != q:
                if h.cost[p] < h.cost[q]:
                    if self.pre_computed_distance:
                        weight = self.pre_distances[self.subgraph.nodes[p].idx][
                            self.subgraph.nodes[q].idx
                        ]
                    else:
                        weight = self.distance_fn(
                            self.subgraph.nodes[p].features,
                            self.subgraph.nodes[q].features,
                        )

                    current_cost = np.maximum(h.cost[p], weight)

                    if current_cost < h.cost[q]:
                        self.subgraph.nodes[q].pred = p
                        self.subgraph.nodes[
                            q
                        ].predicted_label = self.subgraph.nodes[p].predicted_label

                        h.update(q, current_cost)

    self.subgraph.trained = True


# --------------------------------------------------------------------------- #
# Helpers
# --------------------------------------------------------------------------- #
FAILURES = []


def snapshot(opf):
    sg = opf.subgraph
    nodes = [
        (
            n.idx,
            n.label,
            n.predicted_label,
            float(n.cost).hex(),
            n.pred,
            n.status,
        )
        for n in sg.nodes
    ]
    return {"n": sg.n_nodes, "nodes": nodes, "order": list(sg.idx_nodes), "trained": sg.trained}


def make_opf(cls, metric, D):
    opf = cls(distance=metric)
    if D is not None:
        opf.pre_computed_distance = True
        opf.pre_distances = D
    return opf


def check_case(name, metric, Xl, Yl, Xu, D=None, Il=None, Iu=None, opf=None):
    """Fits the library model and the reference, compares every observable."""

    if opf is None:
        opf = make_opf(SemiSupervisedOPF, metric, D)
    ref = make_opf(SemiSupervisedOPF, metric, D)

    kwargs = {}
    if Il is not None:
        kwargs["I_train"] = Il
    if Iu is not None:
        kwargs["I_unlabeled"] = Iu

    opf.fit(Xl.copy(), Yl.copy(), Xu.copy(), **kwargs)
    ref_semi_fit(ref, Xl.copy(), Yl.copy(), Xu.copy(), Il, Iu)

    got, exp = snapshot(opf), snapshot(ref)
    if got != exp:
        diff = [
            (i, g, e) for i, (g, e) in enumerate(zip(got["nodes"], exp["nodes"])) if g != e
        ]
        FAILURES.append(
            "%s: differs from original (n=%d vs %d, order equal=%s, first node diffs=%s)"
            % (name, got["n"], exp["n"], got["order"] == exp["order"], diff[:3])
        )

    check_property(name, opf, len(Xl), metric, D)

    return opf


def weight_matrix(opf, metric, D):
    nodes = opf.subgraph.nodes
    n = len(nodes)
    W = np.zeros((n, n))
    fn = d.DISTANCES[metric]
    for i in range(n):
        for j in range(n):
            if i != j:
                if D is not None:
                    W[i, j] = D[nodes[i].idx][nodes[j].idx]
                else:
                    W[i, j] = fn(nodes[i].features, nodes[j].features)
    return W


def check_property(name, opf, n_labeled, metric, D):
    """Independent check of the stated property (no reference implementation)."""

    sg = opf.subgraph
    nodes = sg.nodes
    n = sg.n_nodes
    W = weight_matrix(opf, metric, D)
    if not np.all(np.isfinite(W)):
        return

    protos = [i for i in range(n) if nodes[i].status == c.PROTOTYPE]
    if any(p >= n_labeled for p in protos):
        FAILURES.append("%s: prototype chosen among unlabeled samples" % name)

    # optimum max-arc path cost from the prototype set (simple O(n^2) Dijkstra variant)
    best = np.full(n, np.inf)
    best[protos] = 0.0
    done = np.zeros(n, dtype=bool)
    for _ in range(n):
        cand = np.where(done, np.inf, best)
        u = int(np.argmin(cand))
        if not np.isfinite(cand[u]):
            break
        done[u] = True
        best = np.where(done, best, np.minimum(best, np.maximum(best[u], W[u])))

    if sorted(sg.idx_nodes) != list(range(n)):
        missing = sorted(set(range(n)) - set(sg.idx_nodes))
        FAILURES.append("%s: samples never conquered: %s" % (name, missing[:8]))
        return

    for i in range(n):
        if float(nodes[i].cost) != float(best[i]):
            FAILURES.append(
                "%s: node %d cost %r is not the optimum path cost %r"
                % (name, i, float(nodes[i].cost), float(best[i]))
            )
            break

    for i in range(n):
        r, steps = i, 0
        while nodes[r].pred != c.NIL and steps <= n:
            r, steps = nodes[r].pred, steps + 1
        if nodes[r].status != c.PROTOTYPE or nodes[i].label != nodes[r].label:
            FAILURES.append("%s: node %d does not carry the label of its root" % (name, i))
            break


def gen_blobs(rng, n_classes, n_lab, n_unl, dim, scale=1.0, integer=False):
    centers = rng.normal(size=(n_classes, dim)) * 3.0 * scale
    Yl = np.concatenate(
        [np.arange(1, n_classes + 1), rng.integers(1, n_classes + 1, size=n_lab - n_classes)]
    )
    rng.shuffle(Yl)
    Xl = centers[Yl - 1] + rng.normal(size=(n_lab, dim)) * scale
    Yu = rng.integers(1, n_classes + 1, size=n_unl)
    Xu = centers[Yu - 1] + rng.normal(size=(n_unl, dim)) * 1.5 * scale
    if n_unl == 0:
        Xu = np.empty((0, dim))
    if integer:
        Xl, Xu = np.round(Xl), np.round(Xu)
    return Xl, Yl.astype(int), Xu


def pairwise(metric, X):
    fn = d.DISTANCES[metric]
    n = len(X)
    D = np.zeros((n, n))
    for i in range(n):
        for j in range(n):
            D[i, j] = fn(X[i], X[j])
    return D


# --------------------------------------------------------------------------- #
# (1) Seeded comparison against the original behaviour
# --------------------------------------------------------------------------- #
METRICS = ["log_squared_euclidean", "euclidean", "squared_euclidean", "manhattan", "chebyshev"]

case_no = 0
for seed in range(40):
    rng = np.random.default_rng(1000 + seed)
    metric = METRICS[seed % len(METRICS)]
    n_classes = int(rng.integers(2, 5))
    n_lab = int(rng.integers(n_classes + 2, 22))
    n_unl = 0 if seed % 8 == 7 else int(rng.integers(1, 20))
    dim = int(rng.integers(1, 5))
    integer = seed % 2 == 1  # tie-heavy: small integer grid coordinates
    scale = 0.2 if seed % 4 < 2 else 1.0
    Xl, Yl, Xu = gen_blobs(rng, n_classes, n_lab, n_unl, dim, scale=scale, integer=integer)
    if integer:
        Xl, Xu = np.clip(Xl, -2, 2), np.clip(Xu, -2, 2)

    name = "seed%02d/%s/l%d/u%d%s" % (seed, metric, n_lab, n_unl, "/grid" if integer else "")

    # on-the-fly distances, and the same instance fitted twice (repeated call)
    opf = check_case(name, metric, Xl, Yl, Xu)
    if seed % 5 == 0:
        check_case(name + "/refit", metric, Xl[::-1].copy(), Yl[::-1].copy(), Xu, opf=opf)

    # pre-computed distances with non-identity indexes
    if seed % 3 == 0:
        total = n_lab + n_unl
        perm = rng.permutation(total + 3)[:total]
        Xall = np.zeros((total + 3, dim))
        Xall[perm[:n_lab]] = Xl
        Xall[perm[n_lab:]] = Xu
        D = pairwise(metric, Xall)
        check_case(
            name + "/precomputed", metric, Xl, Yl, Xu, D=D,
            Il=perm[:n_lab].copy(), Iu=perm[n_lab:].copy(),
        )

    # empty unlabeled set: must be identical to supervised training on the labeled set
    if n_unl == 0:
        sup = make_opf(SupervisedOPF, metric, None)
        sup.fit(Xl.copy(), Yl.copy())
        semi = make_opf(SemiSupervisedOPF, metric, None)
        semi.fit(Xl.copy(), Yl.copy(), Xu.copy())
        a, b = snapshot(sup), snapshot(semi)
        strip = lambda s: [(t[0], t[2], t[3], t[4], t[5]) for t in s["nodes"]]
        if strip(a) != strip(b) or a["order"] != b["order"]:
            FAILURES.append("%s: empty unlabeled set differs from supervised training" % name)
    case_no += 1

# --------------------------------------------------------------------------- #
# (2) Specific inputs: labeled MST arcs that are almost (but not exactly) tied
# --------------------------------------------------------------------------- #
def expect_prototypes(name, opf, expected):
    got = sorted(i for i, n in enumerate(opf.subgraph.nodes) if n.status == c.PROTOTYPE)
    if got != sorted(expected):
        FAILURES.append("%s: prototypes %s, expected %s (unique MST)" % (name, got, expected))


# (a) B=(0,1e-5) and A=(0,0) belong to class 1, C=(1,0) to class 2. |AC| = 1 and
#     |BC| = sqrt(1 + 1e-10) differ in the 11th digit, so the unique MST is {AB, AC} and the
#     prototypes are A and C. The search starts at B (node 0); if the two weights are ever
#     compared with less than double precision they tie and C stays attached to B.
Xl = np.array([[0.0, 1.0e-5], [0.0, 0.0], [1.0, 0.0], [1.5, 0.2], [-0.5, 0.1]])
Yl = np.array([1, 1, 2, 2, 1])
Xu = np.array([[0.4, 0.0], [0.6, 0.05], [-0.2, 0.3], [1.2, -0.1]])
opf = check_case("near-tie/euclidean", "euclidean", Xl, Yl, Xu)
expect_prototypes("near-tie/euclidean", opf, [1, 2])

# (b) same geometry with the default metric (weights around 7e4, where single precision only
#     resolves steps of about 0.008)
Xl2 = Xl.copy()
Xl2[0, 1] = 1.0e-4
opf = check_case("near-tie/default-metric", "log_squared_euclidean", Xl2, Yl, Xu)
expect_prototypes("near-tie/default-metric", opf, [1, 2])

# (c) empty unlabeled set on the same labeled data
opf = check_case("near-tie/empty-unlabeled", "euclidean", Xl, Yl, np.empty((0, 2)))
expect_prototypes("near-tie/empty-unlabeled", opf, [1, 2])

# (d) seeded family: coarse grid positions plus a 1e-9 jitter -> many almost-tied arcs
for seed in range(12):
    rng = np.random.default_rng(300 + seed)
    metric = ["euclidean", "log_squared_euclidean", "manhattan"][seed % 3]
    n_lab, n_unl = 14, 8
    Xl = rng.integers(0, 4, size=(n_lab, 2)).astype(float) + rng.normal(size=(n_lab, 2)) * 1e-9
    Yl = np.concatenate([[1, 2, 3], rng.integers(1, 4, size=n_lab - 3)]).astype(int)
    Xu = rng.integers(0, 4, size=(n_unl, 2)).astype(float) + rng.normal(size=(n_unl, 2)) * 1e-9
    check_case("near-tie/jitter/%02d/%s" % (seed, metric), metric, Xl, Yl, Xu)

# (e) distances far outside the single-precision range (still finite doubles)
Xl = np.array([[0.0], [1.0e25], [3.0e25], [3.5e25], [-2.0e25]])
Yl = np.array([1, 1, 2, 2, 1])
Xu = np.array([[2.0e25], [2.4e25], [-1.0e25]])
check_case("huge/squared_euclidean", "squared_euclidean", Xl, Yl, Xu)

if FAILURES:
    print("FAIL: %d problem(s)" % len(FAILURES))
    for f in FAILURES[:12]:
        print("  -", f)
    sys.exit(1)

print("OK: %d seeded inputs + specific inputs identical to the original behaviour" % case_no)
sys.exit(0)
