"""C19 / r8 / p2 - demo for the "edge-case hardening" pair on OPF.load (opfython/core/opf.py).

Exit 0: original code and clean.diff.  Exit 1: broken.diff.

(1) 34 seeded save -> load round trips (4 model kinds, 6 metrics, tie-heavy integer
    data, pre-computed distances with non-identity indexes, receivers built with other
    metrics / k / matrices) are run twice: with the library as it is and with the
    verbatim ORIGINAL OPF methods patched in (reference).  Every observation
    (state before/after save, loaded state, predictions of both, forests after predict)
    must be equal, and the property itself (loaded == original, save does not alter)
    must hold.
(2) The input that exposes the slip: a fitted forest in which some node has node 0 as
    its predecessor (pred == 0, a perfectly valid falsy value).  The loaded forest must
    have the same predecessor map, and predict() must mark the same optimum paths as
    relevant in the original and in the loaded model.
"""

ORIGINAL_SOURCE = r'''
class _OrigOPF:
    def __init__(
        self,
        distance: str = "log_squared_euclidean",
        pre_computed_distance: Optional[str] = None,
    ) -> None:
        """Initialization method.

        Args:
            distance: An indicator of the distance metric to be used.
            pre_computed_distance: A pre-computed distance file for feeding into OPF.

        """

        logger.info("Creating class: OPF.")

        self.subgraph = None

        self.distance = distance
        self.distance_fn = d.DISTANCES[distance]

        if pre_computed_distance:
            self.pre_computed_distance = True
            self._read_distances(pre_computed_distance)
        else:
            self.pre_computed_distance = False
            self.pre_distances = None

        logger.debug(
            "Distance: %s | Pre-computed distance: %s.",
            self.distance,
            self.pre_computed_distance,
        )
        logger.info("Class created.")

    @property
    def subgraph(self) -> Subgraph:
        """Subgraph's instance."""

        return self._subgraph

    @subgraph.setter
    def subgraph(self, subgraph: Subgraph) -> None:
        if subgraph is not None:
            if not isinstance(subgraph, Subgraph):
                raise e.TypeError("`subgraph` should be a subgraph")

        self._subgraph = subgraph

    @property
    def pre_distances(self) -> np.array:
        """Pre-computed distance matrix."""

        return self._pre_distances

    @pre_distances.setter
    def pre_distances(self, pre_distances: np.array) -> None:
        if pre_distances is not None:
            if not isinstance(pre_distances, np.ndarray):
                raise e.TypeError("`pre_distances` should be a numpy array")

        self._pre_distances = pre_distances

    def _read_distances(self, file_name: str) -> None:
        """Reads the distance between nodes from a pre-defined file.

        Args:
            file_name: File to be loaded.

        """

        logger.debug("Running private method: read_distances().")

        extension = file_name.split(".")[-1]

        if extension == "csv":
            distances = loader.load_csv(file_name)
        elif extension == "txt":
            distances = loader.load_txt(file_name)
        else:
            raise e.ArgumentError(
                "File extension not recognized. It should be either `.csv` or .txt`"
            )

        if distances is None:
            raise e.ValueError("Pre-computed distances could not been properly loaded")

        self.pre_distances = distances

    def get_distances(self, normalize: bool = False) -> np.array:
        """Gets the distance matrix.

        Args:
            normalize: Whether the distance matrix should be normalized or not.

        Returns:
            Numpy array containing the distance matrix.

        """

        distances = np.zeros((self.subgraph.n_nodes, self.subgraph.n_nodes))

        for i in range(self.subgraph.n_nodes):
            for j in range(self.subgraph.n_nodes):
                distances[i][j] = self.distance_fn(
                    self.subgraph.nodes[i].features, self.subgraph.nodes[j].features
                )

        if normalize:
            return (distances - distances.min()) / (
                distances.max() - distances.min()
            )

        return distances

    def load(self, file_name: str) -> None:
        """Loads the object from a pickle encoding.

        Args:
            file_name: Pickle's file path to be loaded.

        """

        logger.info("Loading model from file: %s ...", file_name)

        with open(file_name, "rb") as origin_file:
            opf = pickle.load(origin_file)

            self.__dict__.update(opf.__dict__)

        logger.info("Model loaded.")

    def save(self, file_name: str) -> None:
        """Saves the object to a pickle encoding.

        Args:
            file_name: File's name to be saved.

        """

        logger.info("Saving model to file: %s ...", file_name)

        with open(file_name, "wb") as dest_file:
            pickle.dump(self, dest_file)

        logger.info("Model saved.")

'''


import logging as _pylogging
import os
import sys
import tempfile

import numpy as np

_pylogging.disable(_pylogging.CRITICAL)
np.seterr(all="ignore")

import opfython.core.opf as opf_module  # noqa: E402
from opfython.core import OPF  # noqa: E402
from opfython.models import (  # noqa: E402
    KNNSupervisedOPF,
    SemiSupervisedOPF,
    SupervisedOPF,
    UnsupervisedOPF,
)

TMP = tempfile.mkdtemp(prefix="c19_demo_")


# --------------------------------------------------------------------------- #
# reference = verbatim original methods, patched over the library on demand   #
# --------------------------------------------------------------------------- #
def _compile_originals():
    namespace = dict(vars(opf_module))
    exec(compile(ORIGINAL_SOURCE, "<original opf.py>", "exec"), namespace)
    return {
        name: member
        for name, member in vars(namespace["_OrigOPF"]).items()
        if callable(member) or isinstance(member, property)
    }


ORIGINALS = _compile_originals()
_MISSING = object()


class original_code:
    """Context manager: inside it, OPF runs the original (reference) methods."""

    def __enter__(self):
        self.saved = {name: vars(OPF).get(name, _MISSING) for name in ORIGINALS}
        self.extra = {
            name: vars(OPF)[name]
            for name in ("_pre_computed_distance", "_pre_distances")
            if name in vars(OPF)
        }
        for name, member in ORIGINALS.items():
            setattr(OPF, name, member)
        for name in self.extra:
            delattr(OPF, name)

    def __exit__(self, *exc):
        for name, member in self.saved.items():
            if member is _MISSING:
                delattr(OPF, name)
            else:
                setattr(OPF, name, member)
        for name, member in self.extra.items():
            setattr(OPF, name, member)


# --------------------------------------------------------------------------- #
# observation helpers                                                         #
# --------------------------------------------------------------------------- #
def _plain(value):
    if isinstance(value, np.ndarray):
        return ("nd", str(value.dtype), value.shape, value.tolist())
    if isinstance(value, (np.floating, float)):
        return float(value)
    if isinstance(value, (np.integer, int)) and not isinstance(value, bool):
        return int(value)
    return value


def node_state(node):
    return tuple(
        (name, _plain(value) if not isinstance(value, list) else [_plain(v) for v in value])
        for name, value in sorted(vars(node).items())
    )


def subgraph_state(subgraph):
    if subgraph is None:
        return None
    own = {
        name: _plain(value)
        for name, value in vars(subgraph).items()
        if name not in ("_nodes", "_idx_nodes")
    }
    return (
        type(subgraph).__name__,
        tuple(sorted(own.items())),
        tuple(subgraph.idx_nodes),
        tuple(node_state(node) for node in subgraph.nodes),
    )


def model_state(model):
    fn = model.distance_fn
    return {
        "kind": type(model).__name__,
        "distance": model.distance,
        "distance_fn": getattr(getattr(fn, "py_func", fn), "__name__", repr(fn)),
        "pre_computed_distance": model.pre_computed_distance,
        "pre_distances": _plain(model.pre_distances),
        "min_k": getattr(model, "_min_k", None),
        "max_k": getattr(model, "_max_k", None),
        "subgraph": subgraph_state(model.subgraph),
    }


def diff_states(a, b):
    return [key for key in a if a[key] != b[key]]


# --------------------------------------------------------------------------- #
# data                                                                        #
# --------------------------------------------------------------------------- #
def make_data(seed, n_train=22, n_test=12, n_features=3, ties=False, n_classes=3):
    rng = np.random.RandomState(seed)
    n = n_train + n_test
    if ties:
        X = rng.randint(0, 3, size=(n, n_features)).astype(float) + 1.0
    else:
        X = rng.rand(n, n_features) + 0.1 + rng.randint(0, n_classes, size=(n, 1)) * 0.35
    Y = rng.randint(1, n_classes + 1, size=n)
    Y[:n_classes] = np.arange(1, n_classes + 1)
    Y[n_train : n_train + n_classes] = np.arange(1, n_classes + 1)
    return X[:n_train], Y[:n_train], X[n_train:], Y[n_train:]


def matrix_file(name, seed, size, ties=False):
    rng = np.random.RandomState(seed)
    if ties:
        M = rng.randint(1, 5, size=(size, size)).astype(float)
    else:
        M = rng.rand(size, size) * 3.0 + 0.05
    M = (M + M.T) / 2.0
    np.fill_diagonal(M, 0.0)
    path = os.path.join(TMP, name + ".txt")
    np.savetxt(path, M, delimiter=" ")
    return path


KINDS = {
    "sup": SupervisedOPF,
    "semi": SemiSupervisedOPF,
    "knn": KNNSupervisedOPF,
    "unsup": UnsupervisedOPF,
}


def build(kind, distance, matrix=None, k=3):
    cls = KINDS[kind]
    if kind == "knn":
        return cls(max_k=k, distance=distance, pre_computed_distance=matrix)
    if kind == "unsup":
        return cls(min_k=1, max_k=k, distance=distance, pre_computed_distance=matrix)
    return cls(distance=distance, pre_computed_distance=matrix)


def fit(kind, model, data, use_idx):
    Xtr, Ytr, Xte, Yte = data
    n_train = len(Xtr)
    if kind == "knn":
        # the kNN model wants an `n_nodes x n_nodes` matrix: validation rows re-use training ids
        half = len(Xte) // 2
        I_tr = np.arange(n_train) if use_idx else None
        I_va = (np.arange(half) * 2 % n_train) if use_idx else None
        model.fit(Xtr.copy(), Ytr.copy(), Xte[:half].copy(), Yte[:half].copy(), I_tr, I_va)
    elif kind == "semi":
        cut = n_train - 6
        I_tr = np.arange(cut)[::-1].copy() if use_idx else None
        I_un = np.arange(cut, n_train) if use_idx else None
        model.fit(Xtr[:cut].copy(), Ytr[:cut].copy(), Xtr[cut:].copy(), I_tr, I_un)
    elif kind == "unsup":
        I_tr = np.arange(n_train)[::-1].copy() if use_idx else None
        model.fit(Xtr.copy(), Ytr.copy(), I_tr)
    else:
        I_tr = np.arange(n_train)[::-1].copy() if use_idx else None
        model.fit(Xtr.copy(), Ytr.copy(), I_tr)


def predict(kind, model, data, use_idx):
    Xtr, _, Xte, _ = data
    if kind == "knn":
        I_te = (np.arange(len(Xte)) * 3 % len(Xtr)) if use_idx else None
    else:
        I_te = (len(Xtr) + np.arange(len(Xte))) if use_idx else None
    out = model.predict(Xte.copy(), I_te)
    if isinstance(out, tuple):
        return [list(map(int, part)) for part in out]
    return list(map(int, out))


def round_trip(case):
    """fit -> snapshot -> save -> snapshot -> load into a fresh receiver -> predict with both."""

    kind, distance = case["kind"], case["distance"]
    data = make_data(case["seed"], ties=case.get("ties", False))
    size = len(data[0]) + len(data[2])
    if kind == "knn":
        size = len(data[0])
    matrix = (
        matrix_file("m%d" % case["seed"], case["seed"], size, case.get("ties", False))
        if case.get("matrix")
        else None
    )
    receiver_matrix = (
        matrix_file("r%d" % case["seed"], 1000 + case["seed"], len(data[0]) + len(data[2]))
        if case.get("receiver_matrix")
        else None
    )
    use_idx = bool(matrix)

    model = build(kind, distance, matrix, case.get("k", 3))
    fit(kind, model, data, use_idx)
    if case.get("predict_before_save"):
        predict(kind, model, data, use_idx)
    if case.get("propagate") and kind == "unsup":
        model.propagate_labels()

    before = model_state(model)
    path = os.path.join(TMP, "model_%s.pkl" % case["name"])
    model.save(path)
    after = model_state(model)

    receiver = build(kind, case.get("receiver_distance", distance), receiver_matrix, case.get("receiver_k", 3))
    receiver.load(path)
    loaded = model_state(receiver)

    preds_original = predict(kind, model, data, use_idx)
    preds_loaded = predict(kind, receiver, data, use_idx)

    return {
        "before": before,
        "after_save": after,
        "loaded": loaded,
        "preds_original": preds_original,
        "preds_loaded": preds_loaded,
        "final_original": model_state(model),
        "final_loaded": model_state(receiver),
    }


def make_cases():
    cases = []
    metrics = ["log_squared_euclidean", "euclidean", "manhattan", "canberra", "chebyshev", "kullback_leibler"]
    seed = 0
    for kind in ("sup", "semi", "knn", "unsup"):
        for i, distance in enumerate(metrics):
            seed += 1
            cases.append(
                {
                    "kind": kind,
                    "distance": distance,
                    "seed": seed,
                    "ties": i % 2 == 1,
                    "receiver_distance": metrics[(i + 1) % len(metrics)] if i % 3 == 0 else distance,
                    "predict_before_save": i % 2 == 0,
                    "propagate": i % 2 == 0,
                    "k": 2 + i % 3,
                    "receiver_k": 1 + i % 2,
                }
            )
    # pre-computed distances in the saved model (non-identity indexes), plain receiver
    for kind in ("sup", "semi", "knn", "unsup"):
        for ties in (False, True):
            seed += 1
            cases.append({"kind": kind, "distance": "euclidean", "seed": seed, "ties": ties, "matrix": True})
    # pre-computed distances on both sides (different matrices)
    for kind in ("sup", "unsup"):
        seed += 1
        cases.append(
            {"kind": kind, "distance": "manhattan", "seed": seed, "matrix": True, "receiver_matrix": True}
        )
    for i, case in enumerate(cases):
        case["name"] = "g%02d" % i
    return cases


def check_generic(failures):
    cases = make_cases()
    for case in cases:
        current = round_trip(case)
        with original_code():
            reference = round_trip(case)
        label = "%s/%s/%s" % (case["name"], case["kind"], case["distance"])
        for key in reference:
            if current[key] != reference[key]:
                detail = diff_states(current[key], reference[key]) if isinstance(reference[key], dict) else ""
                failures.append("%s: `%s` differs from the original code %s" % (label, key, detail))
        # the property itself
        if current["before"] != current["after_save"]:
            failures.append("%s: save() altered the model" % label)
        if current["loaded"] != current["after_save"]:
            failures.append(
                "%s: loaded state differs from the saved model %s"
                % (label, diff_states(current["loaded"], current["after_save"]))
            )
        if current["preds_loaded"] != current["preds_original"]:
            failures.append("%s: loaded model predicts differently" % label)
        if current["final_loaded"] != current["final_original"]:
            failures.append("%s: forest after predict differs (original vs loaded)" % label)
    return len(cases)


def preds_of(model):
    return [node.pred for node in model.subgraph.nodes]


def relevant_of(model):
    return [node.relevant for node in model.subgraph.nodes]


def check_specific(failures):
    """Forests with children of node 0 (pred == 0)."""

    n = with_zero = 0
    for kind in ("sup", "semi", "knn", "unsup"):
        for seed, ties in ((401, False), (402, True), (403, False), (404, True)):
            n += 1
            data = make_data(seed, ties=ties)
            # node 0 in the middle of its class: it conquers neighbours in every kind of forest
            data[0][0] = data[0][data[1] == data[1][0]].mean(axis=0)
            model = build(kind, "euclidean")
            fit(kind, model, data, False)
            if kind == "unsup":
                model.propagate_labels()

            path = os.path.join(TMP, "specific_%s_%d.pkl" % (kind, seed))
            model.save(path)
            receiver = build(kind, "euclidean")
            receiver.load(path)

            label = "specific %s seed %d" % (kind, seed)
            children = [i for i, pred in enumerate(preds_of(model)) if pred == 0]
            with_zero += bool(children)
            if preds_of(receiver) != preds_of(model):
                failures.append(
                    "%s: predecessor map differs after load (children of node 0: %s)\n"
                    "    original %s\n    loaded   %s"
                    % (label, children, preds_of(model), preds_of(receiver))
                )
            if model_state(receiver) != model_state(model):
                failures.append("%s: loaded forest differs from the original" % label)

            if predict(kind, model, data, False) != predict(kind, receiver, data, False):
                failures.append("%s: predictions differ" % label)
            if relevant_of(receiver) != relevant_of(model):
                failures.append(
                    "%s: optimum paths marked by predict() differ\n    original %s\n    loaded   %s"
                    % (label, relevant_of(model), relevant_of(receiver))
                )
    if not with_zero:
        failures.append("specific: no forest with a child of node 0 was produced (demo is vacuous)")
    return n, with_zero


def main():
    failures = []
    n_specific, with_zero = check_specific(failures)
    n_generic = check_generic(failures)
    print(
        "%d generic + %d specific round trips checked (%d with children of node 0)"
        % (n_generic, n_specific, with_zero)
    )
    if failures:
        print("FAIL (%d findings)" % len(failures))
        for line in failures[:25]:
            print(" -", line)
        return 1
    print("OK")
    return 0


if __name__ == "__main__":
    sys.exit(main())
