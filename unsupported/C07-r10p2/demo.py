"""C07 / p2 demo.

exit 0  -> behaviour identical to the original library and caller data untouched
exit !0 -> a distance differs from the original code, or a call changed the caller's
           arrays / returned something else on a repeated call.

Run as: cd /tmp/wt/C07 && PYTHONPATH=/tmp/wt/C07 /venv/bin/python demo.py
"""

import inspect
import logging
import sys
import warnings
from functools import wraps

import numpy as np
from numba import njit

logging.disable(logging.CRITICAL)
warnings.simplefilter("ignore")

import opfython.math.distance as d  # noqa: E402
import opfython.utils.constants as c  # noqa: E402
import opfython.utils.decorator as decorator  # noqa: E402
from opfython.models.knn_supervised import KNNSupervisedOPF  # noqa: E402
from opfython.models.semi_supervised import SemiSupervisedOPF  # noqa: E402
from opfython.models.supervised import SupervisedOPF  # noqa: E402
from opfython.models.unsupervised import UnsupervisedOPF  # noqa: E402

FAILURES = []


def fail(msg):
    FAILURES.append(msg)
    if len(FAILURES) <= 15 or "OPF" in msg or "specific" in msg:
        print("FAIL:", msg)


# --------------------------------------------------------------------------- #
# Verbatim copies of the ORIGINAL implementations (reference behaviour)
# --------------------------------------------------------------------------- #
def ref_avoid_zero_division(f):
    @wraps(f)
    def _avoid_zero_division(x, y):
        x = x + c.EPSILON
        y = y + c.EPSILON

        return f(x, y)

    return _avoid_zero_division


@njit
def ref_chebyshev_distance(x, y):
    dist = np.fabs(x - y)

    return np.amax(dist)


REF = {}
for _name, _fn in d.DISTANCES.items():
    if inspect.isfunction(_fn) and hasattr(_fn, "__wrapped__"):
        # python wrapper produced by the decorator -> re-wrap the bare metric
        REF[_name] = ref_avoid_zero_division(_fn.__wrapped__)
    else:
        REF[_name] = _fn
REF["chebyshev"] = ref_chebyshev_distance

NAMES = sorted(d.DISTANCES.keys())
SHIFTED = [n for n in NAMES if inspect.isfunction(d.DISTANCES[n])]
assert len(NAMES) == 47 and len(SHIFTED) == 32


def same_value(a, b):
    """Same python/numpy type and the same bits (NaN == NaN)."""

    if type(a) is not type(b):
        return False
    return np.asarray(a).tobytes() == np.asarray(b).tobytes()


def make_pair(seed):
    """Seeded vectors: positives, exact zeros, equal vectors (ties), tiny values,
    float32 / integer / non-contiguous inputs."""

    rng = np.random.RandomState(1000 + seed)
    n = int(rng.randint(1, 9))
    kind = seed % 8

    if kind == 0:
        x, y = rng.rand(n), rng.rand(n)
    elif kind == 1:
        x = rng.randint(0, 3, n).astype(float)
        y = rng.randint(0, 3, n).astype(float)
    elif kind == 2:
        x = rng.rand(n)
        x[rng.rand(n) < 0.5] = 0.0
        y = x.copy()
    elif kind == 3:
        x, y = rng.rand(n) * 1e-7, rng.rand(n) * 1e-7
        x[0] = 0.0
    elif kind == 4:
        x, y = rng.rand(n).astype(np.float32), rng.rand(n).astype(np.float32)
        y[0] = 0.0
    elif kind == 5:
        x, y = rng.randint(0, 4, n), rng.randint(0, 4, n)
    elif kind == 6:
        base = rng.rand(2 * n, 2)
        base[::3] = 0.0
        x, y = base[::2, 0], base[1::2, 1]
    else:
        x = np.abs(rng.randn(n))
        y = np.zeros(n)

    return x, y


def evaluate(fn, x, y):
    try:
        return fn(x, y)
    except Exception as error:  # compared as well (by type)
        return "raised " + type(error).__name__


# --------------------------------------------------------------------------- #
# (1) Differential check against the original code: 48 seeded pairs x 47 metrics
# --------------------------------------------------------------------------- #
n_cases = 0
for seed in range(48):
    x0, y0 = make_pair(seed)

    for name in NAMES:
        n_cases += 1
        want = evaluate(REF[name], x0.copy(), y0.copy())
        got = evaluate(d.DISTANCES[name], x0.copy(), y0.copy())
        if not same_value(want, got):
            fail(
                "value differs from original: seed=%d metric=%s (%r vs %r)"
                % (seed, name, want, got)
            )

print("differential cases:", n_cases)


@decorator.avoid_zero_division
def call(x, y):
    return x, y


@ref_avoid_zero_division
def ref_call(x, y):
    return x, y


def describe(v):
    if isinstance(v, np.ndarray):
        return (type(v), v.dtype, v.shape, v.strides, v.tobytes())
    return (type(v), repr(v))


ARGS = [
    1,
    0.0,
    np.float32(0.5),
    np.int16(2),
    np.array(3),
    np.array([0, 1, 2], dtype=np.int8),
    np.array([True, False]),
    np.array([0, 5], dtype=np.uint64),
    np.arange(6, dtype=np.float32).reshape(2, 3).T,
    np.arange(8.0)[::-2],
    np.array([0.0, 1.0], dtype=">f8"),
    np.array([0.0, 1.0], dtype=np.float16),
    np.array([0j, 1 + 1j]),
]
for a in ARGS:
    want = ref_call(a, a)
    got = call(a, a)
    if [describe(v) for v in want] != [describe(v) for v in got]:
        fail("decorator hands over different arguments for %r" % (a,))

# --------------------------------------------------------------------------- #
# (2) The property on plain distance evaluations
# --------------------------------------------------------------------------- #
for seed in range(48):
    x0, y0 = make_pair(seed)

    for name in NAMES:
        x, y = x0.copy(), y0.copy()
        bx, by = x.tobytes(), y.tobytes()

        first = d.DISTANCES[name](x, y)
        if x.tobytes() != bx or y.tobytes() != by:
            fail("arguments were modified: seed=%d metric=%s" % (seed, name))

        # any number of earlier evaluations (also with swapped / repeated arguments)
        d.DISTANCES[name](y, x)
        d.DISTANCES[name](x, x)
        again = d.DISTANCES[name](x, y)
        if not same_value(first, again):
            fail(
                "value depends on earlier evaluations: seed=%d metric=%s (%r then %r)"
                % (seed, name, first, again)
            )

# --------------------------------------------------------------------------- #
# (3) The property on the four models (zero-avoiding metrics, data with zeros)
# --------------------------------------------------------------------------- #
def make_dataset(seed, n=24, f=4):
    rng = np.random.RandomState(seed)
    X = rng.randint(0, 4, size=(n, f)).astype(float)  # many ties and exact zeros
    X += (rng.rand(n, f) < 0.3) * rng.rand(n, f)
    Y = (np.arange(n) % 2).astype(int)
    X[Y == 1] += 1.5
    X[rng.rand(n, f) < 0.25] = 0.0
    return X, Y


def forest(model):
    return [
        (n.idx, n.label, n.predicted_label, n.pred, n.status, float(n.cost), n.root)
        for n in model.subgraph.nodes
    ] + [list(model.subgraph.idx_nodes)]


def run_model(kind, metric, X, Y):
    """Fits + predicts on the given arrays (used as they are, no copies)."""

    half = len(X) // 2
    X_a, Y_a, X_b, Y_b = X[:half], Y[:half], X[half:], Y[half:]

    if kind == "supervised":
        m = SupervisedOPF(distance=metric)
        m.fit(X_a, Y_a)
        preds = m.predict(X_b)
    elif kind == "semi":
        m = SemiSupervisedOPF(distance=metric)
        m.fit(X_a, Y_a, X_b[:4])
        preds = m.predict(X_b)
    elif kind == "knn":
        m = KNNSupervisedOPF(max_k=3, distance=metric)
        m.fit(X_a, Y_a, X_b, Y_b)
        preds = m.predict(X_b)
    else:
        m = UnsupervisedOPF(min_k=1, max_k=3, distance=metric)
        m.fit(X_a, Y_a)
        preds = m.predict(X_b)

    return forest(m), preds


for seed, metric in ((0, "canberra"), (1, "vicis_wave_hedges"), (2, "neyman")):
    X0, Y0 = make_dataset(seed)

    for kind in ("supervised", "semi", "knn", "unsupervised"):
        X, Y = X0.copy(), Y0.copy()
        first = run_model(kind, metric, X, Y)

        if X.tobytes() != X0.tobytes() or Y.tobytes() != Y0.tobytes():
            fail("%s OPF (%s) modified the caller's X / Y" % (kind, metric))

        # a fresh model on the very same arrays, and one on an untouched copy
        second = run_model(kind, metric, X, Y)
        pristine = run_model(kind, metric, X0.copy(), Y0.copy())
        if first != second or first != pristine:
            fail("%s OPF (%s): fitting twice gave different forests" % (kind, metric))

# --------------------------------------------------------------------------- #
# (4) The specific history: float vector with exact zeros, evaluated twice
# --------------------------------------------------------------------------- #
x = np.array([0.0, 1.0, 0.0, 2.0])
y = np.array([1.0, 1.0, 3.0, 0.0])
v1 = d.DISTANCES["vicis_wave_hedges"](x, y)
v2 = d.DISTANCES["vicis_wave_hedges"](x, y)
print("x after two calls :", x)
print("value 1st / 2nd   :", v1, v2)
if x.tobytes() != np.array([0.0, 1.0, 0.0, 2.0]).tobytes():
    fail("specific case: exact zeros of the caller's vector were overwritten")
if not same_value(v1, v2):
    fail("specific case: the same arguments gave a different distance the second time")

if FAILURES:
    print("%d failure(s)" % len(FAILURES))
    sys.exit(1)

print("OK")
sys.exit(0)
