"""C03 / round 10 / pair 2 -- edge-case hardening of SupervisedOPF.predict.

Exit code 0: predict behaves exactly like the original code on valid inputs
             and property C03 (prediction == exhaustive min of max(cost, d)) holds.
Exit code 1: some prediction / relevance mark differs, or C03 is violated.

Part 1  predict vs. a verbatim copy of the original predict (run on a deep copy
        of the same fitted classifier) on seeded inputs: several metrics,
        tie-heavy integer grids, queries equal to training samples, far-away
        queries, pre-computed distances with non-identity indexes (with zero
        entries), semi-supervised forests, repeated predict calls.  Labels and
        the `relevant` marks left on the training nodes are compared, and the
        exhaustive min-max check of C03 is run on every query.
Part 2  The specific input that exposes the slip: pre-computed distances and a
        query at distance 0 from a training sample (e.g. predicting the ids of
        the training samples themselves).
"""

import copy
import logging
import sys

import numpy as np

logging.disable(logging.CRITICAL)

import opfython.math.distance as distance  # noqa: E402
from opfython.core import Subgraph  # noqa: E402
from opfython.models.semi_supervised import SemiSupervisedOPF  # noqa: E402
from opfython.models.supervised import SupervisedOPF  # noqa: E402

FAILURES = []


def fail(msg):
    FAILURES.append(msg)
    if len(FAILURES) <= 25:
        print("MISMATCH:", msg)


# --------------------------------------------------------------------------- #
# Verbatim copy of the original SupervisedOPF.predict (logging / timing removed)
# --------------------------------------------------------------------------- #
def original_predict(self, X_val, I_val=None):
    pred_subgraph = Subgraph(X_val, I=I_val)

    for i in range(pred_subgraph.n_nodes):
        j = 0

        k = self.subgraph.idx_nodes[j]
        conqueror = k

        if self.pre_computed_distance:
            weight = self.pre_distances[self.subgraph.nodes[k].idx][
                pred_subgraph.nodes[i].idx
            ]
        else:
            weight = self.distance_fn(
                self.subgraph.nodes[k].features, pred_subgraph.nodes[i].features
            )

        # The minimum cost will be the maximum between the `k` node cost and its weight (arc)
        min_cost = np.maximum(self.subgraph.nodes[k].cost, weight)

        # The current label will be `k` node's predicted label
        current_label = self.subgraph.nodes[k].predicted_label

        # While `j` is a possible node and the minimum cost is bigger than the current node's cost
        while (
            j < (self.subgraph.n_nodes - 1)
            and min_cost > self.subgraph.nodes[self.subgraph.idx_nodes[j + 1]].cost
        ):
            l = self.subgraph.idx_nodes[j + 1]

            if self.pre_computed_distance:
                weight = self.pre_distances[self.subgraph.nodes[l].idx][
                    pred_subgraph.nodes[i].idx
                ]
            else:
                weight = self.distance_fn(
                    self.subgraph.nodes[l].features, pred_subgraph.nodes[i].features
                )

            # The temporary minimum cost will be the maximum between the `l` node cost and its weight (arc)
            temp_min_cost = np.maximum(self.subgraph.nodes[l].cost, weight)
            if temp_min_cost < min_cost:
                min_cost = temp_min_cost
                conqueror = l
                current_label = self.subgraph.nodes[l].predicted_label

            j += 1
            k = l

        # Node's `i` predicted label is the same as current label
        pred_subgraph.nodes[i].predicted_label = current_label

        if conqueror > -1:
            self.subgraph.mark_nodes(conqueror)

    preds = [pred.predicted_label for pred in pred_subgraph.nodes]

    return preds


def admissible_labels(opf, xq, iq):
    """Labels of all minimisers of max(cost(t), d(t, x)) -- exhaustive scan."""
    nodes = opf.subgraph.nodes
    offers = []
    for t in nodes:
        if opf.pre_computed_distance:
            w = opf.pre_distances[t.idx][iq]
        else:
            w = opf.distance_fn(t.features, np.asarray(xq))
        offers.append(max(t.cost, w))
    best = min(offers)
    return {t.predicted_label for t, o in zip(nodes, offers) if o == best}


def check(tag, opf, Q, Iq=None, repeat=False):
    """Library predict vs. original predict on identical copies of one forest."""
    twin = copy.deepcopy(opf)

    got = opf.predict(Q, I_val=Iq)
    want = original_predict(twin, Q, Iq)
    if repeat:
        # a second call must not depend on the first one
        got2 = opf.predict(Q[::-1], I_val=None if Iq is None else Iq[::-1])
        want2 = original_predict(twin, Q[::-1], None if Iq is None else Iq[::-1])
        if list(got2) != list(want2):
            fail("%s: second predict call differs from the original" % tag)

    if len(got) != len(Q):
        fail("%s: %d predictions for %d queries" % (tag, len(got), len(Q)))
    if list(got) != list(want):
        bad = [i for i, (a, b) in enumerate(zip(got, want)) if a != b]
        fail("%s: predictions differ from the original at queries %r (got %r, original %r)"
             % (tag, bad[:8], [got[i] for i in bad[:8]], [want[i] for i in bad[:8]]))
    rel_got = [n.relevant for n in opf.subgraph.nodes]
    rel_want = [n.relevant for n in twin.subgraph.nodes]
    if rel_got != rel_want:
        fail("%s: relevant marks differ from the original" % tag)

    for i, (xq, lab) in enumerate(zip(Q, got)):
        iq = int(Iq[i]) if Iq is not None else i
        ok = admissible_labels(opf, xq, iq)
        if lab not in ok:
            fail("%s: query %d got label %r, exhaustive minimum allows %r"
                 % (tag, i, lab, sorted(ok)))
            break


def make_case(seed):
    rng = np.random.RandomState(seed)
    n = int(rng.randint(6, 30))
    n_classes = int(rng.randint(2, 5))
    dim = int(rng.randint(1, 4))
    kind = seed % 4
    if kind == 0:      # continuous
        X = rng.randn(n, dim) * 3
        Q = rng.randn(20, dim) * 4
    elif kind == 1:    # small integer grid: tie-heavy
        X = rng.randint(0, 4, size=(n, dim)).astype(float)
        Q = rng.randint(0, 5, size=(20, dim)).astype(float)
    elif kind == 2:    # coarse grid with duplicates + half-way queries
        X = rng.randint(0, 3, size=(n, dim)).astype(float) * 2
        Q = rng.randint(0, 7, size=(20, dim)).astype(float)
    else:              # positive data for the non-euclidean metrics
        X = rng.randint(1, 9, size=(n, dim)).astype(float)
        Q = rng.randint(1, 12, size=(20, dim)).astype(float)
    Y = rng.randint(1, n_classes + 1, size=n)
    Y[0], Y[1] = 1, 2  # at least two classes
    far = np.abs(rng.randn(4, dim)) * 1e3 + 50.0   # far from every sample
    Q = np.vstack([Q, far, X[: min(6, n)]])         # + queries equal to training samples
    metric = ["euclidean", "log_squared_euclidean", "manhattan", "chi_squared",
              "squared_euclidean", "chebyshev", "log_euclidean", "canberra"][seed % 8]
    if kind != 3 and metric in ("chi_squared", "canberra"):
        metric = "log_euclidean"
    return X, Y, Q, metric


def matrix_for(fn, allX, perm):
    m = len(allX)
    D = np.zeros((m, m))
    for a in range(m):
        for b in range(m):
            D[perm[a]][perm[b]] = fn(allX[a], allX[b])
    return D


def part1():
    n_forests = 0
    for seed in range(40):
        X, Y, Q, metric = make_case(seed)
        fn = distance.DISTANCES[metric]

        opf = SupervisedOPF(distance=metric)
        opf.fit(X, Y)
        check("sup seed %d (%s)" % (seed, metric), opf, Q, repeat=(seed % 5 == 0))
        n_forests += 1

        if seed % 2 == 0:
            # pre-computed distances for the whole data set, train / query split by ids;
            # queries equal to training samples give zero entries off the diagonal
            rng = np.random.RandomState(500 + seed)
            allX = np.vstack([X, Q])
            perm = rng.permutation(len(allX))
            D = matrix_for(fn, allX, perm)
            I_tr, I_q = perm[: len(X)], perm[len(X):]
            opf = SupervisedOPF(distance=metric)
            opf.pre_computed_distance = True
            opf.pre_distances = D
            opf.fit(X, Y, I_train=I_tr)
            check("pre seed %d (%s)" % (seed, metric), opf, Q, I_q)
            # the training ids themselves (diagonal of the matrix)
            check("pre/train-ids seed %d (%s)" % (seed, metric), opf, X, I_tr)
            n_forests += 1

        if seed % 4 == 1:
            rng = np.random.RandomState(700 + seed)
            U = X[rng.randint(0, len(X), size=8)] + rng.randint(0, 2, size=(8, X.shape[1]))
            opf = SemiSupervisedOPF(distance=metric)
            opf.fit(X, Y, U)
            check("semi seed %d (%s)" % (seed, metric), opf, Q)
            n_forests += 1

        if seed % 4 == 3:
            # semi-supervised with pre-computed distances and explicit ids
            rng = np.random.RandomState(900 + seed)
            U = X[rng.randint(0, len(X), size=6)] + rng.randint(0, 2, size=(6, X.shape[1]))
            allX = np.vstack([X, U, Q])
            perm = rng.permutation(len(allX))
            D = matrix_for(fn, allX, perm)
            a, b = len(X), len(X) + len(U)
            opf = SemiSupervisedOPF(distance=metric)
            opf.pre_computed_distance = True
            opf.pre_distances = D
            opf.fit(X, Y, U, I_train=perm[:a], I_unlabeled=perm[a:b])
            check("semi/pre seed %d (%s)" % (seed, metric), opf, Q, perm[b:])
            n_forests += 1
    return n_forests


def part2():
    # One distance matrix for 8 points on a line, D[i][j] = |pos[i] - pos[j]|.
    pos = np.array([0.0, 1.0, 2.0, 3.0, 4.0, 5.0, 3.0, 2.0])
    D = np.abs(pos[:, None] - pos[None, :])
    # training ids 0..5: class 1 on the left (0, 1, 2), class 2 on the right (3, 4, 5);
    # samples 2 and 3 are the prototypes (cost 0), every other sample has cost 1.
    I_tr = np.array([0, 1, 2, 3, 4, 5])
    Y = np.array([1, 1, 1, 2, 2, 2])
    X = pos[I_tr].reshape(-1, 1)

    opf = SupervisedOPF(distance="euclidean")
    opf.pre_computed_distance = True
    opf.pre_distances = D
    opf.fit(X, Y, I_train=I_tr)

    # (a) predicting the training ids themselves: every sample is at distance 0 from itself,
    #     so it must get its own assigned label (offer = its own cost, nothing is cheaper
    #     for the two prototypes; the others tie only with samples of the same label).
    preds = opf.predict(X, I_val=I_tr)
    assigned = [n.predicted_label for n in opf.subgraph.nodes]
    if list(preds) != assigned:
        fail("specific (a): predicting the training ids gives %r, assigned labels are %r"
             % (list(preds), assigned))
    check("specific (a)", opf, X, I_tr)

    # (b) ids 6 and 7 are new samples that coincide with the prototypes 3 and 2.
    Iq = np.array([6, 7])
    Q = pos[Iq].reshape(-1, 1)
    preds = opf.predict(Q, I_val=Iq)
    if list(preds) != [2, 1]:
        fail("specific (b): duplicates of the two prototypes are labelled %r instead of [2, 1]"
             % list(preds))
    check("specific (b)", opf, Q, Iq)


def main():
    n_forests = part1()
    part2()
    print("forests compared: %d" % n_forests)
    if FAILURES:
        print("FAIL: %d mismatches" % len(FAILURES))
        return 1
    print("OK: identical to the original, property C03 holds on all inputs")
    return 0


if __name__ == "__main__":
    sys.exit(main())
