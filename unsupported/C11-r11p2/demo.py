"""Demo for pair C11/p2 (`Node`: class-level defaults, numpy scalars unwrapped by the setters).

Exit status 0: library behaves exactly like the original code.
Exit status 1: a difference / a violation of property C11 was observed.

The reference is a verbatim copy of the ORIGINAL `Node` class (`RefNode` below). Since the
refactoring only touches `opfython/core/node.py`, running the library models with `RefNode`
swapped in reproduces the original behaviour of every model.

Part 1: 50 seeded inputs (random and tie-heavy; feature-based and pre-computed distances with
        non-identity indexes; all four models; repeated calls) - forest state and predictions of
        the library must equal those obtained with the original `Node`; plus setter probes.
Part 2: the property - the five mutually monotone Euclidean-family metrics must give the same
        prototypes, the same assigned labels and the same predictions.
"""

import contextlib
import logging
import sys
import warnings
from typing import List, Optional

import numpy as np

logging.disable(logging.CRITICAL)
warnings.simplefilter("ignore")  # tie-heavy inputs make the density-based models divide by zero

import opfython.core.subgraph as subgraph_module  # noqa: E402
import opfython.models.semi_supervised as semi_module  # noqa: E402
import opfython.utils.constants as c  # noqa: E402
import opfython.utils.exception as e  # noqa: E402
from opfython.core import Node  # noqa: E402
from opfython.models.knn_supervised import KNNSupervisedOPF  # noqa: E402
from opfython.models.semi_supervised import SemiSupervisedOPF  # noqa: E402
from opfython.models.supervised import SupervisedOPF  # noqa: E402
from opfython.models.unsupervised import UnsupervisedOPF  # noqa: E402


# --------------------------------------------------------------------------
# Reference: verbatim copy of the original `opfython.core.node.Node`
# --------------------------------------------------------------------------
class RefNode:
    """A Node class is used as the lowest structure level in the OPF workflow."""

    def __init__(
        self,
        idx: int = 0,
        label: int = 0,
        features: Optional[np.array] = None,
    ) -> None:
        """Initialization method.

        Args:
            idx: The node's identifier.
            label: The node's label.
            features: An array of features.

        """

        self.idx = idx

        self.label = label
        self.predicted_label = 0
        self.cluster_label = 0

        self.features = np.asarray(features)

        self.cost = 0.0
        self.density = 0.0
        self.radius = 0.0

        self.n_plateaus = 0
        self.adjacency = []
        self.root = 0

        self.status = c.STANDARD
        self.pred = c.NIL
        self.relevant = c.IRRELEVANT

    @property
    def idx(self) -> int:
        """Node's index."""

        return self._idx

    @idx.setter
    def idx(self, idx: int) -> None:
        if not isinstance(idx, int):
            raise e.TypeError("`idx` should be an integer")
        if idx < 0:
            raise e.ValueError("`idx` should be >= 0")

        self._idx = idx

    @property
    def label(self) -> int:
        """Node's label (true label)."""

        return self._label

    @label.setter
    def label(self, label: int) -> None:
        if not isinstance(label, int):
            raise e.TypeError("`label` should be an integer")
        if label < 0:
            raise e.ValueError("`label` should be >= 0")

        self._label = label

    @property
    def predicted_label(self) -> int:
        """Node's predicted label."""

        return self._predicted_label

    @predicted_label.setter
    def predicted_label(self, predicted_label: int) -> None:
        if not isinstance(predicted_label, int):
            raise e.TypeError("`predicted_label` should be an integer")
        if predicted_label < 0:
            raise e.ValueError("`predicted_label` should be >= 0")

        self._predicted_label = predicted_label

    @property
    def cluster_label(self) -> int:
        """Node's cluster assignment identifier."""

        return self._cluster_label

    @cluster_label.setter
    def cluster_label(self, cluster_label: int) -> None:
        if not isinstance(cluster_label, int):
            raise e.TypeError("`cluster_label` should be an integer")
        if cluster_label < 0:
            raise e.ValueError("`cluster_label` should be >= 0")

        self._cluster_label = cluster_label

    @property
    def features(self) -> np.array:
        """np.array: N-dimensional array of features."""

        return self._features

    @features.setter
    def features(self, features: np.array) -> None:
        if not isinstance(features, np.ndarray):
            raise e.TypeError("`features` should be a numpy array")

        self._features = features

    @property
    def cost(self) -> float:
        """Node's cost."""

        return self._cost

    @cost.setter
    def cost(self, cost: float) -> None:
        if not isinstance(cost, (float, int, np.int32, np.int64)):
            raise e.TypeError("`cost` should be a float or integer")

        self._cost = cost

    @property
    def density(self) -> float:
        """Node's density."""

        return self._density

    @density.setter
    def density(self, density: float) -> None:
        if not isinstance(density, (float, int, np.int32, np.int64)):
            raise e.TypeError("`density` should be a float or integer")

        self._density = density

    @property
    def radius(self) -> float:
        """Maximum distance among the k-nearest neighbors."""

        return self._radius

    @radius.setter
    def radius(self, radius: float) -> None:
        if not isinstance(radius, (float, int, np.int32, np.int64)):
            raise e.TypeError("`radius` should be a float or integer")

        self._radius = radius

    @property
    def n_plateaus(self) -> int:
        """Amount of adjacent nodes on plateaus."""

        return self._n_plateaus

    @n_plateaus.setter
    def n_plateaus(self, n_plateaus: int) -> None:
        if not isinstance(n_plateaus, int):
            raise e.TypeError("`n_plateaus` should be an integer")
        if n_plateaus < 0:
            raise e.ValueError("`n_plateaus` should be >= 0")

        self._n_plateaus = n_plateaus

    @property
    def adjacency(self) -> List[int]:
        """Adjacent nodes."""

        return self._adjacency

    @adjacency.setter
    def adjacency(self, adjacency: List[int]) -> None:
        if not isinstance(adjacency, list):
            raise e.TypeError("`adjacency` should be a list")

        self._adjacency = adjacency

    @property
    def root(self) -> int:
        """Cluster's root node identifier."""

        return self._root

    @root.setter
    def root(self, root: int) -> None:
        if not isinstance(root, int):
            raise e.TypeError("`root` should be an integer")
        if root < 0:
            raise e.ValueError("`root` should be >= 0")

        self._root = root

    @property
    def status(self) -> int:
        """Whether the node is a prototype or not."""

        return self._status

    @status.setter
    def status(self, status: int) -> None:
        if status not in [c.STANDARD, c.PROTOTYPE]:
            raise e.TypeError("`status` should be `STANDARD` or `PROTOTYPE`")

        self._status = status

    @property
    def pred(self) -> int:
        """Identifier to the predecessor node."""

        return self._pred

    @pred.setter
    def pred(self, pred: int) -> None:
        if not isinstance(pred, int):
            raise e.TypeError("`pred` should be an integer")
        if pred < c.NIL:
            raise e.ValueError("`pred` should have a value larger than `NIL`, e.g., -1")

        self._pred = pred

    @property
    def relevant(self) -> int:
        """Whether the node is relevant or not."""

        return self._relevant

    @relevant.setter
    def relevant(self, relevant: int) -> None:
        if relevant not in [c.RELEVANT, c.IRRELEVANT]:
            raise e.TypeError("`relevant` should be `RELEVANT` or `IRRELEVANT`")

        self._relevant = relevant


# Hand-made instance used by part 2: six training samples with pairwise distinct distances, all
# of them below 2, i.e., every raw Euclidean path cost lies in (0, 2) while the log-scaled ones
# are of the order of 10^4 - 10^5
HAND_X = [[1.7, 0.6], [1.2, 1.6], [1.4, 1.8], [1.7, 1.8], [0.1, 0.9], [1.0, 0.1]]
HAND_Y = [0, 0, 0, 1, 1, 1]
HAND_Q = [[0.01, 1.66], [1.97, 1.57], [0.63, 1.41], [0.6, 1.48]]
HAND_EXPECTED = [0, 1, 0, 0]


# --------------------------------------------------------------------------
# Helpers
# --------------------------------------------------------------------------
@contextlib.contextmanager
def original_node():
    """Makes every subgraph / model build its nodes with the original `Node` class."""

    saved = subgraph_module.Node, semi_module.Node
    subgraph_module.Node = RefNode
    semi_module.Node = RefNode
    try:
        yield
    finally:
        subgraph_module.Node, semi_module.Node = saved


FAILURES = []

FAMILY = [
    "euclidean",
    "squared_euclidean",
    "average_euclidean",
    "log_euclidean",
    "log_squared_euclidean",
]
METRICS = FAMILY + ["manhattan", "chebyshev", "canberra"]


def fail(msg):
    FAILURES.append(msg)
    if len(FAILURES) <= 12 or msg.startswith("hand-made"):
        print("FAIL:", msg)


def num(x):
    """Exact, type-agnostic rendering of a number (np.float64(1.5) and 1.5 are the same result)."""

    x = float(x)
    return "nan" if x != x else x.hex()


def state(opf):
    """Every observable piece of a model's forest."""

    sg = opf.subgraph
    out = {
        "idx": [n.idx for n in sg.nodes],
        "label": [n.label for n in sg.nodes],
        "predicted_label": [n.predicted_label for n in sg.nodes],
        "cluster_label": [n.cluster_label for n in sg.nodes],
        "cost": [num(n.cost) for n in sg.nodes],
        "density": [num(n.density) for n in sg.nodes],
        "radius": [num(n.radius) for n in sg.nodes],
        "n_plateaus": [n.n_plateaus for n in sg.nodes],
        "adjacency": [[int(a) for a in n.adjacency] for n in sg.nodes],
        "root": [n.root for n in sg.nodes],
        "status": [n.status for n in sg.nodes],
        "pred": [n.pred for n in sg.nodes],
        "relevant": [n.relevant for n in sg.nodes],
        "idx_nodes": [int(i) for i in sg.idx_nodes],
        "trained": sg.trained,
    }
    for extra in ("best_k", "n_clusters"):
        if hasattr(sg, extra):
            out[extra] = int(getattr(sg, extra))
    for extra in ("constant", "density", "min_density", "max_density"):
        if hasattr(sg, extra):
            out["sg_" + extra] = num(getattr(sg, extra))
    return out


def plain(preds):
    if isinstance(preds, tuple):
        return [plain(p) for p in preds]
    return [int(p) for p in preds]


def make_data(rng, tie_heavy, positive=False):
    n = int(rng.integers(10, 34))
    d = int(rng.integers(1, 5))
    k = int(rng.integers(2, 5))
    m = int(rng.integers(5, 20))
    if tie_heavy:
        # Small integer grid: plenty of equal distances and duplicated points
        X = rng.integers(0, 3, size=(n, d)).astype(float)
        Q = rng.integers(0, 3, size=(m, d)).astype(float)
    else:
        X = rng.normal(size=(n, d)) * float(rng.choice([0.2, 1.0, 4.0]))
        Q = rng.normal(size=(m, d)) * 1.5
    if positive:
        X, Q = np.abs(X) + 0.5, np.abs(Q) + 0.5
    Y = rng.integers(0, k, size=n)
    Y[:k] = np.arange(k)
    return X, Y.astype(int), Q


def history(kind, metric, X, Y, Q, rng_seed):
    """Runs one call history on freshly built models and returns everything observable."""

    rng = np.random.default_rng(rng_seed)
    n, m = len(X), len(Q)
    out = []

    if kind == "supervised":
        opf = SupervisedOPF(metric)
        opf.fit(X, Y)
        out.append(state(opf))
        out.append(plain(opf.predict(Q)))
        out.append(plain(opf.predict(X)))
        out.append(state(opf))
        perm = rng.permutation(n)
        opf.fit(X[perm], Y[perm])
        out.append(plain(opf.predict(Q)))
        out.append(state(opf))

    elif kind == "precomputed":
        total = n + m + 2
        D = rng.random((total, total)) * float(rng.choice([1.0, 50.0]))
        if rng_seed % 2:
            D = np.round(D * 4) / 4
        if rng_seed % 3 == 0:
            D = (D + D.T) / 2
        if rng_seed % 5 == 0:
            D = np.round(D * 3).astype(np.int64)
        ids = rng.permutation(total)
        opf = SupervisedOPF(metric)
        opf.pre_computed_distance = True
        opf.pre_distances = D
        opf.fit(X, Y, ids[:n])
        out.append(state(opf))
        out.append(plain(opf.predict(Q, ids[n : n + m])))
        out.append(plain(opf.predict(Q, ids[n : n + m])))
        out.append(state(opf))

    elif kind == "semi":
        n_lab = max(len(np.unique(Y)), n // 2)
        opf = SemiSupervisedOPF(metric)
        opf.fit(X[:n_lab], Y[:n_lab], X[n_lab:])
        out.append(state(opf))
        out.append(plain(opf.predict(Q)))
        out.append(state(opf))

    elif kind == "knn":
        half = n // 2
        opf = KNNSupervisedOPF(max_k=3, distance=metric)
        opf.fit(X[:half], Y[:half], X[half:], Y[half:])
        out.append(state(opf))
        out.append(plain(opf.predict(Q)))
        out.append(state(opf))

    else:
        opf = UnsupervisedOPF(min_k=1, max_k=4, distance=metric)
        opf.fit(X, Y)
        out.append(state(opf))
        opf.propagate_labels()
        out.append(plain(opf.predict(Q)))
        out.append(state(opf))

    return out


def first_difference(a, b, path=""):
    if type(a) is not type(b):
        return f"{path}: {a!r} vs {b!r}"
    if isinstance(a, dict):
        for key in a:
            d = first_difference(a[key], b.get(key), f"{path}.{key}")
            if d:
                return d
        return None
    if isinstance(a, list):
        if len(a) != len(b):
            return f"{path}: lengths {len(a)} vs {len(b)}"
        for i, (x, y) in enumerate(zip(a, b)):
            d = first_difference(x, y, f"{path}[{i}]")
            if d:
                return d
        return None
    return None if a == b else f"{path}: library {a!r} vs original {b!r}"


# --------------------------------------------------------------------------
# Part 1: library vs. original on seeded inputs
# --------------------------------------------------------------------------
KINDS = ["supervised", "precomputed", "semi", "knn", "unsupervised"]


def outcome(cls, field, value):
    node = cls(0, 0, np.zeros(2))
    try:
        setattr(node, field, value)
    except Exception as exc:  # pylint: disable=broad-except
        return type(exc).__name__
    return getattr(node, field)


def part1():
    for seed in range(50):
        kind = KINDS[seed % len(KINDS)]
        tie_heavy = seed % 3 == 0
        # Supervised runs cycle through raw and log-scaled metrics
        metric = METRICS[(seed // len(KINDS) + seed) % len(METRICS)]
        rng = np.random.default_rng(2000 + seed)
        X, Y, Q = make_data(rng, tie_heavy, positive=(metric == "canberra"))
        tag = f"seed={seed} kind={kind} metric={metric} ties={tie_heavy}"

        lib = history(kind, metric, X, Y, Q, seed)
        with original_node():
            ref = history(kind, metric, X, Y, Q, seed)

        diff = first_difference(lib, ref)
        if diff:
            fail(f"{tag}: {diff}")

    # Setter probes: whatever the original accepted is stored as the same number,
    # whatever it rejected for its range is still rejected
    probes = [0, 1, 7, -1, -2, True, 0.0, -0.0, 0.25, 1.5, -3.75, 2.0 ** 60 + 2.0 ** 8, c.FLOAT_MAX,
              -c.FLOAT_MAX, float("inf"), np.float64(0.75), np.float64(123456.789), np.float64(-2.5),
              np.int64(3), np.int32(4), np.int64(2 ** 62 + 1), "a", None, [1]]
    fields = ["idx", "label", "predicted_label", "cluster_label", "cost", "density", "radius",
              "n_plateaus", "root", "status", "pred", "relevant"]
    n_probes = 0
    for field in fields:
        for value in probes:
            ref = outcome(RefNode, field, value)
            lib = outcome(Node, field, value)
            if ref == "TypeError":
                continue  # invalid in the original: the library may accept more
            n_probes += 1
            if isinstance(ref, str) or isinstance(lib, str):
                ok = isinstance(ref, str) and isinstance(lib, str) and ref == lib
            else:
                ok = bool(ref == lib) and num(ref) == num(lib)
            if not ok:
                fail(f"Node.{field} = {value!r}: library gives {lib!r}, original gives {ref!r}")

    print(f"part 1: 50 seeded histories and {n_probes} setter probes compared against the original `Node`")


# --------------------------------------------------------------------------
# Part 2: the property - monotone rescaling of the metric changes nothing
# --------------------------------------------------------------------------
def forest(opf):
    return {
        "prototypes": [n.status for n in opf.subgraph.nodes],
        "assigned": [n.predicted_label for n in opf.subgraph.nodes],
    }


def part2():
    # Hand-made, tie-free instance at unit scale (all distances are fractions of 1, so that
    # a raw Euclidean cost has nothing but a fractional part while a log-scaled one is ~10^4)
    X = np.array(HAND_X)
    Y = np.array(HAND_Y)
    Q = np.array(HAND_Q)

    results = {}
    for metric in FAMILY:
        opf = SupervisedOPF(metric)
        opf.fit(X, Y)
        results[metric] = (forest(opf), plain(opf.predict(Q)))
    base = results["log_squared_euclidean"]
    for metric in FAMILY:
        if results[metric][0] != base[0]:
            fail(f"hand-made instance: forest under {metric} differs from log_squared_euclidean")
        if results[metric][1] != base[1]:
            fail(
                f"hand-made instance: predictions under {metric} {results[metric][1]} differ from "
                f"log_squared_euclidean {base[1]}"
            )
    if base[1] != HAND_EXPECTED:
        fail(f"hand-made instance: predictions {base[1]} != {HAND_EXPECTED}")

    # Seeded, tie-free data at several scales
    n_checked = 0
    for seed in range(36):
        rng = np.random.default_rng(9000 + seed)
        n, d, k = int(rng.integers(10, 36)), int(rng.integers(1, 4)), int(rng.integers(2, 4))
        scale = [0.05, 0.5, 3.0][seed % 3]
        X = rng.normal(size=(n, d)) * scale
        Y = rng.integers(0, k, size=n).astype(int)
        Y[:k] = np.arange(k)
        Q = rng.normal(size=(25, d)) * scale * 1.3

        runs = {}
        for metric in FAMILY:
            opf = SupervisedOPF(metric)
            opf.fit(X, Y)
            runs[metric] = (forest(opf), plain(opf.predict(Q)))
        base = runs["log_squared_euclidean"]
        for metric in FAMILY:
            if runs[metric][0] != base[0]:
                fail(f"seed={seed} scale={scale}: prototypes / labels under {metric} differ")
            if runs[metric][1] != base[1]:
                bad = [i for i in range(len(Q)) if runs[metric][1][i] != base[1][i]]
                fail(
                    f"seed={seed} scale={scale}: predictions under {metric} differ from "
                    f"log_squared_euclidean for queries {bad}"
                )
        n_checked += 1

    print(f"part 2: hand-made instance and {n_checked} seeded datasets checked over {len(FAMILY)} metrics")


if __name__ == "__main__":
    part1()
    part2()
    if FAILURES:
        print(f"\n{len(FAILURES)} failure(s)")
        sys.exit(1)
    print("OK")
    sys.exit(0)
