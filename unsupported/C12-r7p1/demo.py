"""Demo for property C12 (k-NN graph and density estimate are exact) - round 8, pair p1.

Exit 0: KNNSubgraph.create_arcs / calculate_pdf / eliminate_maxima_height behave
exactly like the original implementation (verbatim reference copies below, values
AND types) on a battery of seeded inputs and call histories, and the pair-specific
scenario (sample sets whose distances are all below 1e-5: the density bound has to
fall back to 1) matches an independent brute-force oracle.  Exit 1 otherwise.
"""


import sys
import warnings

import numpy as np

import opfython.utils.constants as c
from opfython.math import distance
from opfython.subgraphs.knn import KNNSubgraph
from opfython.utils import logging

warnings.simplefilter("ignore")
np.seterr(all="ignore")

import logging as _pylogging

_pylogging.disable(_pylogging.CRITICAL)

logger = logging.get_logger("demo")

# --------------------------------------------------------------------------
# Verbatim copies of the ORIGINAL methods (used as unbound reference functions)
# --------------------------------------------------------------------------
from typing import Optional


def ref_calculate_pdf(
    self,
    n_neighbours: int,
    distance_function: callable,
    pre_computed_distance: bool = False,
    pre_distances: Optional[np.array] = None,
) -> None:
    """Calculates the probability density function for `k` neighbours.

    Args:
        n_neighbours: Number of neighbours in the adjacency relation.
        distance_function: The distance function to be used to calculate the arcs.
        pre_computed_distance: Whether OPF should use a pre-computed distance or not.
        pre_distances: Pre-computed distance matrix.

    """

    self.constant = 2 * self.density / 9

    self.min_density = c.FLOAT_MAX
    self.max_density = -c.FLOAT_MAX

    pdf = np.zeros(self.n_nodes)
    for i in range(self.n_nodes):
        pdf[i] = 0
        n_pdf = 1

        for k in range(n_neighbours):
            j = int(self.nodes[i].adjacency[k])

            if pre_computed_distance:
                distance = pre_distances[self.nodes[i].idx][self.nodes[j].idx]

            else:
                distance = distance_function(
                    self.nodes[i].features, self.nodes[j].features
                )

            pdf[i] += np.exp(-distance / self.constant)
            n_pdf += 1

        pdf[i] /= n_pdf

        if pdf[i] < self.min_density:
            self.min_density = pdf[i]
        if pdf[i] > self.max_density:
            self.max_density = pdf[i]

    if self.min_density == self.max_density:
        for i in range(self.n_nodes):
            self.nodes[i].density = c.MAX_DENSITY
            self.nodes[i].cost = c.MAX_DENSITY - 1
    else:
        for i in range(self.n_nodes):
            self.nodes[i].density = (
                (c.MAX_DENSITY - 1)
                * (pdf[i] - self.min_density)
                / (self.max_density - self.min_density)
            ) + 1
            self.nodes[i].cost = self.nodes[i].density - 1


def ref_create_arcs(
    self,
    k: int,
    distance_function: callable,
    pre_computed_distance: bool = False,
    pre_distances: Optional[np.array] = None,
) -> np.array:
    """Creates arcs for each node (adjacency relation).

    Args:
        k: Number of neighbours in the adjacency relation.
        distance_function: The distance function to be used to calculate the arcs.
        pre_computed_distance: Whether OPF should use a pre-computed distance or not.
        pre_distances: Pre-computed distance matrix.

    Returns:
        (np.array): The maximum possible distances for each value of k.

    """

    distances = np.zeros(k + 1)
    neighbours_idx = np.zeros(k + 1)
    max_distances = np.zeros(k)

    self.density = 0.0

    for i in range(self.n_nodes):
        distances.fill(c.FLOAT_MAX)

        for j in range(self.n_nodes):
            if j != i:
                if pre_computed_distance:
                    distances[k] = pre_distances[self.nodes[i].idx][
                        self.nodes[j].idx
                    ]
                else:
                    distances[k] = distance_function(
                        self.nodes[i].features, self.nodes[j].features
                    )

                neighbours_idx[k] = j
                cur_k = k

                # While current `k` is bigger than 0 and the `k` distance is smaller than `k-1` distance
                while cur_k > 0 and distances[cur_k] < distances[cur_k - 1]:
                    distances[cur_k], distances[cur_k - 1] = (
                        distances[cur_k - 1],
                        distances[cur_k],
                    )

                    neighbours_idx[cur_k], neighbours_idx[cur_k - 1] = (
                        neighbours_idx[cur_k - 1],
                        neighbours_idx[cur_k],
                    )

                    cur_k -= 1

        self.nodes[i].radius = 0.0
        self.nodes[i].n_plateaus = 0

        for l in range(k - 1, -1, -1):
            if distances[l] != c.FLOAT_MAX:
                if distances[l] > self.density:
                    self.density = distances[l]
                if distances[l] > self.nodes[i].radius:
                    self.nodes[i].radius = distances[l]
                if distances[l] > max_distances[l]:
                    max_distances[l] = distances[l]

                self.nodes[i].adjacency.insert(0, neighbours_idx[l])

    if self.density < 0.00001:
        self.density = 1

    return max_distances

def ref_eliminate_maxima_height(self, height: float) -> None:
    """Eliminates maxima values in the subgraph that are below the inputted height.

    Args:
        height: Height's threshold.

    """

    logger.debug("Eliminating maxima above height = %s ...", height)

    if height > 0:
        for i in range(self.n_nodes):
            self.nodes[i].cost = np.maximum(self.nodes[i].density - height, 0)

    logger.debug("Maxima eliminated.")


# --------------------------------------------------------------------------
# Harness
# --------------------------------------------------------------------------
class Lib:
    """Calls the library methods."""

    create_arcs = staticmethod(lambda s, *a, **k: s.create_arcs(*a, **k))
    calculate_pdf = staticmethod(lambda s, *a, **k: s.calculate_pdf(*a, **k))
    eliminate = staticmethod(lambda s, h: s.eliminate_maxima_height(h))


class Ref:
    """Calls the verbatim reference copies."""

    create_arcs = staticmethod(ref_create_arcs)
    calculate_pdf = staticmethod(ref_calculate_pdf)
    eliminate = staticmethod(ref_eliminate_maxima_height)


def tag(v):
    return (type(v).__name__, repr(v))


def snapshot(s):
    out = [
        ("density", tag(s.density)),
        ("constant", tag(s.constant)),
        ("min_density", tag(s.min_density)),
        ("max_density", tag(s.max_density)),
    ]
    for i, n in enumerate(s.nodes):
        out.append(
            (
                i,
                tuple(tag(a) for a in n.adjacency),
                tag(n.radius),
                tag(n.density),
                tag(n.cost),
                tag(n.n_plateaus),
            )
        )
    return out


def asym_python(x, y):
    """A deliberately asymmetric dissimilarity (plain python)."""
    return float(np.sum(np.abs(x - y)) + 0.37 * max(x[0] - y[0], 0.0))


METRICS = {
    "euclidean": distance.euclidean_distance,
    "manhattan": distance.manhattan_distance,
    "chebyshev": distance.chebyshev_distance,
    "squared_euclidean": distance.squared_euclidean_distance,
    "canberra": distance.canberra_distance,
    "kullback_leibler": distance.kullback_leibler_distance,
    "asym_python": asym_python,
}


def run_history(impl, s, hist, fn, pre, mat):
    """Runs a call history and returns everything observable."""
    trace = []
    kw = dict(pre_computed_distance=pre, pre_distances=mat)
    for op in hist:
        try:
            run_op(impl, s, op, fn, kw, trace)
        except Exception as exc:  # recorded, so that both sides must agree on it
            trace.append(("raised", type(exc).__name__))
            break
        trace.append(("snap", snapshot(s)))
    return trace


def run_op(impl, s, op, fn, kw, trace):
    if True:
        if op[0] == "arcs":
            r = impl.create_arcs(s, op[1], fn, **kw)
            trace.append(("ret", tag(r.dtype), tuple(repr(v) for v in r.tolist())))
        elif op[0] == "pdf":
            impl.calculate_pdf(s, op[1], fn, **kw)
        elif op[0] == "search":
            # what UnsupervisedOPF._best_minimum_cut does
            kmax = op[1]
            md = impl.create_arcs(s, kmax, fn, **kw)
            trace.append(("ret", tuple(repr(v) for v in md.tolist())))
            for k in range(1, kmax + 1):
                s.density = md[k - 1]
                s.best_k = k
                impl.calculate_pdf(s, k, fn, **kw)
                trace.append(("snap", snapshot(s)))
        elif op[0] == "destroy":
            s.destroy_arcs()
        elif op[0] == "height":
            impl.eliminate(s, op[1])


def make_cases():
    cases = []
    rng = np.random.RandomState(1212)

    def add(name, X, hist, metric="euclidean", I=None, mat=None):
        cases.append((name, np.asarray(X, dtype=float), hist, metric, I, mat))

    # 1) random clouds, all metrics
    for t, m in enumerate(METRICS):
        n = int(rng.randint(6, 16))
        d = int(rng.randint(2, 5))
        X = rng.rand(n, d) + 0.05
        k = int(rng.randint(1, 5))
        add(
            "rand-%s" % m,
            X,
            [("arcs", k), ("pdf", k), ("height", 2.5), ("height", 0.0), ("height", -3.0)],
            m,
        )

    # 2) lattice data (many equal distances), several k and metrics
    for t, m in enumerate(["euclidean", "manhattan", "chebyshev", "squared_euclidean"]):
        side = 3 + t % 2
        X = np.array([[a, b] for a in range(side) for b in range(side)], dtype=float)
        X = X[rng.permutation(len(X))]
        for k in (1, 3, 5):
            add(
                "lattice-%s-k%d" % (m, k),
                X,
                [("arcs", k), ("pdf", k), ("height", 100.0), ("height", float("nan"))],
                m,
            )

    # 3) duplicates
    for t in range(4):
        base = rng.randint(0, 3, size=(4, 2)).astype(float)
        X = base[rng.randint(0, 4, size=9)]
        add("dup-%d" % t, X, [("search", 4), ("destroy",), ("arcs", 2), ("pdf", 2)])

    # 4) best-k searches (arcs with kmax, pdf for every k <= kmax)
    for t in range(5):
        n = int(rng.randint(7, 14))
        X = rng.randn(n, 3)
        m = ["euclidean", "manhattan", "asym_python", "chebyshev", "canberra"][t]
        if m == "canberra":
            X = np.abs(X) + 0.1
        add(
            "search-%d-%s" % (t, m),
            X,
            [("search", 5), ("destroy",), ("arcs", 3), ("pdf", 3), ("height", 40.0)],
            m,
        )

    # 5) k larger than n - 1
    for t in range(4):
        n = 3 + t
        X = rng.rand(n, 2)
        add(
            "bigk-%d" % t,
            X,
            [("arcs", n + 2), ("pdf", n - 1), ("height", 1.0)],
            ["euclidean", "manhattan"][t % 2],
        )

    # 6) pre-computed matrices, identity and non-identity indexes, (a)symmetric
    for t in range(6):
        n = int(rng.randint(6, 11))
        N = n + 5
        M = rng.rand(N, N) * 3
        if t % 2 == 0:
            M = (M + M.T) / 2
        if t >= 4:
            M = np.round(M)  # heavy ties
        np.fill_diagonal(M, 0.0)
        I = rng.permutation(N)[:n] if t % 3 else np.arange(n)
        add(
            "pre-%d" % t,
            rng.rand(n, 2),
            [("search", 4), ("destroy",), ("arcs", 2), ("pdf", 2), ("height", 7.0)],
            "euclidean",
            I,
            M,
        )

    # 7) repeated arc creation without destroying (arcs accumulate), tiny distances
    add("repeat-0", rng.rand(8, 2), [("arcs", 2), ("arcs", 3), ("pdf", 4)])
    add("repeat-1", rng.rand(7, 3), [("arcs", 1), ("pdf", 1), ("arcs", 2), ("pdf", 2)], "manhattan")
    add("tiny", rng.rand(6, 2) * 1e-7, [("arcs", 2), ("pdf", 2), ("height", 0.5)])
    add("same", np.ones((5, 2)), [("arcs", 2), ("pdf", 2), ("height", 0.5)])
    add("pair", np.array([[0.0, 0.0], [1.0, 1.0]]), [("arcs", 1), ("pdf", 1)])
    tri = np.array([[0, 0], [2, 0], [0, 2], [2, 2]], dtype=float)
    add("square-flat", tri, [("arcs", 2), ("pdf", 2), ("height", 999.0), ("height", 1000.0)])

    # 8) round-8 extras: single node, k = n, k = n - 1, negative / huge pre-computed entries
    add("single", np.array([[1.0, 2.0]]), [("arcs", 2), ("height", 1.0)])
    add("k-eq-n", rng.rand(5, 2), [("arcs", 5), ("pdf", 4), ("destroy",), ("arcs", 4), ("pdf", 4)])
    for t in range(4):
        n = 7 + t
        M = np.round(rng.randn(n, n) * 2)
        add("pre-signed-%d" % t, rng.rand(n, 2), [("search", 3), ("height", 3.0)], "euclidean",
            rng.permutation(n), M)
    for t in range(3):
        X = rng.randint(0, 3, size=(10, 2)).astype(float)
        add("refit-%d" % t, X,
            [("arcs", 1), ("pdf", 1), ("destroy",), ("arcs", 3), ("pdf", 3), ("destroy",),
             ("arcs", 2), ("pdf", 2), ("pdf", 1), ("height", 10.0)],
            ["euclidean", "manhattan", "chebyshev"][t])

    return cases


def compare_with_reference():
    cases = make_cases()
    bad = 0
    for name, X, hist, metric, I, mat in cases:
        Y = np.ones(len(X), dtype=int)
        fn = METRICS[metric]
        pre = mat is not None
        s_ref = KNNSubgraph(X, Y, I)
        s_lib = KNNSubgraph(X, Y, I)
        t_ref = run_history(Ref, s_ref, hist, fn, pre, mat)
        t_lib = run_history(Lib, s_lib, hist, fn, pre, mat)
        if t_ref != t_lib:
            bad += 1
            print("MISMATCH with original behaviour on case %s (history %s)" % (name, hist))
    print("reference comparison: %d cases, %d mismatches" % (len(cases), bad))
    return bad


# --------------------------------------------------------------------------
# Independent oracle (brute force, straight from the property statement)
# --------------------------------------------------------------------------
def oracle_knn(D, k):
    """Neighbours (stable order on ties), radius, per-rank maxima and bound."""
    n = len(D)
    kk = min(k, n - 1)
    adj, rad = [], []
    maxima = np.zeros(k)
    for i in range(n):
        others = [j for j in range(n) if j != i]
        others.sort(key=lambda j: D[i][j])  # stable: lower index first on ties
        near = others[:kk]
        adj.append(near)
        ds = [D[i][j] for j in near]
        rad.append(max(ds) if ds else 0.0)
        for r, dv in enumerate(ds):
            maxima[r] = max(maxima[r], dv)
    bound = max(rad) if rad else 0.0
    if bound < 0.00001:
        bound = 1
    return adj, rad, maxima, bound


def oracle_pdf(D, adj, k, bound):
    const = 2 * bound / 9
    raw = np.array(
        [sum(np.exp(-D[i][j] / const) for j in adj[i][:k]) / (k + 1) for i in range(len(D))]
    )
    lo, hi = raw.min(), raw.max()
    if lo == hi:
        dens = np.full(len(D), float(c.MAX_DENSITY))
    else:
        dens = (c.MAX_DENSITY - 1) * (raw - lo) / (hi - lo) + 1
    return const, lo, hi, dens


# --------------------------------------------------------------------------
# Pair-specific scenario: every distance is below 1e-5 (identical samples, or a
# cloud of diameter ~1e-7).  The density bound must fall back to 1, the constant
# recorded by the density estimate must be 2/9 and the densities follow from it.
# --------------------------------------------------------------------------
def specific():
    bad = 0
    rng = np.random.RandomState(812)
    sets = []
    for t in range(4):
        n = 4 + t
        sets.append(("identical-%d" % t, np.tile(rng.rand(1, 3), (n, 1)), None, None))
    for t in range(4):
        n = 5 + t
        sets.append(("tiny-cloud-%d" % t, 0.5 + rng.rand(n, 2) * 1e-7, None, None))
    for t in range(3):
        n = 6 + t
        N = n + 3
        M = rng.rand(N, N) * 1e-6
        M = (M + M.T) / 2
        np.fill_diagonal(M, 0.0)
        sets.append(("tiny-matrix-%d" % t, rng.rand(n, 2), rng.permutation(N)[:n], M))
    # control group: ordinary data, the bound is the largest stored arc
    for t in range(3):
        sets.append(("control-%d" % t, rng.rand(7 + t, 2), None, None))

    for name, X, I, M in sets:
        n = len(X)
        pre = M is not None
        if pre:
            D = [[float(M[a][b]) for b in I] for a in I]
        else:
            D = [[float(distance.euclidean_distance(a, b)) for b in X] for a in X]
        for k in (1, 2, 3):
            s = KNNSubgraph(X, np.ones(n, dtype=int), I)
            md = s.create_arcs(k, distance.euclidean_distance, pre, M)
            adj, rad, maxima, bound = oracle_knn(D, k)
            got_adj = [[int(a) for a in node.adjacency] for node in s.nodes]
            ok = (
                float(s.density) == float(bound)
                and [sorted(D[i][j] for j in got_adj[i]) for i in range(n)]
                == [sorted(D[i][j] for j in adj[i]) for i in range(n)]
                and np.allclose([float(node.radius) for node in s.nodes], rad, rtol=0, atol=0)
                and np.allclose(md, maxima, rtol=0, atol=0)
            )
            if not ok:
                bad += 1
                print(
                    "ORACLE MISMATCH %s k=%d after create_arcs: density bound %r, expected %r"
                    % (name, k, s.density, bound)
                )
                continue
            with np.errstate(all="ignore"):
                s.calculate_pdf(k, distance.euclidean_distance, pre, M)
            const, lo, hi, dens = oracle_pdf(D, adj, k, bound)
            got = np.array([float(node.density) for node in s.nodes])
            cost = np.array([float(node.cost) for node in s.nodes])
            ok = (
                abs(s.constant - const) <= 1e-15
                and abs(s.min_density - lo) <= 1e-9
                and abs(s.max_density - hi) <= 1e-9
                and np.allclose(got, dens, rtol=0, atol=1e-6)
                and np.allclose(cost, dens - 1, rtol=0, atol=1e-6)
            )
            if not ok:
                bad += 1
                print(
                    "ORACLE MISMATCH %s k=%d after calculate_pdf: constant %r (expected %r)"
                    % (name, k, s.constant, const)
                )
    print("specific scenario (all distances below 1e-5 -> bound falls back to 1): %d mismatches" % bad)
    return bad


if __name__ == "__main__":
    failures = compare_with_reference() + specific()
    if failures:
        print("FAIL: %d deviations" % failures)
        sys.exit(1)
    print("OK")
    sys.exit(0)
