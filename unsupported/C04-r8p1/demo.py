"""C04 / p1 - demo for the "performance-minded" rewrite of SupervisedOPF._find_prototypes.

Run as:  cd /tmp/wt/C04 && PYTHONPATH=/tmp/wt/C04 /venv/bin/python demo.py

Part 1 compares the library (whatever patch is applied) against a verbatim copy of the
ORIGINAL `_find_prototypes` / `fit` on many seeded inputs (random, tie-heavy, pre-computed
distances with non-identity indexes, several metrics, repeated fits).
Part 2 checks the property itself (zero resubstitution error on tie-free training sets) on
inputs where one sample is linked, in the minimum spanning tree, to MORE THAN ONE sample of
another class - the situation the slip needs.

Exit status 0: everything identical and the property holds.  Non-zero otherwise.
"""

import logging
import sys

logging.disable(logging.CRITICAL)

import numpy as np

import opfython.utils.constants as c
from opfython.core import Heap, Subgraph
from opfython.models.supervised import SupervisedOPF

logger = logging.getLogger("demo.reference")


# --------------------------------------------------------------------------------------
# Reference: verbatim copy of the original methods (only `self._find_prototypes()` inside
# `fit` is redirected to the reference copy, and the timing / logging lines are dropped).
# --------------------------------------------------------------------------------------
def ref_find_prototypes(self) -> None:
    h = Heap(self.subgraph.n_nodes)

    self.subgraph.nodes[0].pred = c.NIL

    h.insert(0)

    prototypes = []
    while not h.is_empty():
        p = h.remove()

        self.subgraph.nodes[p].cost = h.cost[p]

        pred = self.subgraph.nodes[p].pred
        if pred != c.NIL:
            if self.subgraph.nodes[p].label != self.subgraph.nodes[pred].label:
                if self.subgraph.nodes[p].status != c.PROTOTYPE:
                    self.subgraph.nodes[p].status = c.PROTOTYPE
                    prototypes.append(p)

                if self.subgraph.nodes[pred].status != c.PROTOTYPE:
                    self.subgraph.nodes[pred].status = c.PROTOTYPE
                    prototypes.append(pred)

        for q in range(self.subgraph.n_nodes):
            if h.color[q] != c.BLACK:
                if p != q:
                    if self.pre_computed_distance:
                        weight = self.pre_distances[self.subgraph.nodes[p].idx][
                            self.subgraph.nodes[q].idx
                        ]
                    else:
                        weight = self.distance_fn(
                            self.subgraph.nodes[p].features,
                            self.subgraph.nodes[q].features,
                        )

                    if weight < h.cost[q]:
                        self.subgraph.nodes[q].pred = p

                        h.update(q, weight)

    return prototypes


def ref_fit(self, X_train, Y_train, I_train=None) -> None:
    self.subgraph = Subgraph(X_train, Y_train, I=I_train)

    ref_find_prototypes(self)

    h = Heap(size=self.subgraph.n_nodes)

    for i in range(self.subgraph.n_nodes):
        if self.subgraph.nodes[i].status == c.PROTOTYPE:
            self.subgraph.nodes[i].pred = c.NIL
            self.subgraph.nodes[i].predicted_label = self.subgraph.nodes[i].label

            h.cost[i] = 0
            h.insert(i)
        else:
            h.cost[i] = c.FLOAT_MAX

    while not h.is_empty():
        p = h.remove()

        self.subgraph.idx_nodes.append(p)
        self.subgraph.nodes[p].cost = h.cost[p]

        for q in range(self.subgraph.n_nodes):
            if p != q:
                if h.cost[p] < h.cost[q]:
                    if self.pre_computed_distance:
                        weight = self.pre_distances[self.subgraph.nodes[p].idx][
                            self.subgraph.nodes[q].idx
                        ]
                    else:
                        weight = self.distance_fn(
                            self.subgraph.nodes[p].features,
                            self.subgraph.nodes[q].features,
                        )

                    current_cost = np.maximum(h.cost[p], weight)

                    if current_cost < h.cost[q]:
                        self.subgraph.nodes[q].pred = p
                        self.subgraph.nodes[
                            q
                        ].predicted_label = self.subgraph.nodes[p].predicted_label

                        h.update(q, current_cost)

    self.subgraph.trained = True


# --------------------------------------------------------------------------------------
# Helpers
# --------------------------------------------------------------------------------------
def snapshot(opf):
    """Everything observable of a fitted classifier."""

    sg = opf.subgraph
    return {
        "status": [n.status for n in sg.nodes],
        "pred": [n.pred for n in sg.nodes],
        "cost": [(type(n.cost).__name__, float(n.cost).hex()) for n in sg.nodes],
        "plabel": [n.predicted_label for n in sg.nodes],
        "relevant": [n.relevant for n in sg.nodes],
        "idx_nodes": list(sg.idx_nodes),
        "trained": sg.trained,
    }


def make_opf(distance, D):
    opf = SupervisedOPF(distance=distance)
    if D is not None:
        opf.pre_computed_distance = True
        opf.pre_distances = D
    return opf


FAILURES = []


def fail(msg):
    FAILURES.append(msg)
    print("FAIL:", msg)


def compare(name, distance, X, Y, I=None, D=None, X_test=None, I_test=None, lib=None, ref=None):
    """Fits library and reference on the same input and compares every observable."""

    lib = lib or make_opf(distance, D)
    ref = ref or make_opf(distance, D)

    lib.fit(X.copy(), Y.copy(), None if I is None else I.copy())
    ref_fit(ref, X.copy(), Y.copy(), None if I is None else I.copy())

    a, b = snapshot(lib), snapshot(ref)
    for key in a:
        if a[key] != b[key]:
            fail("%s: `%s` differs from the original\n   lib=%s\n   ref=%s" % (name, key, a[key], b[key]))
            return lib, ref

    # Prediction of the training set and of unseen samples (uses the unchanged predict on both)
    pa, pb = lib.predict(X.copy(), I), ref.predict(X.copy(), I)
    if pa != pb:
        fail("%s: predict(train) differs from the original" % name)
    if X_test is not None:
        pa, pb = lib.predict(X_test.copy(), I_test), ref.predict(X_test.copy(), I_test)
        if pa != pb:
            fail("%s: predict(test) differs from the original" % name)
    a, b = snapshot(lib), snapshot(ref)
    if a["relevant"] != b["relevant"]:
        fail("%s: relevance marks differ from the original" % name)

    return lib, ref


def check_property(name, distance, X, Y, I=None, D=None):
    """Zero resubstitution error: labels after fit and predict(train) == Y."""

    opf = make_opf(distance, D)
    opf.fit(X.copy(), Y.copy(), I)
    got = [n.predicted_label for n in opf.subgraph.nodes]
    want = [int(y) for y in Y]
    ok = True
    if got != want:
        wrong = [i for i in range(len(want)) if got[i] != want[i]]
        fail(
            "%s: PROPERTY BROKEN - training samples %s got labels %s instead of %s (prototypes: %s)"
            % (name, wrong, [got[i] for i in wrong], [want[i] for i in wrong],
               [i for i, n in enumerate(opf.subgraph.nodes) if n.status == c.PROTOTYPE])
        )
        ok = False
    preds = opf.predict(X.copy(), I)
    if list(preds) != want:
        fail("%s: PROPERTY BROKEN - predict(X_train) != Y_train" % name)
        ok = False
    return ok


def tie_free(Dm):
    iu = np.triu_indices(Dm.shape[0], 1)
    v = Dm[iu]
    return len(np.unique(v)) == len(v)


def blobs(rng, n, n_classes, dim, spread, positive=False):
    centers = rng.normal(0.0, 2.0, size=(n_classes, dim))
    Y = np.array([i % n_classes for i in range(n)]) + 1
    rng.shuffle(Y)
    X = centers[Y - 1] + rng.normal(0.0, spread, size=(n, dim))
    if positive:
        X = np.abs(X) + 0.1
    return X, Y.astype(int)


# --------------------------------------------------------------------------------------
# Part 1 - equivalence with the original on seeded inputs
# --------------------------------------------------------------------------------------
def part1():
    n_cases = 0

    # (a) random overlapping blobs, several metrics
    metrics = ["log_squared_euclidean", "euclidean", "manhattan", "chi_squared"]
    for seed in range(16):
        rng = np.random.default_rng(1000 + seed)
        metric = metrics[seed % len(metrics)]
        n = int(rng.integers(6, 36))
        X, Y = blobs(rng, n, int(rng.integers(2, 5)), int(rng.integers(1, 5)),
                     float(rng.uniform(0.3, 2.5)), positive=(metric == "chi_squared"))
        Xt = X[: max(2, n // 3)] + rng.normal(0, 0.5, size=(max(2, n // 3), X.shape[1]))
        if metric == "chi_squared":
            Xt = np.abs(Xt) + 0.1
        compare("blobs/%s/seed%d" % (metric, seed), metric, X, Y, X_test=Xt)
        n_cases += 1

    # (b) tie-heavy: small integer grids, duplicated points with different labels
    for seed in range(10):
        rng = np.random.default_rng(2000 + seed)
        n = int(rng.integers(5, 30))
        X = rng.integers(0, 3, size=(n, int(rng.integers(1, 3)))).astype(float)
        Y = rng.integers(1, int(rng.integers(2, 4)) + 1, size=n).astype(int)
        if len(set(Y.tolist())) < 2:
            Y[0], Y[1] = 1, 2
        compare("grid/seed%d" % seed, "squared_euclidean" if seed % 2 else "manhattan", X, Y,
                X_test=rng.integers(0, 3, size=(6, X.shape[1])).astype(float))
        n_cases += 1

    # (c) pre-computed distances, non-identity (shuffled subset) indexes; symmetric, asymmetric, tied
    for seed in range(10):
        rng = np.random.default_rng(3000 + seed)
        N = int(rng.integers(12, 40))
        if seed % 3 == 0:
            D = rng.integers(0, 4, size=(N, N)).astype(float)  # ties, asymmetric
        elif seed % 3 == 1:
            D = rng.uniform(0.0, 10.0, size=(N, N))  # asymmetric, tie-free
        else:
            D = rng.uniform(0.0, 10.0, size=(N, N))
            D = (D + D.T) / 2.0
        np.fill_diagonal(D, 0.0)
        perm = rng.permutation(N)
        n = int(rng.integers(5, N - 3))
        I, It = perm[:n], perm[n:]
        X = rng.normal(size=(n, 2))
        Y = rng.integers(1, 4, size=n).astype(int)
        Y[0], Y[1] = 1, 2
        compare("precomputed/seed%d" % seed, "log_squared_euclidean", X, Y, I=I, D=D,
                X_test=rng.normal(size=(len(It), 2)), I_test=It)
        n_cases += 1

    # (d) repeated fits on the very same objects (different sizes, then the same size again)
    lib = ref = None
    for rep, seed in enumerate([4000, 4001, 4002, 4000]):
        rng = np.random.default_rng(seed)
        X, Y = blobs(rng, 10 + 7 * (rep % 2), 3, 2, 1.5)
        lib, ref = compare("repeated/fit%d" % rep, "log_squared_euclidean", X, Y, lib=lib, ref=ref)
        n_cases += 1

    # (e) degenerate: one class only (no prototypes), two samples
    X = np.array([[0.0], [1.0], [3.0]])
    for Y in (np.array([1, 1, 1]), np.array([1, 2, 1])):
        lib, ref = make_opf("euclidean", None), make_opf("euclidean", None)
        lib.fit(X.copy(), Y.copy())
        ref_fit(ref, X.copy(), Y.copy())
        if snapshot(lib) != snapshot(ref):
            fail("degenerate %s differs from the original" % Y.tolist())
        n_cases += 1

    print("part 1: %d inputs compared with the original implementation" % n_cases)


# --------------------------------------------------------------------------------------
# Part 2 - the property on inputs with a sample between two samples of another class
# --------------------------------------------------------------------------------------
def part2():
    # Minimal witness.  Samples on a line, tie-free distances, MST = the chain 0-1-2-3-4:
    #   x:      0.0   1.0   2.1   3.3   4.6
    #   class:   1     2     1     1     1
    # Sample 1 (class 2) has an MST arc to sample 0 AND to sample 2, both of class 1, so
    # 0, 1 and 2 must all be prototypes.  If 2 is not, 2/3/4 are conquered by sample 1.
    X = np.array([[0.0], [1.0], [2.1], [3.3], [4.6]])
    Y = np.array([1, 2, 1, 1, 1])
    check_property("witness chain (euclidean)", "euclidean", X, Y)
    check_property("witness chain (log_squared_euclidean)", "log_squared_euclidean", X, Y)

    # Same witness through a pre-computed matrix and shuffled indexes
    pos = np.array([9.9, 3.3, 0.0, 7.7, 2.1, 1.0, 4.6, 12.5])
    D = np.abs(pos[:, None] - pos[None, :])
    I = np.array([2, 5, 4, 1, 6])
    check_property("witness chain (pre-computed, shuffled indexes)", "euclidean",
                   np.zeros((5, 1)), Y, I=I, D=D)

    # Three classes: 1 - 2 - 3 along the chain, the middle sample is alone in its class
    X = np.array([[0.0, 0.0], [1.0, 0.1], [2.2, 0.0], [3.5, 0.1], [-1.3, 0.0]])
    Y = np.array([1, 2, 3, 3, 1])
    check_property("three classes chain", "euclidean", X, Y)

    # Random strongly overlapping, tie-free training sets (many inter-class MST arcs)
    n_checked = 0
    for seed in range(30):
        rng = np.random.default_rng(5000 + seed)
        n = int(rng.integers(8, 30))
        X = rng.normal(size=(n, 2))
        Y = rng.integers(1, 4, size=n).astype(int)
        Y[0], Y[1] = 1, 2
        Dm = np.sqrt(((X[:, None, :] - X[None, :, :]) ** 2).sum(-1))
        if not tie_free(Dm):
            continue
        check_property("overlap/seed%d" % seed, "euclidean", X, Y)
        n_checked += 1
    print("part 2: witnesses + %d random tie-free overlapping training sets checked" % n_checked)


if __name__ == "__main__":
    part1()
    part2()
    if FAILURES:
        print("\n%d check(s) failed" % len(FAILURES))
        sys.exit(1)
    print("all checks passed")
    sys.exit(0)
