"""Demo for pair p1 of property C16 (unsupervised part).

Compares the library's UnsupervisedOPF against a reference that carries verbatim
copies of the ORIGINAL `_normalized_cut` and `_best_minimum_cut`, on seeded inputs:
feature-driven, tie-heavy integer grids, pre-computed distances with identity
indexes and pre-computed distances with NON-identity indexes (a training subset
of a larger pre-computed matrix).

Exit 0: everything identical and the chosen k is the smallest minimiser of the
        reference normalised cut.  Exit 1 otherwise.
"""

import logging
import sys

import numpy as np

logging.disable(logging.CRITICAL)

import opfython.math.distance as d  # noqa: E402
import opfython.utils.constants as c  # noqa: E402
from opfython.models.unsupervised import UnsupervisedOPF  # noqa: E402


class RefUnsupervisedOPF(UnsupervisedOPF):
    """Original selection code (verbatim copies of the two methods at the clean HEAD)."""

    def _normalized_cut(self, n_neighbours):
        internal_cluster = np.zeros(self.subgraph.n_clusters)
        external_cluster = np.zeros(self.subgraph.n_clusters)

        cut = 0.0

        for i in range(self.subgraph.n_nodes):
            n_adjacents = self.subgraph.nodes[i].n_plateaus + n_neighbours

            for k in range(n_adjacents):
                j = int(self.subgraph.nodes[i].adjacency[k])

                if self.pre_computed_distance:
                    distance = self.pre_distances[self.subgraph.nodes[i].idx][
                        self.subgraph.nodes[j].idx
                    ]
                else:
                    distance = self.distance_fn(
                        self.subgraph.nodes[i].features, self.subgraph.nodes[j].features
                    )

                if distance > 0.0:
                    if (
                        self.subgraph.nodes[i].cluster_label
                        == self.subgraph.nodes[j].cluster_label
                    ):
                        internal_cluster[self.subgraph.nodes[i].cluster_label] += (
                            1 / distance
                        )
                    else:
                        external_cluster[self.subgraph.nodes[i].cluster_label] += (
                            1 / distance
                        )

        for l in range(self.subgraph.n_clusters):
            if internal_cluster[l] + external_cluster[l] > 0.0:
                cut += external_cluster[l] / (internal_cluster[l] + external_cluster[l])

        self.ref_cuts.append((n_neighbours, float(cut)))

        return cut

    def _best_minimum_cut(self, min_k, max_k):
        max_distances = self.subgraph.create_arcs(
            max_k, self.distance_fn, self.pre_computed_distance, self.pre_distances
        )

        min_cut = c.FLOAT_MAX
        for k in range(min_k, max_k + 1):
            if min_cut != 0.0:
                self.subgraph.density = max_distances[k - 1]
                self.subgraph.best_k = k
                self.subgraph.calculate_pdf(
                    k, self.distance_fn, self.pre_computed_distance, self.pre_distances
                )

                self._clustering(k)

                cut = self._normalized_cut(k)
                if cut < min_cut:
                    min_cut = cut
                    best_k = k

        self.subgraph.destroy_arcs()

        self.subgraph.best_k = best_k

        self.subgraph.create_arcs(
            best_k, self.distance_fn, self.pre_computed_distance, self.pre_distances
        )
        self.subgraph.calculate_pdf(
            best_k, self.distance_fn, self.pre_computed_distance, self.pre_distances
        )


def full_matrix(X, metric):
    fn = d.DISTANCES[metric]
    n = len(X)
    D = np.zeros((n, n))
    for i in range(n):
        for j in range(n):
            D[i][j] = fn(X[i], X[j])
    return D


def snapshot(opf):
    sg = opf.subgraph
    return {
        "best_k": sg.best_k,
        "n_clusters": sg.n_clusters,
        "density": float(sg.density),
        "constant": float(sg.constant),
        "min_density": float(sg.min_density),
        "max_density": float(sg.max_density),
        "idx_nodes": list(sg.idx_nodes),
        "cluster": [n.cluster_label for n in sg.nodes],
        "root": [n.root for n in sg.nodes],
        "pred": [n.pred for n in sg.nodes],
        "cost": [float(n.cost) for n in sg.nodes],
        "dens": [float(n.density) for n in sg.nodes],
        "adj": [[int(a) for a in n.adjacency] for n in sg.nodes],
    }


def run(cls, case, record_cuts):
    opf = cls(min_k=case["min_k"], max_k=case["max_k"], distance=case["metric"])
    if case["D"] is not None:
        opf.pre_computed_distance = True
        opf.pre_distances = case["D"]

    cuts = []
    if record_cuts:
        # observe the library's cut routine from outside
        inner = opf._normalized_cut

        def spy(n_neighbours):
            value = inner(n_neighbours)
            cuts.append((n_neighbours, float(value)))
            return value

        opf._normalized_cut = spy
    else:
        opf.ref_cuts = cuts

    opf.fit(case["X"], case["Y"], case["I"])
    snap = snapshot(opf)

    X_new = case["X_new"]
    preds = opf.predict(X_new, case["I_new"])
    snap["preds"] = [list(map(int, p)) for p in preds]

    # a second fit on the same object has to give the same model
    opf.fit(case["X"], case["Y"], case["I"])
    snap["best_k_refit"] = opf.subgraph.best_k

    return snap, cuts


def build_cases():
    cases = []

    # (1) feature driven, several metrics, gaussian blobs
    metrics = ["log_squared_euclidean", "euclidean", "manhattan", "squared_euclidean", "chebyshev"]
    for seed in range(12):
        rng = np.random.RandomState(100 + seed)
        n = 24 + (seed % 3) * 4
        centers = rng.uniform(0, 6, size=(3, 2))
        X = centers[rng.randint(0, 3, n)] + rng.normal(0, 0.5 + 0.1 * (seed % 4), (n, 2))
        Y = rng.randint(0, 3, n)
        cases.append(dict(name="blobs-%d" % seed, X=X, Y=Y, I=None, D=None,
                          metric=metrics[seed % len(metrics)], min_k=1 + seed % 2,
                          max_k=4 + seed % 3, X_new=X[:6] + 0.05, I_new=None))

    # (2) tie-heavy: points on a small integer grid, with duplicates
    for seed in range(8):
        rng = np.random.RandomState(200 + seed)
        n = 26
        X = rng.randint(0, 4, size=(n, 2)).astype(float)
        Y = rng.randint(0, 2, n)
        cases.append(dict(name="grid-%d" % seed, X=X, Y=Y, I=None, D=None,
                          metric=["euclidean", "manhattan"][seed % 2], min_k=1,
                          max_k=5, X_new=X[:5], I_new=None))

    # (3) pre-computed distances, identity indexes (incl. integer valued = ties)
    for seed in range(6):
        rng = np.random.RandomState(300 + seed)
        n = 24
        if seed % 2:
            X = rng.randint(0, 5, size=(n, 2)).astype(float)
        else:
            X = rng.normal(0, 1, (n, 3))
        D = full_matrix(X, "euclidean")
        cases.append(dict(name="pre-identity-%d" % seed, X=X, Y=None, I=None, D=D,
                          metric="log_squared_euclidean", min_k=1, max_k=4,
                          X_new=X[:5], I_new=np.arange(5)))

    # (4) pre-computed distances of a bigger pool, training on a subset of it
    #     -> node position != node idx
    for seed in range(14):
        rng = np.random.RandomState(400 + seed)
        pool = 48
        centers = rng.uniform(0, 8, size=(4, 2))
        P = centers[rng.randint(0, 4, pool)] + rng.normal(0, 0.6, (pool, 2))
        D = full_matrix(P, "euclidean")
        perm = rng.permutation(pool)
        I_train = perm[:26]
        I_new = perm[26:34]
        cases.append(dict(name="pre-subset-%d" % seed, X=P[I_train], Y=None, I=I_train, D=D,
                          metric="log_squared_euclidean", min_k=1, max_k=5,
                          X_new=P[I_new], I_new=I_new))

    return cases


def main():
    failures = []
    cases = build_cases()

    for case in cases:
        ref, ref_cuts = run(RefUnsupervisedOPF, case, record_cuts=False)
        lib, lib_cuts = run(UnsupervisedOPF, case, record_cuts=True)

        # criterion values seen by the library == the original definition
        if lib_cuts != ref_cuts:
            failures.append("%s: normalised cuts differ\n    lib %s\n    ref %s"
                            % (case["name"], lib_cuts, ref_cuts))

        for key in ref:
            if lib[key] != ref[key]:
                failures.append("%s: `%s` differs (lib %r, ref %r)"
                                % (case["name"], key, lib[key] if key.startswith("best") else "...",
                                   ref[key] if key.startswith("best") else "..."))

        # property: smallest k with the lowest (reference) cut among the evaluated ones
        first_fit = ref_cuts[: len(ref_cuts) // 2]
        lowest = min(v for _, v in first_fit)
        expected_k = min(k for k, v in first_fit if v == lowest)
        if lib["best_k"] != expected_k:
            failures.append("%s: best_k = %d but the smallest minimiser of the normalised cut is k = %d %s"
                            % (case["name"], lib["best_k"], expected_k, first_fit))

    print("%d inputs checked" % len(cases))
    if failures:
        print("MISMATCHES (%d):" % len(failures))
        for f in failures[:25]:
            print(" -", f)
        sys.exit(1)

    print("OK: identical to the original behaviour")
    sys.exit(0)


if __name__ == "__main__":
    main()
