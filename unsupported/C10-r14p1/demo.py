"""C10 / p1 - the distance file written by pre_compute_distance is unchanged.

Part 1 compares, byte for byte, the file written by the library's
`opfython.math.general.pre_compute_distance` with the file written by a verbatim copy
of the ORIGINAL routine, on 40 seeded datasets (tie-heavy integer grids and real-valued
ones, 3 .. 300 rows, several metrics, .txt and .csv).

Part 2 is the property itself: supervised, semi-supervised and unsupervised models fed
with the library's distance file plus index arrays must reproduce, exactly, the models
that evaluate the same metric on the fly (dataset of 170 rows, so that the subsets
contain rows from every part of the matrix).

Exit status 0: identical to the original library.  Exit status 1: a difference was found.

Run as: cd /tmp/wt/C10 && PYTHONPATH=/tmp/wt/C10 /venv/bin/python demo.py
"""

import inspect
import logging
import os
import shutil
import sys
import tempfile
import warnings

import numpy as np

logging.disable(logging.CRITICAL)
warnings.simplefilter("ignore")

import opfython.math.distance as d
import opfython.math.general as g
from opfython.models import SemiSupervisedOPF, SupervisedOPF, UnsupervisedOPF

FAILURES = []
TMP = tempfile.mkdtemp(prefix="c10p1_")


def fail(msg):
    FAILURES.append(msg)
    if len(FAILURES) <= 25:
        print("MISMATCH:", msg)


# --------------------------------------------------------------------------------------
# Reference: verbatim copy of the original routine
# --------------------------------------------------------------------------------------
def orig_pre_compute_distance(data, output, distance="log_squared_euclidean"):
    size = data.shape[0]

    distances = np.zeros((size, size))
    for i in range(size):
        for j in range(size):
            distances[i][j] = d.DISTANCES[distance](data[i], data[j])

    # A `.csv` file is read back with `,` as delimiter and a `.txt` file with a blank space
    delimiter = "," if output.split(".")[-1] == "csv" else " "

    np.savetxt(output, distances, delimiter=delimiter)


# --------------------------------------------------------------------------------------
METRICS = [
    "log_squared_euclidean",
    "kullback_leibler",
    "manhattan",
    "pearson",
    "chebyshev",
    "squared_euclidean",
    "bhattacharyya",
    "canberra",
]

SIZES = [3, 5, 8, 12, 17, 23, 30, 41, 64, 100, 127, 128, 129, 150, 200, 257]


def make_data(seed, n):
    rng = np.random.RandomState(7000 + seed)
    if seed % 2 == 0:
        # Tie-heavy: few distinct points on a small integer grid (repeated samples, equal arcs)
        X = rng.randint(1, 4, size=(n, 2)).astype(float)
    else:
        X = np.round(rng.rand(n, 3) * 4 + 0.5, 2)
    return X


def read(path):
    with open(path, "rb") as handle:
        return handle.read()


def part1():
    accepts_chunk = "chunk_size" in inspect.signature(g.pre_compute_distance).parameters

    for seed in range(40):
        n = SIZES[seed % len(SIZES)] if seed < 38 else (300 if seed == 38 else 1)
        metric = METRICS[seed % len(METRICS)]
        ext = "txt" if seed % 3 else "csv"
        X = make_data(seed, n)

        ref = os.path.join(TMP, "ref_%d.%s" % (seed, ext))
        new = os.path.join(TMP, "new_%d.%s" % (seed, ext))

        orig_pre_compute_distance(X, ref, metric)
        if seed % 4 == 0:
            g.pre_compute_distance(X, new, metric)
        elif seed % 4 == 1:
            g.pre_compute_distance(X, new, distance=metric)
        elif seed % 4 == 2:
            g.pre_compute_distance(data=X, output=new, distance=metric)
        else:
            # Default metric
            orig_pre_compute_distance(X, ref)
            g.pre_compute_distance(X, new)

        if read(ref) != read(new):
            a = np.atleast_2d(np.loadtxt(ref, delimiter="," if ext == "csv" else " "))
            b = np.atleast_2d(np.loadtxt(new, delimiter="," if ext == "csv" else " "))
            if a.shape != b.shape:
                fail("seed %d (%s, n=%d, .%s): file shape %s != %s" % (seed, metric, n, ext, b.shape, a.shape))
            else:
                rows = np.unique(np.nonzero(a != b)[0])
                fail(
                    "seed %d (%s, n=%d, .%s): distance file differs in %d rows (first: %d)"
                    % (seed, metric, n, ext, len(rows), rows[0] if len(rows) else -1)
                )

        # The optional block size (new keyword) must not change the file either
        if accepts_chunk and n <= 64:
            for chunk in (1, 7, n, n + 3):
                other = os.path.join(TMP, "chunk_%d_%d.%s" % (seed, chunk, ext))
                if seed % 4 == 3:
                    g.pre_compute_distance(X, other, chunk_size=chunk)
                else:
                    g.pre_compute_distance(X, other, metric, chunk_size=chunk)
                if read(other) != read(ref):
                    fail("seed %d: chunk_size=%d changes the distance file" % (seed, chunk))


# --------------------------------------------------------------------------------------
def snapshot(opf, unsupervised=False):
    sg = opf.subgraph
    rows = []
    for node in sg.nodes:
        row = [
            node.idx,
            node.label,
            node.predicted_label,
            repr(float(node.cost)),
            node.pred,
            node.status,
        ]
        if unsupervised:
            row += [
                node.cluster_label,
                node.root,
                repr(float(node.density)),
                repr(float(node.radius)),
                [int(a) for a in node.adjacency],
            ]
        rows.append(row)
    extra = [list(sg.idx_nodes)]
    if unsupervised:
        extra += [sg.n_clusters, sg.best_k, repr(float(sg.density)), repr(float(sg.min_density)), repr(float(sg.max_density))]
    return rows, extra


def compare(tag, a, b):
    rows_a, extra_a = a
    rows_b, extra_b = b
    if extra_a != extra_b:
        fail("%s: conquest order / subgraph summary differs" % tag)
    bad = [i for i, (x, y) in enumerate(zip(rows_a, rows_b)) if x != y]
    if bad or len(rows_a) != len(rows_b):
        i = bad[0] if bad else -1
        fail(
            "%s: %d training nodes differ, e.g. node %d: file %s  vs  on the fly %s"
            % (tag, len(bad), i, rows_a[i], rows_b[i])
        )


def part2():
    n = 170
    for case, (metric, ext, tie) in enumerate(
        [
            ("log_squared_euclidean", "txt", False),
            ("kullback_leibler", "csv", False),
            ("manhattan", "txt", True),
            ("pearson", "csv", True),
        ]
    ):
        rng = np.random.RandomState(900 + case)
        if tie:
            X = rng.randint(1, 6, size=(n, 2)).astype(float)
        else:
            X = np.round(rng.rand(n, 3) * 4 + 0.5, 2)
        Y = rng.randint(0, 3, size=n)
        Y[:3] = [0, 1, 2]

        perm = rng.permutation(n)
        # Make sure the three label values are among the training rows
        perm = np.concatenate(([0, 1, 2], perm[perm > 2]))
        i_train, i_unl, i_test = perm[:60], perm[60:100], perm[100:]

        path = os.path.join(TMP, "full_%d.%s" % (case, ext))
        g.pre_compute_distance(X, path, metric)

        tag = "%s/.%s/%s" % (metric, ext, "ties" if tie else "real")

        # Supervised
        a = SupervisedOPF(distance=metric, pre_computed_distance=path)
        b = SupervisedOPF(distance=metric)
        a.fit(X[i_train], Y[i_train], i_train)
        b.fit(X[i_train], Y[i_train], i_train)
        compare("supervised fit " + tag, snapshot(a), snapshot(b))
        pa = a.predict(X[i_test], i_test)
        pb = b.predict(X[i_test])
        if list(pa) != list(pb):
            fail("supervised predictions %s: %d of %d differ" % (tag, sum(x != y for x, y in zip(pa, pb)), len(pa)))
        if [nd.relevant for nd in a.subgraph.nodes] != [nd.relevant for nd in b.subgraph.nodes]:
            fail("supervised relevant marks %s differ" % tag)

        # Semi-supervised
        a = SemiSupervisedOPF(distance=metric, pre_computed_distance=path)
        b = SemiSupervisedOPF(distance=metric)
        a.fit(X[i_train], Y[i_train], X[i_unl], i_train, i_unl)
        b.fit(X[i_train], Y[i_train], X[i_unl], i_train, i_unl)
        compare("semi-supervised fit " + tag, snapshot(a), snapshot(b))
        pa = a.predict(X[i_test], i_test)
        pb = b.predict(X[i_test])
        if list(pa) != list(pb):
            fail("semi-supervised predictions %s: %d of %d differ" % (tag, sum(x != y for x, y in zip(pa, pb)), len(pa)))

        # Unsupervised
        a = UnsupervisedOPF(min_k=1, max_k=4, distance=metric, pre_computed_distance=path)
        b = UnsupervisedOPF(min_k=1, max_k=4, distance=metric)
        a.fit(X[i_train], Y[i_train], i_train)
        b.fit(X[i_train], Y[i_train], i_train)
        compare("unsupervised fit " + tag, snapshot(a, True), snapshot(b, True))
        a.propagate_labels()
        b.propagate_labels()
        pa, ca = a.predict(X[i_test], i_test)
        pb, cb = b.predict(X[i_test])
        if list(pa) != list(pb) or list(ca) != list(cb):
            fail("unsupervised predictions / clusters %s differ" % tag)

        # The matrix a fitted model reports for its own samples is the file's sub-matrix
        full = np.loadtxt(path, delimiter="," if ext == "csv" else " ")
        own = b.get_distances()
        if own.tobytes() != np.ascontiguousarray(full[np.ix_(i_train, i_train)]).tobytes():
            bad = np.unique(np.nonzero(own != full[np.ix_(i_train, i_train)])[0])
            fail(
                "%s: file[I][:, I] != get_distances() in %d rows (dataset rows %s ...)"
                % (tag, len(bad), sorted(i_train[bad])[:5])
            )


def main():
    try:
        part1()
        part2()
    finally:
        shutil.rmtree(TMP, ignore_errors=True)

    if FAILURES:
        print("%d mismatches - behaviour differs from the original library" % len(FAILURES))
        return 1

    print("OK - distance files, forests and predictions identical to the original")
    return 0


if __name__ == "__main__":
    sys.exit(main())
