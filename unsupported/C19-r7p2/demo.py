"""C19 / p2 demo: a saved and re-loaded model (all four kinds) behaves like the original.

Exit status 0  -> library behaves exactly like the original code (reference copies inlined below)
Exit status 1  -> some observable result differs (predictions, forest state, side effects of save)

Run as: cd /tmp/wt/C19 && PYTHONPATH=/tmp/wt/C19 /venv/bin/python demo.py
"""

import logging
import os
import pickle
import sys
import tempfile
import time
import warnings

import numpy as np

logging.disable(logging.CRITICAL)
np.seterr(all="ignore")
warnings.filterwarnings("ignore")

from opfython.models.knn_supervised import KNNSupervisedOPF  # noqa: E402
from opfython.models.semi_supervised import SemiSupervisedOPF  # noqa: E402
from opfython.models.supervised import SupervisedOPF  # noqa: E402
from opfython.models.unsupervised import UnsupervisedOPF  # noqa: E402

TMP = tempfile.mkdtemp(prefix="c19p2_")
FAILURES = []


# --------------------------------------------------------------------------------------
# Verbatim copies of the ORIGINAL OPF.load / OPF.save bodies (reference, logging removed)
# --------------------------------------------------------------------------------------
def ref_load(self, file_name):
    with open(file_name, "rb") as origin_file:
        opf = pickle.load(origin_file)

        self.__dict__.update(opf.__dict__)


def ref_save(self, file_name):
    with open(file_name, "wb") as dest_file:
        pickle.dump(self, dest_file)


# A user-supplied metric assigned through the public `distance_fn` setter
def weighted_l1(x, y):
    w = 1.0 + np.arange(x.shape[0])
    return float(np.sum(w * np.abs(x - y)))


# --------------------------------------------------------------------------------------
# Helpers
# --------------------------------------------------------------------------------------
def model_state(opf):
    """Everything observable in a model: configuration and forest."""

    sg = opf.subgraph
    nodes = []
    for n in sg.nodes:
        nodes.append(
            (
                n.idx,
                n.label,
                n.predicted_label,
                n.cluster_label,
                n.features.dtype.str,
                n.features.tobytes(),
                repr(float(n.cost)),
                repr(float(n.density)),
                repr(float(n.radius)),
                n.n_plateaus,
                [int(a) for a in n.adjacency],
                n.root,
                n.status,
                n.pred,
                n.relevant,
            )
        )
    extra = tuple(
        repr(getattr(sg, name, None))
        for name in ("n_clusters", "best_k", "constant", "density", "min_density", "max_density")
    )
    probe_a, probe_b = np.array([0.3, 1.7, 2.2]), np.array([1.1, 0.4, 3.0])
    return (
        type(opf).__name__,
        sorted(vars(opf)),
        opf.distance,
        repr(float(opf.distance_fn(probe_a, probe_b))),
        opf.pre_computed_distance,
        None if opf.pre_distances is None else opf.pre_distances.tobytes(),
        getattr(opf, "min_k", None),
        getattr(opf, "max_k", None),
        type(sg).__name__,
        sg.n_nodes,
        sg.n_features,
        list(sg.idx_nodes),
        sg.trained,
        extra,
        nodes,
    )


def check(cond, msg):
    if not cond:
        FAILURES.append(msg)
        if len(FAILURES) <= 25:
            print("MISMATCH:", msg[:230])


def make_data(seed, kind, d=3):
    rng = np.random.RandomState(seed)
    n, m = 24 + seed % 7, 12

    if kind == "cont":
        X = rng.rand(2 * n + 2 * m, d) + 0.05
    elif kind == "grid":
        # tie-heavy: few distinct integer positions, lots of equal arc weights
        X = rng.randint(0, 4, size=(2 * n + 2 * m, d)).astype(float) + 1.0
    else:
        # tie-heavy with exact duplicates carrying conflicting labels
        base = rng.randint(0, 3, size=(9, d)).astype(float) + 1.0
        X = base[rng.randint(0, 9, size=2 * n + 2 * m)]

    Y = rng.randint(1, 4, size=2 * n)
    Y[:3] = [1, 2, 3]
    Y[n : n + 3] = [1, 2, 3]

    # train, second block (validation / unlabeled), two query batches
    return X[:n], Y[:n], X[n : 2 * n], Y[n:], X[2 * n : 2 * n + m], X[2 * n + m :]


def write_distances(seed, n_rows):
    rng = np.random.RandomState(1000 + seed)
    D = rng.randint(0, 6, size=(n_rows, n_rows)).astype(float)
    np.fill_diagonal(D, 0.0)
    path = os.path.join(TMP, "dist_%d.txt" % seed)
    np.savetxt(path, D, delimiter=" ")
    return path


def run_case(tag, cls, ctor, fit_args, fit_kwargs, batches, custom_fn=None, post_fit=None, early_predict=False):
    """fit, (predict), save, load into freshly constructed models of the same kind, predict everywhere."""

    model = cls(**ctor)
    if custom_fn is not None:
        model.distance_fn = custom_fn
    model.fit(*[a.copy() if isinstance(a, np.ndarray) else a for a in fit_args], **fit_kwargs)
    if post_fit:
        post_fit(model)
    if early_predict:
        model.predict(*batches[0])

    # Saving must not alter the original, and must write what the original code wrote
    before = model_state(model)
    path = os.path.join(TMP, "model.pkl")
    model.save(path)
    check(model_state(model) == before, "%s: save() altered the original model" % tag)

    ref_path = os.path.join(TMP, "ref_model.pkl")
    ref_save(model, ref_path)

    # Receivers: a model built with the default arguments, and one built like the saved one
    receivers = {"default": cls(), "same-args": cls(**ctor)}

    ref_loaded = cls()
    ref_load(ref_loaded, ref_path)
    check(model_state(ref_loaded) == before, "%s: reference round trip is not faithful (demo bug)" % tag)

    for how, loaded in receivers.items():
        loaded.load(path)

        check(model_state(loaded) == before, "%s [%s]: loaded model state differs from the saved model" % (tag, how))

    ref2 = cls()
    ref_load(ref2, path)
    check(model_state(ref2) == before, "%s: file written by save() differs from original code" % tag)

    for b, (Xq, Iq) in enumerate(batches):
        p_model = model.predict(Xq, Iq)
        p_ref = ref_loaded.predict(Xq, Iq)

        check(p_model == p_ref, "%s/b%d: reference loaded model differs from original (demo bug)" % (tag, b))
        check(model_state(ref_loaded) == model_state(model), "%s/b%d: reference state diverged (demo bug)" % (tag, b))

        for how, loaded in receivers.items():
            p_loaded = loaded.predict(Xq, Iq)

            check(
                p_loaded == p_model,
                "%s/b%d [%s]: LOADED model predicts differently from the model it was saved from: %s vs %s"
                % (tag, b, how, p_loaded, p_model),
            )
            check(model_state(loaded) == model_state(model), "%s/b%d [%s]: states diverged after predict" % (tag, b, how))


# --------------------------------------------------------------------------------------
# Seeded sweep
# --------------------------------------------------------------------------------------
def main():
    start = time.time()
    n_cases = 0

    metrics = [
        "log_squared_euclidean",
        "manhattan",
        "canberra",
        "euclidean",
        "chebyshev",
        "bray_curtis",
        "squared_euclidean",
        "lorentzian",
        "gower",
    ]
    kinds = ["cont", "grid", "dup"]

    for seed in range(48):
        kind = kinds[seed % 3]
        metric = metrics[(seed // 3) % len(metrics)]
        model_kind = seed % 4
        Xt, Yt, X2, Y2, Xa, Xb = make_data(seed, kind)
        batches = [(Xa, None), (Xb, None), (Xt, None)]
        custom = weighted_l1 if seed % 12 == 11 else None
        early = bool((seed // 4) % 2)

        if model_kind == 0:
            run_case("sup/%s/%s/seed%d" % (metric, kind, seed), SupervisedOPF, dict(distance=metric),
                     (Xt, Yt), {}, batches, custom_fn=custom, early_predict=early)
        elif model_kind == 1:
            run_case("semi/%s/%s/seed%d" % (metric, kind, seed), SemiSupervisedOPF, dict(distance=metric),
                     (Xt, Yt, X2[:8]), {}, batches, custom_fn=custom, early_predict=early)
        elif model_kind == 2:
            run_case("knn/%s/%s/seed%d" % (metric, kind, seed), KNNSupervisedOPF, dict(max_k=3, distance=metric),
                     (Xt, Yt, X2, Y2), {}, batches, custom_fn=custom, early_predict=early)
        else:
            run_case("unsup/%s/%s/seed%d" % (metric, kind, seed), UnsupervisedOPF,
                     dict(min_k=2, max_k=4, distance=metric), (Xt, Yt), {}, batches, custom_fn=custom,
                     post_fit=lambda m: m.propagate_labels(), early_predict=early)
        n_cases += 1

    # Pre-computed distances with non-identity indexes (supervised, semi-supervised, unsupervised)
    for seed in range(48, 60):
        kind = kinds[seed % 3]
        Xt, Yt, X2, Y2, Xa, Xb = make_data(seed, kind)
        Xu = X2[:8]
        total = len(Xt) + len(Xu) + len(Xa) + len(Xb)
        perm = np.random.RandomState(seed).permutation(total)
        o1, o2, o3 = len(Xt), len(Xt) + len(Xu), len(Xt) + len(Xu) + len(Xa)
        I_t, I_u, I_a, I_b = perm[:o1], perm[o1:o2], perm[o2:o3], perm[o3:]
        dist_file = write_distances(seed, total)
        batches = [(Xa, I_a), (Xb, I_b)]

        if seed % 3 == 0:
            run_case("sup/pre/seed%d" % seed, SupervisedOPF, dict(pre_computed_distance=dist_file),
                     (Xt, Yt), dict(I_train=I_t), batches)
        elif seed % 3 == 1:
            run_case("semi/pre/seed%d" % seed, SemiSupervisedOPF, dict(pre_computed_distance=dist_file),
                     (Xt, Yt, Xu), dict(I_train=I_t, I_unlabeled=I_u), batches)
        else:
            run_case("unsup/pre/seed%d" % seed, UnsupervisedOPF,
                     dict(min_k=1, max_k=3, pre_computed_distance=dist_file),
                     (Xt, Yt), dict(I_train=I_t), batches, post_fit=lambda m: m.propagate_labels())
        n_cases += 1

    # ----------------------------------------------------------------------------------
    # The specific history: a model fitted with a NON-default metric is saved and then
    # loaded the usual way, into `SupervisedOPF()` built with the default arguments.
    # Two anisotropic clusters: manhattan and log_squared_euclidean rank neighbours differently.
    # ----------------------------------------------------------------------------------
    Xt = np.array(
        [[0.0, 0.0], [4.0, 0.0], [8.0, 0.0], [0.0, 1.0], [4.0, 1.0], [3.0, 3.0], [3.2, 3.2], [6.0, 6.0], [7.0, 5.0]]
    )
    Yt = np.array([1, 1, 1, 1, 1, 2, 2, 2, 2])
    Q = np.array([[a, b] for a in (1.0, 2.0, 2.5, 3.0, 5.0, 6.0) for b in (0.5, 1.5, 2.0, 2.5, 4.0)])
    for metric in ["manhattan", "chebyshev", "canberra"]:
        run_case("specific/%s" % metric, SupervisedOPF, dict(distance=metric), (Xt, Yt), {}, [(Q, None)])
        n_cases += 1

    print("cases: %d | mismatches: %d | %.1f s" % (n_cases, len(FAILURES), time.time() - start))

    for name in os.listdir(TMP):
        os.remove(os.path.join(TMP, name))
    os.rmdir(TMP)

    if FAILURES:
        print("FAIL: a saved and re-loaded model does not behave like the original")
        return 1

    print("OK")
    return 0


if __name__ == "__main__":
    sys.exit(main())
