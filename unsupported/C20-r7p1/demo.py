"""Demo for pair C20/p1 (performance-minded rewrite of the OPF accuracy measures).

Exits 0 when `opfython.math.general` behaves exactly like the original code,
non-zero otherwise.
"""

import os
import sys
import tempfile
import warnings

import numpy as np

import opfython.math.distance as d
from opfython.math import general

warnings.simplefilter("ignore")


# --------------------------------------------------------------------------- #
# Verbatim copies of the original functions (reference behaviour)
# --------------------------------------------------------------------------- #
def ref_opf_accuracy(labels, preds):
    labels = np.asarray(labels)
    preds = np.asarray(preds)

    n_class = np.max(labels) + 1

    errors = np.zeros((n_class, 2))
    counts = np.bincount(labels)

    for label, pred in zip(labels, preds):
        if label != pred:
            errors[pred][0] += 1
            errors[label][1] += 1

    errors[:, 1] /= counts
    errors[:, 0] /= np.nansum(counts) - counts
    errors = np.nansum(errors, axis=1)

    accuracy = 1 - (np.sum(errors) / (2 * n_class))

    return accuracy


def ref_opf_accuracy_per_label(labels, preds):
    labels = np.asarray(labels)
    preds = np.asarray(preds)

    n_class = np.max(labels) + 1

    errors = np.zeros(n_class)
    _, counts = np.unique(labels, return_counts=True)

    for label, pred in zip(labels, preds):
        if label != pred:
            errors[label] += 1

    errors /= counts
    accuracy = 1 - errors

    return accuracy


def ref_pre_compute_distance(data, output, distance="log_squared_euclidean"):
    size = data.shape[0]

    distances = np.zeros((size, size))
    for i in range(size):
        for j in range(size):
            distances[i][j] = d.DISTANCES[distance](data[i], data[j])

    delimiter = "," if output.split(".")[-1] == "csv" else " "

    np.savetxt(output, distances, delimiter=delimiter)


# --------------------------------------------------------------------------- #
# Helpers
# --------------------------------------------------------------------------- #
FAILURES = []


def outcome(fn, *args):
    """Result of a call, or the type of the exception it raised."""
    try:
        return ("ok", fn(*args))
    except Exception as e:  # pylint: disable=broad-except
        return ("raise", type(e).__name__)


def same(a, b):
    if a[0] != b[0]:
        return False
    if a[0] == "raise":
        return a[1] == b[1]
    x, y = np.asarray(a[1]), np.asarray(b[1])
    return (
        x.shape == y.shape
        and x.dtype == y.dtype
        and x.tobytes() == y.tobytes()
    )


def check(name, labels, preds):
    # Inputs are copied for every call, so nobody sees another call's side effects
    for ref, new in (
        (ref_opf_accuracy, general.opf_accuracy),
        (ref_opf_accuracy_per_label, general.opf_accuracy_per_label),
    ):
        expected = outcome(ref, _copy(labels), _copy(preds))
        got = outcome(new, _copy(labels), _copy(preds))
        if not same(expected, got):
            FAILURES.append(
                f"{name}: {new.__name__} -> {got[1]!r}, original -> {expected[1]!r}"
            )


def _copy(x):
    return x.copy() if isinstance(x, np.ndarray) else list(x)


def make_labels(rng, n_class, n, balanced):
    """Label vector with every class 0..K-1 present."""
    if balanced:
        labels = np.repeat(np.arange(n_class), max(1, n // n_class))
    else:
        probs = rng.dirichlet(np.ones(n_class) * 0.6)
        labels = np.concatenate(
            [np.arange(n_class), rng.choice(n_class, size=n, p=probs)]
        )
    rng.shuffle(labels)
    return labels.astype(np.int64)


# --------------------------------------------------------------------------- #
# (1) Seeded sweep against the original behaviour
# --------------------------------------------------------------------------- #
rng = np.random.default_rng(20)
case = 0
for n_class in (1, 2, 3, 4, 7, 12):
    for balanced in (True, False):
        for noise in (0.0, 0.15, 0.5, 1.0):
            case += 1
            labels = make_labels(rng, n_class, int(rng.integers(6, 60)), balanced)
            flip = rng.random(labels.shape[0]) < noise
            preds = np.where(
                flip, rng.integers(0, n_class, size=labels.shape[0]), labels
            ).astype(np.int64)
            check(f"sweep#{case} K={n_class} bal={balanced} noise={noise}", labels, preds)
            # Same thing as plain Python lists
            check(f"sweep#{case}-list", labels.tolist(), preds.tolist())

# Tie-heavy / degenerate histories: everything predicted as a single class,
# cyclically shifted predictions (every class equally wrong), all correct
for n_class in (2, 3, 5, 8):
    labels = np.repeat(np.arange(n_class), 4)
    check(f"ties-const K={n_class}", labels, np.zeros_like(labels))
    check(f"ties-shift K={n_class}", labels, (labels + 1) % n_class)
    check(f"ties-right K={n_class}", labels, labels.copy())
    skew = np.concatenate([labels, np.zeros(3 * n_class, dtype=labels.dtype)])
    check(f"skew-const K={n_class}", skew, np.full_like(skew, n_class - 1))
    check(f"skew-shift K={n_class}", skew, (skew + 1) % n_class)

# Inputs outside of the property's domain still have to behave as before
check("missing-class", [0, 0, 2, 2, 2], [0, 2, 2, 0, 2])
check("pred-out-of-range", [0, 1, 1, 0], [0, 2, 1, 0])
check("negative-pred", [0, 1, 1, 0], [0, -1, 1, 0])
check("empty", [], [])
check("shorter-preds", [0, 1, 1, 0, 1], [0, 0, 1])
check("two-dimensional", [[0, 1], [1, 0]], [[0, 1], [1, 1]])
check("small-int-dtype", np.array([0, 1, 2, 2, 1], dtype=np.int8),
      np.array([0, 2, 2, 1, 1], dtype=np.int8))
check("unsigned-dtype", np.array([0, 1, 2, 2, 1], dtype=np.uint8),
      np.array([0, 2, 2, 1, 1], dtype=np.uint8))

# Repeated calls on the very same arrays: neither inputs nor results may drift
labels = make_labels(rng, 4, 40, False)
preds = rng.integers(0, 4, size=labels.shape[0])
l0, p0 = labels.copy(), preds.copy()
first = general.opf_accuracy(labels, preds)
first_pl = general.opf_accuracy_per_label(labels, preds)
for _ in range(3):
    again = general.opf_accuracy(labels, preds)
    again_pl = general.opf_accuracy_per_label(labels, preds)
    if again != first or not np.array_equal(again_pl, first_pl):
        FAILURES.append("repeated calls give different results")
if not (np.array_equal(labels, l0) and np.array_equal(preds, p0)):
    FAILURES.append("inputs were modified")

# Pre-computed distances (several metrics, an asymmetric one included)
data = rng.random((9, 4)) + 0.05
with tempfile.TemporaryDirectory() as tmp:
    for metric in ("log_squared_euclidean", "euclidean", "kullback_leibler", "canberra"):
        for ext in ("txt", "csv"):
            f_ref = os.path.join(tmp, f"ref_{metric}.{ext}")
            f_new = os.path.join(tmp, f"new_{metric}.{ext}")
            ref_pre_compute_distance(data, f_ref, metric)
            general.pre_compute_distance(data, f_new, metric)
            with open(f_ref, "rb") as a, open(f_new, "rb") as b:
                if a.read() != b.read():
                    FAILURES.append(f"pre_compute_distance differs for {metric}/{ext}")
    r = outcome(ref_pre_compute_distance, data, os.path.join(tmp, "x.txt"), "nope")
    g = outcome(general.pre_compute_distance, data, os.path.join(tmp, "y.txt"), "nope")
    if not same(r, g):
        FAILURES.append("pre_compute_distance: unknown metric handled differently")
    r = outcome(ref_pre_compute_distance, data[:0], os.path.join(tmp, "x.txt"), "nope")
    g = outcome(general.pre_compute_distance, data[:0], os.path.join(tmp, "y.txt"), "nope")
    if not same(r, g):
        FAILURES.append("pre_compute_distance: empty data handled differently")

# --------------------------------------------------------------------------- #
# (2) The specific input: unbalanced classes, checked against the definition
#     acc = 1 - (1/2K) * sum_c ( FP_c / (N - N_c) + FN_c / N_c )
# --------------------------------------------------------------------------- #
labels = [0, 0, 0, 0, 0, 0, 1, 1]  # N_0 = 6, N_1 = 2
preds = [0, 0, 0, 0, 0, 0, 0, 0]   # both samples of class 1 are missed
# FP_0 = 2 of the 2 samples of other classes, FN_1 = 2 of the 2 samples of class 1
expected = 1 - (2 / 2 + 2 / 2) / (2 * 2)
got = general.opf_accuracy(labels, preds)
if got != expected:
    FAILURES.append(f"definition: unbalanced example gives {got!r}, expected {expected!r}")

# A three-class, exhaustive definition check on a skewed sample
labels = np.array([0] * 7 + [1] * 2 + [2] * 3)
preds = np.array([0, 0, 0, 1, 2, 0, 0, 0, 1, 2, 2, 1])
K, N = 3, labels.shape[0]
total = 0.0
for c in range(K):
    fp = np.sum((preds == c) & (labels != c))
    fn = np.sum((preds != c) & (labels == c))
    n_c = np.sum(labels == c)
    total += fp / (N - n_c) + fn / n_c
expected = 1 - total / (2 * K)
got = general.opf_accuracy(labels, preds)
if not np.isclose(got, expected, rtol=0, atol=1e-12):
    FAILURES.append(f"definition: three-class example gives {got!r}, expected {expected!r}")
if not 0 <= got <= 1:
    FAILURES.append(f"bounds: accuracy {got!r} outside of [0, 1]")

if FAILURES:
    print(f"{len(FAILURES)} mismatch(es) w.r.t. the original behaviour:")
    for f in FAILURES[:25]:
        print("  -", f)
    sys.exit(1)

print("OK: identical to the original behaviour")
sys.exit(0)
