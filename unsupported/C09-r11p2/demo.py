"""C09 / p2 - object hygiene of Node / Subgraph (defaults in keyword arguments, reset helpers, __repr__).

Exit code 0: the library behaves exactly like the original code (verbatim reference copies below
and digests recorded on the original code) and a prediction is a function of the sample alone.
Exit code 1: some observable result differs.

Run: cd /tmp/wt/C09 && PYTHONPATH=/tmp/wt/C09 /venv/bin/python demo.py
"""

import copy
import hashlib
import logging
import os
import sys

import numpy as np

logging.disable(logging.CRITICAL)
np.seterr(all="ignore")

import opfython.utils.constants as c  # noqa: E402
from opfython.core import Node, Subgraph  # noqa: E402
from opfython.models.knn_supervised import KNNSupervisedOPF  # noqa: E402
from opfython.models.semi_supervised import SemiSupervisedOPF  # noqa: E402
from opfython.models.supervised import SupervisedOPF  # noqa: E402
from opfython.models.unsupervised import UnsupervisedOPF  # noqa: E402
from opfython.subgraphs import KNNSubgraph  # noqa: E402

FAILURES = []


def check(cond, msg):
    if not cond:
        FAILURES.append(msg)
        if len(FAILURES) <= 25 or msg.startswith("specific"):
            print("MISMATCH:", msg)


# --------------------------------------------------------------------------------------
# Verbatim copies of the ORIGINAL code (self -> explicit argument), used as reference
# --------------------------------------------------------------------------------------
def ref_build(self, X, Y, I):
    """Original Subgraph._build."""

    for i, (feature, label) in enumerate(zip(X, Y)):
        if I is not None:
            node = Node(I[i].item(), label.item(), feature)
        else:
            node = Node(i, label.item(), feature)

        self.nodes.append(node)

    self.n_features = self.nodes[0].features.shape[0]


def ref_new_subgraph(cls, X, Y=None, I=None):
    """Original Subgraph.__init__ for in-memory data: default labels, then `_build`."""

    sg = cls()

    if Y is None:
        Y = np.zeros(len(X), dtype=int)

    ref_build(sg, X, Y, I)

    return sg


def ref_destroy_arcs(self):
    for i in range(self.n_nodes):
        self.nodes[i].n_plateaus = 0
        self.nodes[i].adjacency = []


def ref_reset(self):
    for i in range(self.n_nodes):
        self.nodes[i].pred = c.NIL
        self.nodes[i].relevant = c.IRRELEVANT

    ref_destroy_arcs(self)


def ref_mark_nodes(self, i):
    while self.nodes[i].pred != c.NIL:
        self.nodes[i].relevant = c.RELEVANT
        i = self.nodes[i].pred

    self.nodes[i].relevant = c.RELEVANT


def ref_supervised_predict(self, X_val, I_val=None):
    """Original SupervisedOPF.predict (also used by SemiSupervisedOPF)."""

    pred_subgraph = ref_new_subgraph(Subgraph, X_val, None, I_val)

    for i in range(pred_subgraph.n_nodes):
        j = 0

        k = self.subgraph.idx_nodes[j]
        conqueror = k

        if self.pre_computed_distance:
            weight = self.pre_distances[self.subgraph.nodes[k].idx][
                pred_subgraph.nodes[i].idx
            ]
        else:
            weight = self.distance_fn(
                self.subgraph.nodes[k].features, pred_subgraph.nodes[i].features
            )

        min_cost = np.maximum(self.subgraph.nodes[k].cost, weight)

        current_label = self.subgraph.nodes[k].predicted_label

        while (
            j < (self.subgraph.n_nodes - 1)
            and min_cost > self.subgraph.nodes[self.subgraph.idx_nodes[j + 1]].cost
        ):
            l = self.subgraph.idx_nodes[j + 1]

            if self.pre_computed_distance:
                weight = self.pre_distances[self.subgraph.nodes[l].idx][
                    pred_subgraph.nodes[i].idx
                ]
            else:
                weight = self.distance_fn(
                    self.subgraph.nodes[l].features, pred_subgraph.nodes[i].features
                )

            temp_min_cost = np.maximum(self.subgraph.nodes[l].cost, weight)
            if temp_min_cost < min_cost:
                min_cost = temp_min_cost
                conqueror = l
                current_label = self.subgraph.nodes[l].predicted_label

            j += 1
            k = l

        pred_subgraph.nodes[i].predicted_label = current_label

        if conqueror > -1:
            ref_mark_nodes(self.subgraph, conqueror)

    preds = [pred.predicted_label for pred in pred_subgraph.nodes]

    return preds


def ref_knn_like_predict(self, X_val, I_val=None):
    """Original UnsupervisedOPF.predict (KNNSupervisedOPF.predict is the same loop, labels only)."""

    pred_subgraph = ref_new_subgraph(KNNSubgraph, X_val, None, I_val)

    best_k = self.subgraph.best_k

    distances = np.zeros(best_k + 1)
    neighbours_idx = np.zeros(best_k + 1)

    for i in range(pred_subgraph.n_nodes):
        cost = -c.FLOAT_MAX
        distances.fill(c.FLOAT_MAX)

        for j in range(self.subgraph.n_nodes):
            if self.pre_computed_distance:
                distances[best_k] = self.pre_distances[pred_subgraph.nodes[i].idx][
                    self.subgraph.nodes[j].idx
                ]
            else:
                distances[best_k] = self.distance_fn(
                    pred_subgraph.nodes[i].features,
                    self.subgraph.nodes[j].features,
                )

            neighbours_idx[best_k] = j

            cur_k = best_k
            while cur_k > 0 and distances[cur_k] < distances[cur_k - 1]:
                distances[cur_k], distances[cur_k - 1] = (
                    distances[cur_k - 1],
                    distances[cur_k],
                )

                neighbours_idx[cur_k], neighbours_idx[cur_k - 1] = (
                    neighbours_idx[cur_k - 1],
                    neighbours_idx[cur_k],
                )

                cur_k -= 1

        density = 0.0
        for k in range(best_k):
            density += np.exp(-distances[k] / self.subgraph.constant)

        density /= best_k

        density = (
            (c.MAX_DENSITY - 1)
            * (density - self.subgraph.min_density)
            / (self.subgraph.max_density - self.subgraph.min_density + c.EPSILON)
        ) + 1

        for k in range(best_k):
            if distances[k] != c.FLOAT_MAX:
                neighbour = int(neighbours_idx[k])

                temp_cost = np.minimum(self.subgraph.nodes[neighbour].cost, density)
                if temp_cost > cost:
                    cost = temp_cost

                    pred_subgraph.nodes[i].predicted_label = self.subgraph.nodes[
                        neighbour
                    ].predicted_label

                    pred_subgraph.nodes[i].cluster_label = self.subgraph.nodes[
                        neighbour
                    ].cluster_label

    preds = [pred.predicted_label for pred in pred_subgraph.nodes]
    clusters = [pred.cluster_label for pred in pred_subgraph.nodes]

    return preds, clusters


# --------------------------------------------------------------------------------------
# Seeded inputs
# --------------------------------------------------------------------------------------
METRICS = ["euclidean", "log_squared_euclidean", "manhattan", "neyman", "squared_euclidean", "chebyshev"]


def make_case(seed):
    rng = np.random.RandomState(2000 + seed)
    kind = seed % 6
    n_train = int(rng.randint(12, 28))
    n_test = int(rng.randint(8, 18))
    n_feat = int(rng.randint(2, 5))
    n_class = int(rng.randint(2, 4))
    n = n_train + n_test

    if kind in (0, 3):
        centers = rng.uniform(1.0, 9.0, size=(n_class, n_feat))
        Y = rng.randint(0, n_class, size=n)
        X = np.abs(centers[Y] + rng.normal(0, 1.0, size=(n, n_feat))) + 0.5
    elif kind in (1, 4):
        # Tie-heavy: small integer grid with many duplicated rows
        X = rng.randint(1, 4, size=(n, n_feat)).astype(float)
        Y = (X.sum(axis=1).astype(int)) % n_class
    else:
        X = rng.randint(1, 6, size=(n, n_feat)).astype(float)
        X[n_train:] = X[rng.randint(0, n_train, size=n_test)]
        Y = rng.randint(0, n_class, size=n)

    Y = Y.astype(int) + 1
    # Make sure every class is present in the training part
    Y[:n_class] = np.arange(1, n_class + 1)

    case = dict(
        seed=seed,
        X_train=np.ascontiguousarray(X[:n_train]),
        Y_train=Y[:n_train].copy(),
        X_test=np.ascontiguousarray(X[n_train:]),
        Y_test=Y[n_train:].copy(),
        metric=METRICS[(seed // 6) % 6],
        min_k=1 + seed % 2,
        max_k=1 + seed % 2 + seed % 3,
        pre=None,
        I_train=None,
        I_test=None,
        pre_knn=None,
        I_train_knn=None,
        I_test_knn=None,
    )

    if kind >= 3:
        # Pre-computed, asymmetric distances addressed through non-identity indexes
        if kind == 4:
            D = rng.randint(0, 4, size=(n, n)).astype(float)  # tie-heavy
        else:
            D = rng.uniform(0.0, 5.0, size=(n, n))
        np.fill_diagonal(D, 0.0)
        perm = rng.permutation(n)
        case["pre"] = D
        case["I_train"] = perm[:n_train].copy()
        case["I_test"] = perm[n_train:].copy()

        # The KNN model only accepts a matrix restricted to the training rows
        case["pre_knn"] = np.ascontiguousarray(D[:n_train, :n_train])
        case["I_train_knn"] = rng.permutation(n_train)
        case["I_test_knn"] = rng.randint(0, n_train, size=n_test)
    elif kind == 2:
        # Explicit indexes with live distances (they must not matter at all)
        perm = rng.permutation(n)
        case["I_train"] = perm[:n_train].copy()
        case["I_test"] = perm[n_train:].copy()

    return case


def configure(opf, case, knn=False):
    D = case["pre_knn"] if knn else case["pre"]
    if D is not None:
        opf.pre_computed_distance = True
        opf.pre_distances = D
    return opf


def hx(v):
    return float(v).hex()


def node_state(n):
    return (
        n.idx,
        n.label,
        n.predicted_label,
        n.cluster_label,
        [hx(f) for f in np.ravel(n.features)],
        hx(n.cost),
        hx(n.density),
        hx(n.radius),
        n.n_plateaus,
        [int(a) for a in n.adjacency],
        n.root,
        n.status,
        n.pred,
        n.relevant,
    )


def subgraph_state(sg):
    out = [sg.n_nodes, sg.n_features, sg.trained, list(sg.idx_nodes)]
    for name in ("best_k", "n_clusters"):
        out.append(getattr(sg, name, None))
    for name in ("constant", "density", "min_density", "max_density"):
        out.append(hx(getattr(sg, name)) if hasattr(sg, name) else None)
    out.append([node_state(n) for n in sg.nodes])
    return out


def digest(obj):
    return hashlib.sha256(repr(obj).encode()).hexdigest()[:16]


def sub(a, idx):
    return None if a is None else a[idx]


def as_pairs(res):
    """Normalises predictions: list of labels or (labels, clusters) -> list of tuples."""

    if isinstance(res, tuple):
        return list(zip(list(res[0]), list(res[1])))
    return [(p,) for p in res]


def exercise(tag, opf, ref_predict, X, I, seed, observed):
    """Predicts several batches, compares with the original predict and checks the property."""

    n = len(X)
    rng = np.random.RandomState(seed)
    perm = rng.permutation(n)
    dup = rng.randint(0, n, size=n + 3)

    def both(Xb, Ib, what):
        twin = copy.deepcopy(opf)
        got = as_pairs(opf.predict(Xb, Ib))
        want = as_pairs(ref_predict(twin, Xb, Ib))
        check(got == want, "%s: predict(%s) differs from the original predict" % (tag, what))
        check(
            subgraph_state(opf.subgraph) == subgraph_state(twin.subgraph),
            "%s: model state after predict(%s) differs from the original" % (tag, what),
        )
        return got

    full = both(X, I, "batch")
    permuted = both(X[perm], sub(I, perm), "permuted batch")
    duplicated = both(X[dup], sub(I, dup), "batch with duplicates")
    observed.append((full, permuted, duplicated))

    for pos, src in enumerate(perm):
        check(permuted[pos] == full[src], "%s: sample %d predicted differently at batch position %d" % (tag, src, pos))
    for pos, src in enumerate(dup):
        check(
            duplicated[pos] == full[src],
            "%s: sample %d predicted differently in a batch with duplicates (position %d)" % (tag, src, pos),
        )
    for i in range(n):
        alone = as_pairs(opf.predict(X[i : i + 1], sub(I, slice(i, i + 1))))
        check(
            alone[0] == full[i],
            "%s: sample %d alone -> %s, at position %d of the batch -> %s" % (tag, i, alone[0], i, full[i]),
        )
    check(as_pairs(opf.predict(X, I)) == full, "%s: repeated predict differs" % tag)
    observed.append(subgraph_state(opf.subgraph))


def run_case(case):
    tag = "case %d" % case["seed"]
    observed = []
    Xt, Yt, It = case["X_train"], case["Y_train"], case["I_train"]
    Xv, Yv, Iv = case["X_test"], case["Y_test"], case["I_test"]

    # (a) construction, destroy_arcs and reset against the verbatim originals
    for cls in (Subgraph, KNNSubgraph):
        for (X, Y, I) in ((Xt, Yt, It), (Xv, None, Iv), (Xt, Yt, None), (Xv[:1], None, sub(Iv, slice(0, 1)))):
            lib, ref = cls(X, Y, I), ref_new_subgraph(cls, X, Y, I)
            check(subgraph_state(lib) == subgraph_state(ref), "%s: %s(...) differs from the original" % (tag, cls.__name__))
            for sg in (lib, ref):
                for pos, node in enumerate(sg.nodes):
                    node.pred = (pos * 7) % sg.n_nodes if pos % 3 else c.NIL
                    node.relevant = pos % 2
                    node.n_plateaus = pos % 4
                    node.adjacency = [pos, (pos + 1) % sg.n_nodes]
            lib.destroy_arcs()
            ref_destroy_arcs(ref)
            check(subgraph_state(lib) == subgraph_state(ref), "%s: destroy_arcs differs from the original" % tag)
            lib.reset()
            ref_reset(ref)
            check(subgraph_state(lib) == subgraph_state(ref), "%s: reset differs from the original" % tag)
            observed.append(subgraph_state(lib))

    # (b) the four kinds of models
    sup = configure(SupervisedOPF(distance=case["metric"]), case)
    sup.fit(Xt, Yt, It)
    observed.append(subgraph_state(sup.subgraph))
    exercise(tag + " supervised", sup, ref_supervised_predict, Xv, Iv, case["seed"], observed)

    half = len(Xt) // 2
    half = max(half, int(Yt.max()))
    semi = configure(SemiSupervisedOPF(distance=case["metric"]), case)
    semi.fit(Xt[:half], Yt[:half], Xt[half:], sub(It, slice(0, half)), sub(It, slice(half, None)))
    observed.append(subgraph_state(semi.subgraph))
    exercise(tag + " semi-supervised", semi, ref_supervised_predict, Xv, Iv, case["seed"], observed)

    uns = configure(UnsupervisedOPF(min_k=case["min_k"], max_k=case["max_k"], distance=case["metric"]), case)
    uns.fit(Xt, Yt, It)
    uns.propagate_labels()
    observed.append(subgraph_state(uns.subgraph))
    exercise(tag + " unsupervised", uns, ref_knn_like_predict, Xv, Iv, case["seed"], observed)

    knn = configure(KNNSupervisedOPF(max_k=case["max_k"], distance=case["metric"]), case, knn=True)
    It_k = case["I_train_knn"] if case["pre_knn"] is not None else It
    Iv_k = case["I_test_knn"] if case["pre_knn"] is not None else Iv
    knn.fit(Xt, Yt, Xv, Yv, It_k, Iv_k)
    observed.append(subgraph_state(knn.subgraph))
    exercise(
        tag + " knn-supervised", knn, lambda m, X, I: ref_knn_like_predict(m, X, I)[0], Xv, Iv_k, case["seed"], observed
    )

    return observed


def specific_history():
    """Pre-computed distances addressed through explicit indexes, where the sample whose index
    is 0 does not sit in the first row of the batch."""

    rng = np.random.RandomState(42)
    n = 14
    D = rng.uniform(1.0, 9.0, size=(n, n))
    np.fill_diagonal(D, 0.0)
    # Rows 0..7 train (two classes, far apart), rows 8..13 are queries
    Y_all = np.array([1, 1, 1, 1, 2, 2, 2, 2, 0, 0, 0, 0, 0, 0])
    for q in range(8, n):
        side = 1 if q % 2 else 2
        for t in range(8):
            near = Y_all[t] == side
            D[q, t] = D[t, q] = (0.5 + 0.01 * t) if near else (7.0 + 0.01 * t)
    X_all = rng.uniform(0, 1, size=(n, 3))

    # The data set is stored in a shuffled order: `rows` maps stored position -> original row,
    # and the matrix is indexed by the stored position
    rows = np.array([9, 3, 12, 0, 6, 8, 1, 13, 5, 10, 2, 11, 4, 7])
    P = D[np.ix_(rows, rows)]
    where = {int(r): int(p) for p, r in enumerate(rows)}
    I_train = np.array([where[r] for r in range(8)])
    I_query = np.array([where[r] for r in (12, 8, 9, 10, 11, 13)])  # where[9] == 0 sits in row 2
    X_train, Y_train = X_all[:8], Y_all[:8]
    X_query = X_all[[12, 8, 9, 10, 11, 13]]
    out = []

    models = {
        "supervised": SupervisedOPF(),
        "semi-supervised": SemiSupervisedOPF(),
        "unsupervised": UnsupervisedOPF(min_k=1, max_k=2),
    }
    for name, opf in models.items():
        opf.pre_computed_distance = True
        opf.pre_distances = P
        if name == "semi-supervised":
            opf.fit(X_train[[0, 4, 1, 5]], Y_train[[0, 4, 1, 5]], X_train[[2, 3, 6, 7]], I_train[[0, 4, 1, 5]], I_train[[2, 3, 6, 7]])
        elif name == "unsupervised":
            opf.fit(X_train, Y_train, I_train)
            opf.propagate_labels()
        else:
            opf.fit(X_train, Y_train, I_train)

        full = as_pairs(opf.predict(X_query, I_query))
        out.append(full)
        for i in range(len(X_query)):
            alone = as_pairs(opf.predict(X_query[i : i + 1], I_query[i : i + 1]))[0]
            check(
                alone == full[i],
                "specific %s: sample with index %d alone -> %s, in row %d of the batch -> %s"
                % (name, I_query[i], alone, i, full[i]),
            )
        for shift in range(1, len(X_query)):
            order = np.roll(np.arange(len(X_query)), shift)
            moved = as_pairs(opf.predict(X_query[order], I_query[order]))
            for pos, src in enumerate(order):
                check(
                    moved[pos] == full[src],
                    "specific %s: sample with index %d: row %d -> %s, row %d -> %s"
                    % (name, I_query[src], src, full[src], pos, moved[pos]),
                )

    return out


# Digests of everything observed, recorded on the ORIGINAL code (DEMO_RECORD=1 prints them)
EXPECTED = {0: 'ec3fd09d007554a9', 1: '9f4c6935f2b58bcd', 2: '5db567986b5c28b3', 3: 'a1869bf1b5ada9a6', 4: '37b90f7b59b95481', 5: '9e452355d8c385e4', 6: '771fc7f8ca61dcaf', 7: '15ded3e280785bb3', 8: '995175cbe95a72d6', 9: '22085c321b31691a', 10: 'e64d14083e8754fb', 11: '7f62f1b03abc875d', 12: 'fb29207ff9e3a840', 13: 'd36e788158e76798', 14: 'ca646ce46c53b6dc', 15: '243053e23b58056b', 16: '0ee7155802d60e8b', 17: '4efbd78274752407', 18: 'b8795e1e15b0e66e', 19: 'dbb5bd2829ddb5bc', 20: '842a278e76016c62', 21: '9e1f3b0c932709f8', 22: '86ba9ff979a842eb', 23: 'd02cd80afa0da982', 24: '16eecda069abd1b7', 25: '6c6a5720a7eb0728', 26: '63130de6e09cc691', 27: 'fddac4e3ec4aac54', 28: '791cd46c97d6d97e', 29: '6c56da78a3944532', 30: '1579da15ff9ce32c', 31: '73bd0a0850db84aa', 32: '8c91194ac0f76c7b', 33: '7e943b09abd17e69', 34: '8f2983d9e154f82e', 35: '63c212d1ab7bc4be', 'specific': 'd5bddc0f48537c4b'}


def main():
    observed = {}
    for seed in range(36):
        observed[seed] = digest(run_case(make_case(seed)))
    observed["specific"] = digest(specific_history())

    if os.environ.get("DEMO_RECORD"):
        print("EXPECTED = " + repr(observed))
        return 0

    for key, value in observed.items():
        check(EXPECTED.get(key) == value, "case %s: observable results differ from the ones recorded on the original code" % key)

    if FAILURES:
        print("FAIL: %d mismatches" % len(FAILURES))
        return 1

    print("OK: %d seeded cases identical to the original; predictions depend on the sample only" % (len(observed) - 1))
    return 0


if __name__ == "__main__":
    sys.exit(main())
