"""C10 / p1 demo: UnsupervisedOPF.predict (k-nearest-neighbour search + conqueror selection).

Exit 0  <=> the library's UnsupervisedOPF.predict behaves exactly like the original code
            (inlined below as reference) AND predictions made through a distance file written
            by pre_compute_distance equal the predictions that compute the metric on the fly.
Exit !=0 otherwise.

Run as: cd /tmp/wt/C10 && PYTHONPATH=/tmp/wt/C10 /venv/bin/python demo.py
"""

import logging as _pylogging
import os
import shutil
import sys
import tempfile
import time
import warnings

import numpy as np

_pylogging.disable(_pylogging.CRITICAL)
warnings.filterwarnings("ignore", category=RuntimeWarning)

import opfython.math.general as g  # noqa: E402
import opfython.utils.constants as c  # noqa: E402
import opfython.utils.exception as e  # noqa: E402
from opfython.models.unsupervised import UnsupervisedOPF  # noqa: E402
from opfython.subgraphs import KNNSubgraph  # noqa: E402


# --------------------------------------------------------------------------------------
# Reference: verbatim copy of the ORIGINAL UnsupervisedOPF.predict
# --------------------------------------------------------------------------------------
class RefUnsupervisedOPF(UnsupervisedOPF):
    def predict(self, X_val, I_val=None):
        if not self.subgraph:
            raise e.BuildError("KNNSubgraph has not been properly created")

        if not self.subgraph.trained:
            raise e.BuildError("Classifier has not been properly clustered")

        pred_subgraph = KNNSubgraph(X_val, I=I_val)

        best_k = self.subgraph.best_k

        distances = np.zeros(best_k + 1)
        neighbours_idx = np.zeros(best_k + 1)

        for i in range(pred_subgraph.n_nodes):
            cost = -c.FLOAT_MAX
            distances.fill(c.FLOAT_MAX)

            for j in range(self.subgraph.n_nodes):
                if self.pre_computed_distance:
                    distances[best_k] = self.pre_distances[
                        pred_subgraph.nodes[i].idx
                    ][self.subgraph.nodes[j].idx]
                else:
                    distances[best_k] = self.distance_fn(
                        pred_subgraph.nodes[i].features,
                        self.subgraph.nodes[j].features,
                    )

                neighbours_idx[best_k] = j

                cur_k = best_k
                while cur_k > 0 and distances[cur_k] < distances[cur_k - 1]:
                    distances[cur_k], distances[cur_k - 1] = (
                        distances[cur_k - 1],
                        distances[cur_k],
                    )

                    neighbours_idx[cur_k], neighbours_idx[cur_k - 1] = (
                        neighbours_idx[cur_k - 1],
                        neighbours_idx[cur_k],
                    )

                    cur_k -= 1

            density = 0.0
            for k in range(best_k):
                density += np.exp(-distances[k] / self.subgraph.constant)

            density /= best_k

            density = (
                (c.MAX_DENSITY - 1)
                * (density - self.subgraph.min_density)
                / (self.subgraph.max_density - self.subgraph.min_density + c.EPSILON)
            ) + 1

            for k in range(best_k):
                if distances[k] != c.FLOAT_MAX:
                    neighbour = int(neighbours_idx[k])

                    temp_cost = np.minimum(self.subgraph.nodes[neighbour].cost, density)
                    if temp_cost > cost:
                        cost = temp_cost

                        pred_subgraph.nodes[i].predicted_label = self.subgraph.nodes[
                            neighbour
                        ].predicted_label

                        pred_subgraph.nodes[i].cluster_label = self.subgraph.nodes[
                            neighbour
                        ].cluster_label

        preds = [pred.predicted_label for pred in pred_subgraph.nodes]
        clusters = [pred.cluster_label for pred in pred_subgraph.nodes]

        return preds, clusters


# --------------------------------------------------------------------------------------
# Helpers
# --------------------------------------------------------------------------------------
def hx(x):
    return float(x).hex()


def subgraph_state(sg):
    return (
        tuple(
            (
                n.idx,
                hx(n.density),
                hx(n.cost),
                int(n.cluster_label),
                int(n.predicted_label),
                int(n.root),
                int(n.pred),
                tuple(int(a) for a in n.adjacency),
            )
            for n in sg.nodes
        ),
        tuple(int(i) for i in sg.idx_nodes),
        int(sg.best_k),
        int(sg.n_clusters),
        hx(sg.constant),
        hx(sg.min_density),
        hx(sg.max_density),
    )


FAILURES = []


def check(cond, what):
    if not cond:
        FAILURES.append(what)
        if len(FAILURES) <= 12 or what.startswith("BLOBS"):
            print("MISMATCH:", what)


METRICS = [
    "log_squared_euclidean",
    "kullback_leibler",
    "manhattan",
    "squared_euclidean",
    "pearson",
    "euclidean",
]


def make_case(seed):
    rng = np.random.default_rng(8100 + seed)

    n = int(rng.integers(20, 36))
    dim = int(rng.integers(2, 5))

    tie_heavy = seed % 5 in (0, 3)
    if tie_heavy:
        # small integer grid: duplicated samples (distance 0) and many equal distances
        X = rng.integers(1, 4, size=(n, dim)).astype(float)
    else:
        X = rng.random((n, dim)) + 0.1

    Y = rng.integers(0, 3, size=n)

    perm = rng.permutation(n)  # shuffled: index arrays are neither sorted nor the identity
    if seed % 9 == 4:
        # tiny training set: the k range covers every other training node
        n_train = 4
    else:
        n_train = (2 * n) // 3
    I_train, I_test = perm[:n_train], perm[n_train:]

    metric = METRICS[seed % len(METRICS)]
    ext = "txt" if (seed // 3) % 2 == 0 else "csv"
    max_k = min(1 + seed % 6, n_train - 1)
    min_k = 1 if seed % 4 else max_k

    return X, Y, I_train, I_test, metric, ext, min_k, max_k, tie_heavy


def run_model(cls, metric, path, min_k, max_k, X, Y, I_train, I_test):
    opf = cls(min_k=min_k, max_k=max_k, distance=metric, pre_computed_distance=path)

    opf.fit(X[I_train], Y[I_train], I_train)
    opf.propagate_labels()
    fitted = subgraph_state(opf.subgraph)

    preds, clusters = opf.predict(X[I_test], I_test)
    out = ([int(p) for p in preds], [int(q) for q in clusters])

    # predicting the training samples themselves (every sample has a zero-distance neighbour)
    preds, clusters = opf.predict(X[I_train], I_train)
    own = ([int(p) for p in preds], [int(q) for q in clusters])

    # repeated call, reversed batch order: each sample's result must not depend on its position
    preds, clusters = opf.predict(X[I_test[::-1]], I_test[::-1])
    rev = ([int(p) for p in preds][::-1], [int(q) for q in clusters][::-1])

    return fitted, out, own, rev, subgraph_state(opf.subgraph)


def run_handmade(cls, seed):
    """Prediction through a hand-made matrix holding inf / nan / FLOAT_MAX / negative entries."""

    rng = np.random.default_rng(8500 + seed)

    n = 18
    X = rng.random((n, 2)) + 0.1
    Y = rng.integers(0, 2, size=n)
    perm = rng.permutation(n)
    I_train, I_test = perm[:11], perm[11:]

    opf = cls(min_k=1, max_k=1 + seed % 4, distance="euclidean")
    opf.fit(X[I_train], Y[I_train], I_train)
    opf.propagate_labels()

    matrix = np.round(rng.random((n, n)) * 4) / 4  # quarter steps: many ties
    special = [np.inf, np.nan, c.FLOAT_MAX, -0.5, -np.inf]
    for _ in range(40):
        a, b = rng.integers(0, n, size=2)
        matrix[a, b] = special[int(rng.integers(0, len(special)))]
    if seed % 3 == 0:
        matrix[I_test[0], :] = np.inf  # a sample with no reachable training node at all
    if seed % 3 == 1:
        matrix[I_test[0], :] = np.nan

    opf.pre_computed_distance = True
    opf.pre_distances = matrix

    if seed % 4 == 2:
        # more neighbours requested than there are training nodes
        opf.subgraph.best_k = 14

    preds, clusters = opf.predict(X[I_test], I_test)

    return [int(p) for p in preds], [int(q) for q in clusters]


def main():
    start = time.time()
    tmp = tempfile.mkdtemp(prefix="c10p1_")

    try:
        # ---------------------------------------------------------------- (1) seeded sweep
        n_cases = 36
        for seed in range(n_cases):
            X, Y, I_train, I_test, metric, ext, min_k, max_k, tie_heavy = make_case(seed)

            path = os.path.join(tmp, "dist_%d.%s" % (seed, ext))
            g.pre_compute_distance(X, path, metric)

            tag = "seed=%d metric=%s ext=%s k=[%d,%d] n_train=%d ties=%s" % (
                seed, metric, ext, min_k, max_k, len(I_train), tie_heavy,
            )

            args = (min_k, max_k, X, Y, I_train, I_test)
            lib_direct = run_model(UnsupervisedOPF, metric, None, *args)
            lib_pre = run_model(UnsupervisedOPF, metric, path, *args)
            ref_direct = run_model(RefUnsupervisedOPF, metric, None, *args)
            ref_pre = run_model(RefUnsupervisedOPF, metric, path, *args)

            check(ref_direct == ref_pre, "reference itself violates the property?! " + tag)
            check(lib_direct == ref_direct, "on-the-fly differs from original: " + tag)
            check(lib_pre == ref_pre, "pre-computed differs from original: " + tag)
            check(lib_pre == lib_direct, "pre-computed != on-the-fly: " + tag)
            check(lib_pre[1] == lib_pre[3], "prediction depends on batch position: " + tag)

        # -------------------------------------- (1b) degenerate matrices: library vs original
        for seed in range(12):
            check(
                run_handmade(UnsupervisedOPF, seed) == run_handmade(RefUnsupervisedOPF, seed),
                "hand-made matrix (inf/nan/ties) differs from original: seed=%d" % seed,
            )

        # ------------------------------------------- (2) the specific input exposing the slip
        # Three well separated blobs; the rows of the dataset are shuffled into a training and
        # a test subset, so a test sample's position in the batch handed to predict() has
        # nothing to do with its row in the distance file. Every test sample must be looked up
        # in the file at the row given by I_test; then the clusters/labels predicted through
        # the file equal those of the model that evaluates the metric on the features.
        rng = np.random.default_rng(23)
        centres = np.array([[0.0, 0.0], [6.0, 0.0], [0.0, 6.0]])
        X = np.vstack([ctr + 0.5 * rng.standard_normal((20, 2)) for ctr in centres])
        Y = np.repeat(np.arange(3), 20)
        perm = rng.permutation(len(X))
        I_train, I_test = perm[:42], perm[42:]

        for ext in ("txt", "csv"):
            path = os.path.join(tmp, "blobs." + ext)
            g.pre_compute_distance(X, path, "euclidean")

            direct = UnsupervisedOPF(min_k=1, max_k=6, distance="euclidean")
            direct.fit(X[I_train], Y[I_train], I_train)
            direct.propagate_labels()
            out_direct = direct.predict(X[I_test], I_test)

            pre = UnsupervisedOPF(
                min_k=1, max_k=6, distance="euclidean", pre_computed_distance=path
            )
            pre.fit(X[I_train], Y[I_train], I_train)
            pre.propagate_labels()
            out_pre = pre.predict(X[I_test], I_test)

            check(
                subgraph_state(direct.subgraph) == subgraph_state(pre.subgraph),
                "BLOBS/%s: fitted state differs" % ext,
            )

            n_lab = sum(int(a) != int(b) for a, b in zip(out_direct[0], out_pre[0]))
            n_clu = sum(int(a) != int(b) for a, b in zip(out_direct[1], out_pre[1]))

            check(
                n_lab == 0,
                "BLOBS/%s: %d of %d predicted labels differ (pre-computed vs on-the-fly)"
                % (ext, n_lab, len(I_test)),
            )
            check(
                n_clu == 0,
                "BLOBS/%s: %d of %d predicted clusters differ (pre-computed vs on-the-fly)"
                % (ext, n_clu, len(I_test)),
            )

    finally:
        shutil.rmtree(tmp, ignore_errors=True)

    print("elapsed: %.1fs" % (time.time() - start))

    if FAILURES:
        print("FAIL: %d mismatches" % len(FAILURES))
        return 1

    print("OK: library == original reference, pre-computed == on-the-fly")
    return 0


if __name__ == "__main__":
    sys.exit(main())
