"""C16 / p1 - UnsupervisedOPF: the k kept by training is the smallest k with the lowest normalised cut.

Exit 0: every observable result equals the reference (verbatim copy of the original code) and the
        chosen k is the best of the candidates evaluated by *that* fit.
Exit 1: otherwise.

Run as: cd /tmp/wt/C16 && PYTHONPATH=/tmp/wt/C16 /venv/bin/python demo.py
"""

import logging
import sys
import time

import numpy as np

logging.disable(logging.CRITICAL)

import opfython.utils.constants as c  # noqa: E402
from opfython.core import Heap  # noqa: E402
from opfython.models.unsupervised import UnsupervisedOPF  # noqa: E402
from opfython.subgraphs import KNNSubgraph  # noqa: E402


class RefUnsupervisedOPF(UnsupervisedOPF):
    """Reference: verbatim copy of the ORIGINAL training code of UnsupervisedOPF."""

    def _clustering(self, n_neighbours):
        for i in range(self.subgraph.n_nodes):
            for k in range(n_neighbours):
                j = int(self.subgraph.nodes[i].adjacency[k])

                if self.subgraph.nodes[i].density == self.subgraph.nodes[j].density:
                    insert = True

                    for l in range(n_neighbours):
                        adj = int(self.subgraph.nodes[j].adjacency[l])

                        if i == adj:
                            insert = False

                        if insert:
                            self.subgraph.nodes[j].adjacency.insert(0, i)
                            self.subgraph.nodes[j].n_plateaus += 1

        h = Heap(size=self.subgraph.n_nodes, policy="max")

        for i in range(self.subgraph.n_nodes):
            h.cost[i] = self.subgraph.nodes[i].cost

            self.subgraph.nodes[i].pred = c.NIL
            self.subgraph.nodes[i].root = i

            h.insert(i)

        l = 0
        while not h.is_empty():
            p = h.remove()

            self.subgraph.idx_nodes.append(p)

            if self.subgraph.nodes[p].pred == c.NIL:
                h.cost[p] = self.subgraph.nodes[p].density

                self.subgraph.nodes[p].cluster_label = l
                l += 1

            self.subgraph.nodes[p].cost = h.cost[p]

            n_adjacents = self.subgraph.nodes[p].n_plateaus + n_neighbours
            for k in range(n_adjacents):
                q = int(self.subgraph.nodes[p].adjacency[k])

                if h.color[q] != c.BLACK:
                    current_cost = np.minimum(h.cost[p], self.subgraph.nodes[q].density)

                    if current_cost > h.cost[q]:
                        self.subgraph.nodes[q].pred = p
                        self.subgraph.nodes[q].root = self.subgraph.nodes[p].root
                        self.subgraph.nodes[q].cluster_label = self.subgraph.nodes[
                            p
                        ].cluster_label

                        h.update(q, current_cost)

        self.subgraph.n_clusters = l

    def _normalized_cut(self, n_neighbours):
        internal_cluster = np.zeros(self.subgraph.n_clusters)
        external_cluster = np.zeros(self.subgraph.n_clusters)

        cut = 0.0

        for i in range(self.subgraph.n_nodes):
            n_adjacents = self.subgraph.nodes[i].n_plateaus + n_neighbours

            for k in range(n_adjacents):
                j = int(self.subgraph.nodes[i].adjacency[k])

                if self.pre_computed_distance:
                    distance = self.pre_distances[self.subgraph.nodes[i].idx][
                        self.subgraph.nodes[j].idx
                    ]
                else:
                    distance = self.distance_fn(
                        self.subgraph.nodes[i].features, self.subgraph.nodes[j].features
                    )

                if distance > 0.0:
                    if (
                        self.subgraph.nodes[i].cluster_label
                        == self.subgraph.nodes[j].cluster_label
                    ):
                        internal_cluster[self.subgraph.nodes[i].cluster_label] += (
                            1 / distance
                        )
                    else:
                        external_cluster[self.subgraph.nodes[i].cluster_label] += (
                            1 / distance
                        )

        for l in range(self.subgraph.n_clusters):
            if internal_cluster[l] + external_cluster[l] > 0.0:
                cut += external_cluster[l] / (internal_cluster[l] + external_cluster[l])

        return cut

    def _best_minimum_cut(self, min_k, max_k):
        max_distances = self.subgraph.create_arcs(
            max_k, self.distance_fn, self.pre_computed_distance, self.pre_distances
        )

        min_cut = c.FLOAT_MAX
        for k in range(min_k, max_k + 1):
            if min_cut != 0.0:
                self.subgraph.density = max_distances[k - 1]
                self.subgraph.best_k = k
                self.subgraph.calculate_pdf(
                    k, self.distance_fn, self.pre_computed_distance, self.pre_distances
                )

                self._clustering(k)

                cut = self._normalized_cut(k)
                if cut < min_cut:
                    min_cut = cut
                    best_k = k

        self.subgraph.destroy_arcs()

        self.subgraph.best_k = best_k

        self.subgraph.create_arcs(
            best_k, self.distance_fn, self.pre_computed_distance, self.pre_distances
        )
        self.subgraph.calculate_pdf(
            best_k, self.distance_fn, self.pre_computed_distance, self.pre_distances
        )

    def fit(self, X_train, Y_train=None, I_train=None):
        self.subgraph = KNNSubgraph(X_train, Y_train, I_train)

        self._best_minimum_cut(self.min_k, self.max_k)

        self._clustering(self.subgraph.best_k)

        self.subgraph.trained = True


METRICS = [
    "log_squared_euclidean",
    "euclidean",
    "manhattan",
    "squared_euclidean",
    "chebyshev",
    "canberra",
]


def make_data(seed):
    """Seeded data set; two thirds of them live on a small integer grid (tie-heavy)."""

    r = np.random.RandomState(seed)
    n = int(r.randint(8, 19))
    if seed % 3 == 0:
        n_blobs = int(r.randint(2, 4))
        centers = r.uniform(-6, 6, size=(n_blobs, 2))
        X = centers[r.randint(0, n_blobs, size=n)] + r.normal(0, 0.6, size=(n, 2))
    elif seed % 3 == 1:
        X = r.randint(0, 4, size=(n, 2)).astype(float)
    else:
        X = r.randint(0, 3, size=(n, 3)).astype(float) + 1.0
    Y = r.randint(0, 3, size=n)
    min_k = int(r.randint(1, 3))
    max_k = int(r.randint(min_k + 1, min(n - 1, 7)))
    metric = METRICS[int(r.randint(0, len(METRICS)))]
    pre = seed % 4 == 3
    return X, Y, min_k, max_k, metric, pre


def configure(opf, X, pre, metric):
    """Optionally switches to a pre-computed matrix addressed through non-identity indexes."""

    if not pre:
        return None
    n = len(X)
    r = np.random.RandomState(1000 + n)
    index = r.permutation(n + 3)[:n]
    D = np.zeros((n + 3, n + 3))
    for a in range(n):
        for b in range(n):
            D[index[a]][index[b]] = opf.distance_fn(X[a], X[b])
    opf.pre_computed_distance = True
    opf.pre_distances = D
    return index


def snapshot(opf, X):
    sg = opf.subgraph
    nodes = [
        (
            nd.cluster_label,
            nd.predicted_label,
            nd.pred,
            nd.root,
            float(nd.cost),
            float(nd.density),
            float(nd.radius),
            nd.n_plateaus,
            [int(a) for a in nd.adjacency],
        )
        for nd in sg.nodes
    ]
    idx = [nd.idx for nd in sg.nodes]
    preds, clusters = opf.predict(X[::2], None if not opf.pre_computed_distance else np.array(idx[::2]))
    return (
        sg.best_k,
        sg.n_clusters,
        float(sg.constant),
        float(sg.density),
        float(sg.min_density),
        float(sg.max_density),
        nodes,
        list(preds),
        list(clusters),
    )


def record_cuts(opf):
    """Observes the criterion from outside: every call to the cut routine and its result."""

    calls = []
    inner = opf._normalized_cut

    def spy(n_neighbours):
        value = inner(n_neighbours)
        calls.append((n_neighbours, float(value)))
        return value

    opf._normalized_cut = spy
    return calls


def check_property(tag, opf, calls, min_k, max_k):
    """Chosen k == smallest k with the lowest cut among the candidates of THIS fit.

    The last recorded call is not a candidate only if it happens after the search; here the search
    is the only caller, hence every call is a candidate.
    """

    ok = True
    ks = [k for k, _ in calls]
    # candidates are min_k, min_k + 1, ... and may only stop early after an exact zero
    if ks != list(range(min_k, min_k + len(ks))):
        print("FAIL", tag, "unexpected candidates", ks)
        ok = False
    if ks and ks[-1] != max_k and calls[-1][1] != 0.0:
        print("FAIL", tag, "search stopped early without a null cut", calls)
        ok = False
    best_k, best = None, None
    for k, cut in calls:
        if best is None or cut < best:
            best_k, best = k, cut
    if opf.subgraph.best_k != best_k:
        print(
            "FAIL", tag, "kept k = %d but the best candidate is k = %d; cuts = %s"
            % (opf.subgraph.best_k, best_k, calls)
        )
        ok = False
    # the final clustering must use that k: every node has exactly k + n_plateaus arcs
    for nd in opf.subgraph.nodes:
        if len(nd.adjacency) != opf.subgraph.best_k + nd.n_plateaus:
            print("FAIL", tag, "final graph was not built with the kept k")
            ok = False
            break
    return ok


def run(cls, history, spy=False):
    """Fits ONE estimator on every data set of `history`, in order; returns the snapshots."""

    opf, out, ok = None, [], True
    for step, seed in enumerate(history):
        X, Y, min_k, max_k, metric, pre = make_data(seed)
        if opf is None:
            opf = cls(min_k=min_k, max_k=max_k, distance=metric)
        else:
            # an estimator that is being re-used: new range, same metric as the first fit
            opf.min_k = 1
            opf.max_k = max_k
            opf.min_k = min_k
            opf.pre_computed_distance = False
            opf.pre_distances = None
        index = configure(opf, X, pre, metric)
        calls = record_cuts(opf) if spy else None
        opf.fit(X, Y, index)
        if spy:
            del opf._normalized_cut
            ok &= check_property("history=%s step=%d" % (history, step), opf, calls, min_k, max_k)
        out.append(snapshot(opf, X))
    return out, ok


def main():
    start = time.time()
    failures = 0

    # (1) fresh estimators, 36 seeded inputs
    histories = [[s] for s in range(36)]
    # (2) estimators that are fitted more than once
    histories += [[s, s + 50] for s in range(12)] + [[s, s] for s in (3, 4)] + [[7, 21, 40]]
    # (3) the specific history: a well separated data set first (null cut at k = 1), then a blurred one
    histories += [[9001, 9002]]

    for history in histories:
        ref, _ = run(RefUnsupervisedOPF, history)
        got, ok = run(UnsupervisedOPF, history, spy=True)
        if not ok:
            failures += 1
        if got != ref:
            failures += 1
            for step, (a, b) in enumerate(zip(got, ref)):
                if a != b:
                    print(
                        "FAIL history=%s step=%d differs from the original: best_k %d vs %d, n_clusters %d vs %d"
                        % (history, step, a[0], b[0], a[1], b[1])
                    )
                    break

    print("histories: %d, failures: %d, %.1fs" % (len(histories), failures, time.time() - start))
    return 1 if failures else 0


def _special(seed):
    r = np.random.RandomState(seed)
    if seed == 9001:
        # two tight, far apart groups: k = 1 already yields a null cut
        X = np.vstack([r.normal(0, 0.05, size=(5, 2)), r.normal(0, 0.05, size=(5, 2)) + 50.0])
        return X, np.zeros(10, dtype=int), 1, 4, "euclidean", False
    # three blurred groups: the cut is never null and k = 1 is not the best candidate
    X = np.vstack(
        [
            r.normal(0, 1.0, size=(6, 2)),
            r.normal(0, 1.0, size=(6, 2)) + [3.0, 0.0],
            r.normal(0, 1.0, size=(6, 2)) + [0.0, 3.0],
        ]
    )
    return X, np.zeros(18, dtype=int), 1, 5, "euclidean", False


_plain_make_data = make_data


def make_data(seed):  # noqa: F811
    if seed >= 9000:
        return _special(seed)
    return _plain_make_data(seed)


if __name__ == "__main__":
    sys.exit(main())
