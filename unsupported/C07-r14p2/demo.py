"""C07 / p2 demo: zero-divisor guard inside the decorated kernels.

Exit 0 when every distance / model behaves exactly like the original code
(same bits, caller arrays untouched, no dependence on the call history),
exit 1 otherwise.
"""

import logging
import sys
from functools import wraps

import numpy as np
from numba import njit

logging.disable(logging.CRITICAL)

import opfython.math.distance as distance  # noqa: E402
import opfython.utils.constants as c  # noqa: E402
from opfython.models.knn_supervised import KNNSupervisedOPF  # noqa: E402
from opfython.models.semi_supervised import SemiSupervisedOPF  # noqa: E402
from opfython.models.supervised import SupervisedOPF  # noqa: E402
from opfython.models.unsupervised import UnsupervisedOPF  # noqa: E402

FAILURES = []


def fail(msg):
    FAILURES.append(msg)
    if len(FAILURES) <= 25:
        print("FAIL:", msg)


# --------------------------------------------------------------------------- #
# Reference: verbatim copy of the ORIGINAL decorator
# --------------------------------------------------------------------------- #
def ref_avoid_zero_division(f):
    @wraps(f)
    def _avoid_zero_division(x, y):
        x = x + c.EPSILON
        y = y + c.EPSILON

        return f(x, y)

    return _avoid_zero_division


# --------------------------------------------------------------------------- #
# Reference: verbatim copies of the ORIGINAL kernels touched by the commit
# --------------------------------------------------------------------------- #
@ref_avoid_zero_division
@njit
def ref_additive_symmetric_distance(x, y):
    dist = ((x - y) ** 2 * (x + y)) / (x * y)

    return 2 * np.sum(dist)


@ref_avoid_zero_division
@njit
def ref_jeffreys_distance(x, y):
    dist = (x - y) * np.log(x / y)

    return np.sum(dist)


@ref_avoid_zero_division
@njit
def ref_kullback_leibler_distance(x, y):
    dist = x * np.log(x / y)

    return np.sum(dist)


@ref_avoid_zero_division
@njit
def ref_max_symmetric_distance(x, y):
    dist1 = (x - y) ** 2 / x
    dist2 = (x - y) ** 2 / y

    return np.maximum(np.sum(dist1), np.sum(dist2))


@ref_avoid_zero_division
@njit
def ref_min_symmetric_distance(x, y):
    dist1 = (x - y) ** 2 / x
    dist2 = (x - y) ** 2 / y

    return np.minimum(np.sum(dist1), np.sum(dist2))


@ref_avoid_zero_division
@njit
def ref_neyman_distance(x, y):
    dist = (x - y) ** 2 / x

    return np.sum(dist)


@ref_avoid_zero_division
@njit
def ref_pearson_distance(x, y):
    dist = (x - y) ** 2 / y

    return np.sum(dist)


TOUCHED = {
    "additive_symmetric": ref_additive_symmetric_distance,
    "jeffreys": ref_jeffreys_distance,
    "kullback_leibler": ref_kullback_leibler_distance,
    "max_symmetric": ref_max_symmetric_distance,
    "min_symmetric": ref_min_symmetric_distance,
    "neyman": ref_neyman_distance,
    "pearson": ref_pearson_distance,
}

# The other metrics are not touched: they are their own reference, yet they are still
# checked for repeatability / side effects and are used to observe the caller's arrays
REFERENCE = dict(distance.DISTANCES)
REFERENCE.update(TOUCHED)

if len(REFERENCE) != 47:
    fail(f"expected 47 metrics, found {len(REFERENCE)}")


def bits(value):
    return np.asarray(value, dtype=np.float64).tobytes()


def same(a, b):
    a64, b64 = np.float64(a), np.float64(b)
    if np.isnan(a64) and np.isnan(b64):
        return True
    return bits(a64) == bits(b64)


def call(fn, x, y):
    try:
        with np.errstate(all="ignore"):
            return "ok", fn(x, y)
    except Exception as exc:  # pylint: disable=broad-except
        return "exc", type(exc).__name__


# --------------------------------------------------------------------------- #
# (1) 47 metrics x seeded inputs, each evaluated three times on the SAME arrays
# --------------------------------------------------------------------------- #
def make_inputs():
    rng = np.random.RandomState(1234)
    inputs = []

    for t in range(40):
        n = int(rng.randint(2, 9))
        kind = t % 5

        if kind == 0:  # tie-heavy grid with many exact zeros
            x = rng.randint(0, 4, size=n) / 4.0
            y = rng.randint(0, 4, size=n) / 4.0
        elif kind == 1:  # strictly positive
            x = rng.uniform(0.05, 5.0, size=n)
            y = rng.uniform(0.05, 5.0, size=n)
        elif kind == 2:  # sparse histograms, identical zeros in both
            x = rng.uniform(0.0, 1.0, size=n) * (rng.uniform(size=n) < 0.5)
            y = rng.uniform(0.0, 1.0, size=n) * (rng.uniform(size=n) < 0.5)
        elif kind == 3:  # signed data
            x = rng.normal(size=n)
            y = rng.normal(size=n)
            x[rng.randint(0, n)] = 0.0
        else:  # identical vectors containing zeros (distance ties at 0)
            x = rng.randint(0, 3, size=n) / 2.0
            y = x.copy()

        inputs.append((x, y))

    return inputs


def check_metrics():
    inputs = make_inputs()

    for name, fn in distance.DISTANCES.items():
        ref = REFERENCE[name]

        for t, (x0, y0) in enumerate(inputs):
            x, y = x0.copy(), y0.copy()

            expected = call(ref, x0.copy(), y0.copy())

            for rep in range(3):
                got = call(fn, x, y)

                if got[0] != expected[0] or (
                    got[0] == "ok" and not same(got[1], expected[1])
                ) or (got[0] == "exc" and got[1] != expected[1]):
                    fail(f"{name} input {t} call {rep + 1}: {got} != {expected}")
                    break

            if x.tobytes() != x0.tobytes() or y.tobytes() != y0.tobytes():
                fail(f"{name} input {t}: caller arrays were modified")

    # Other dtypes / flags, on a handful of decorated metrics
    rng = np.random.RandomState(99)
    for name in ["additive_symmetric", "pearson", "kullback_leibler", "max_symmetric", "neyman"]:
        fn, ref = distance.DISTANCES[name], REFERENCE[name]

        for t in range(6):
            n = 5
            if t % 3 == 0:
                x0 = (rng.randint(0, 4, size=n) / 4.0).astype(np.float32)
                y0 = (rng.randint(0, 4, size=n) / 4.0).astype(np.float32)
            elif t % 3 == 1:
                x0 = rng.randint(0, 4, size=n).astype(np.int64)
                y0 = rng.randint(0, 4, size=n).astype(np.int64)
            else:
                x0 = rng.randint(0, 4, size=n) / 4.0
                y0 = rng.randint(0, 4, size=n) / 4.0
                x0.flags.writeable = False
                y0.flags.writeable = False

            x, y = x0.copy(), y0.copy()
            x.flags.writeable = x0.flags.writeable
            y.flags.writeable = y0.flags.writeable

            expected = call(ref, x0, y0)
            for rep in range(2):
                got = call(fn, x, y)
                if got[0] != expected[0] or (
                    got[0] == "ok" and not same(got[1], expected[1])
                ):
                    fail(f"{name} dtype-case {t} call {rep + 1}: {got} != {expected}")
                    break

            if x.tobytes() != x0.tobytes() or y.tobytes() != y0.tobytes():
                fail(f"{name} dtype-case {t}: caller arrays were modified")


# --------------------------------------------------------------------------- #
# (2) The specific history: the same vectors (with exact zeros) evaluated twice
# --------------------------------------------------------------------------- #
def check_history():
    x = np.array([0.0, 0.5, 0.0, 2.0])
    y = np.array([1.0, 0.5, 0.0, 0.0])
    x0, y0 = x.copy(), y.copy()

    for name in ["kullback_leibler", "neyman", "pearson", "min_symmetric", "jeffreys"]:
        fn = distance.DISTANCES[name]
        expected = call(REFERENCE[name], x0.copy(), y0.copy())

        for rep in range(4):
            got = call(fn, x, y)
            if got[0] != "ok" or not same(got[1], expected[1]):
                fail(f"history: {name} call {rep + 1} gives {got}, expected {expected}")

    if x.tobytes() != x0.tobytes():
        fail(f"history: x changed from {x0!r} to {x!r}")
    if y.tobytes() != y0.tobytes():
        fail(f"history: y changed from {y0!r} to {y!r}")

    # A zero-valued feature must still be an exact zero for an unrelated metric
    if distance.hamming_distance(x, np.zeros(4)) != 2:
        fail("history: exact zeros of x are not zeros any longer")
    if distance.hamming_distance(y, np.zeros(4)) != 2:
        fail("history: exact zeros of y are not zeros any longer")


# --------------------------------------------------------------------------- #
# (3) Models: fresh fits on equal data, compared to a model driven by the reference
# --------------------------------------------------------------------------- #
def make_data(seed, n=36, n_features=4):
    rng = np.random.RandomState(seed)
    X = rng.randint(0, 4, size=(n, n_features)) / 4.0  # many zeros and duplicated rows
    Y = (rng.randint(0, 3, size=n) + 1).astype(int)
    Y[:3] = [1, 2, 3]
    Y[-3:] = [1, 2, 3]
    return X, Y


def forest(opf):
    return [
        (
            n.idx,
            n.label,
            n.predicted_label,
            n.cluster_label,
            n.pred,
            n.root,
            n.status,
            bits(n.cost),
            bits(n.density),
            [int(a) for a in n.adjacency],
        )
        for n in opf.subgraph.nodes
    ], list(opf.subgraph.idx_nodes)


def run_model(kind, metric, X, Y, Xt, use_reference):
    if kind == "supervised":
        opf = SupervisedOPF(distance=metric)
    elif kind == "semi":
        opf = SemiSupervisedOPF(distance=metric)
    elif kind == "knn":
        opf = KNNSupervisedOPF(max_k=3, distance=metric)
    else:
        opf = UnsupervisedOPF(min_k=1, max_k=3, distance=metric)

    if use_reference:
        opf.distance_fn = REFERENCE[metric]

    half = len(X) // 2
    with np.errstate(all="ignore"):
        if kind == "supervised":
            opf.fit(X, Y)
        elif kind == "semi":
            opf.fit(X[:half], Y[:half], X[half:])
        elif kind == "knn":
            opf.fit(X[:half], Y[:half], X[half:], Y[half:])
        else:
            opf.fit(X, Y)

        preds = opf.predict(Xt)

    return forest(opf), preds


def check_models():
    for seed, metric in enumerate(
        ["pearson", "neyman", "max_symmetric", "additive_symmetric", "log_squared_euclidean"]
    ):
        X, Y = make_data(100 + seed)
        Xt, _ = make_data(200 + seed, n=12)
        X0, Y0, Xt0 = X.copy(), Y.copy(), Xt.copy()

        for kind in ["supervised", "semi", "knn", "unsupervised"]:
            expected = run_model(kind, metric, X0.copy(), Y0.copy(), Xt0.copy(), True)

            first = run_model(kind, metric, X, Y, Xt, False)
            second = run_model(kind, metric, X, Y, Xt, False)

            if first != expected:
                fail(f"{kind}/{metric}: first fit differs from the original behaviour")
            if second != expected:
                fail(f"{kind}/{metric}: second fit on equal data differs")

            if X.tobytes() != X0.tobytes() or Xt.tobytes() != Xt0.tobytes():
                fail(f"{kind}/{metric}: caller's X was modified")
                X, Xt = X0.copy(), Xt0.copy()
            if Y.tobytes() != Y0.tobytes():
                fail(f"{kind}/{metric}: caller's Y was modified")


if __name__ == "__main__":
    check_metrics()
    check_history()
    check_models()

    if FAILURES:
        print(f"{len(FAILURES)} check(s) failed")
        sys.exit(1)

    print("all checks passed")
    sys.exit(0)
