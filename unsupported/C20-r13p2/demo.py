"""C20 / p2 - pythonic idioms commit on opf_accuracy / opf_accuracy_per_label /
pre_compute_distance.

Exits 0 when opfython.math.general behaves exactly like the original code,
non-zero otherwise.
"""

import copy
import logging
import os
import sys
import tempfile
import warnings

import numpy as np

import opfython.math.distance as d
import opfython.math.general as g

logging.disable(logging.CRITICAL)
warnings.simplefilter("ignore")
np.seterr(all="ignore")


# --------------------------------------------------------------------------
# Verbatim copies of the original functions (reference behaviour)
# --------------------------------------------------------------------------
def ref_opf_accuracy(labels, preds):
    labels = np.asarray(labels)
    preds = np.asarray(preds)

    n_class = np.max(labels) + 1

    errors = np.zeros((n_class, 2))
    counts = np.bincount(labels)

    for label, pred in zip(labels, preds):
        if label != pred:
            errors[pred][0] += 1
            errors[label][1] += 1

    errors[:, 1] /= counts
    errors[:, 0] /= np.nansum(counts) - counts
    errors = np.nansum(errors, axis=1)

    accuracy = 1 - (np.sum(errors) / (2 * n_class))

    return accuracy


def ref_opf_accuracy_per_label(labels, preds):
    labels = np.asarray(labels)
    preds = np.asarray(preds)

    n_class = np.max(labels) + 1

    errors = np.zeros(n_class)
    _, counts = np.unique(labels, return_counts=True)

    for label, pred in zip(labels, preds):
        if label != pred:
            errors[label] += 1

    errors /= counts
    accuracy = 1 - errors

    return accuracy


def ref_pre_compute_distance(data, output, distance="log_squared_euclidean"):
    size = data.shape[0]

    distances = np.zeros((size, size))
    for i in range(size):
        for j in range(size):
            distances[i][j] = d.DISTANCES[distance](data[i], data[j])

    delimiter = "," if output.split(".")[-1] == "csv" else " "

    np.savetxt(output, distances, delimiter=delimiter)


# --------------------------------------------------------------------------
FAILURES = []


def same(a, b):
    a, b = np.asarray(a), np.asarray(b)
    return a.shape == b.shape and a.dtype == b.dtype and np.array_equal(a, b, equal_nan=True)


def run(fn, *args):
    args = copy.deepcopy(args)
    try:
        return "ok", fn(*args)
    except Exception as exc:  # pylint: disable=broad-except
        return "raise", type(exc)


def compare(name, new, ref, *args):
    kind_n, val_n = run(new, *args)
    kind_r, val_r = run(ref, *args)

    ok = kind_n == kind_r and (same(val_n, val_r) if kind_n == "ok" else val_n is val_r)
    if not ok:
        FAILURES.append(f"{name}: differs from the original for {args!r}: {val_n!r} vs {val_r!r}")


def label_vectors(rng, n_class, size, ordered):
    labels = rng.integers(0, n_class, size)
    labels[rng.permutation(size)[:n_class]] = np.arange(n_class)
    if ordered:
        labels = np.sort(labels)
    preds = np.where(rng.random(size) < 0.6, labels, rng.integers(0, n_class, size))
    return labels, preds


rng = np.random.default_rng(2020)

# (1) 80 seeded label / prediction vectors, every class 0..K-1 present, few classes
#     -> many repeated pairs; both class-sorted vectors and shuffled ones
for case in range(80):
    n_class = int(rng.integers(1, 7))
    size = int(rng.integers(n_class, 45))
    labels, preds = label_vectors(rng, n_class, size, ordered=case % 4 == 0)
    if case % 3 == 0:
        labels, preds = labels.tolist(), preds.tolist()
    compare("opf_accuracy", g.opf_accuracy, ref_opf_accuracy, labels, preds)
    compare("opf_accuracy_per_label", g.opf_accuracy_per_label, ref_opf_accuracy_per_label, labels, preds)
    compare("opf_accuracy(perfect)", g.opf_accuracy, ref_opf_accuracy, labels, labels)
    compare("opf_accuracy_per_label(perfect)", g.opf_accuracy_per_label, ref_opf_accuracy_per_label, labels, labels)

# inputs outside of the property keep their outcome / exception type
for labels, preds in (
    ([], []),
    ([0.0, 1.0], [0.0, 1.0]),
    ([0, 2, 2], [0, 2, 0]),  # class 1 absent
    ([2, 2, 2], [2, 0, 2]),  # classes 0 and 1 absent
    ([0, 1, 1, 0], [1, 1]),  # shorter predictions
    (np.array([[0], [1], [1]]), np.array([[1], [1], [0]])),  # column vectors
):
    compare("opf_accuracy(other)", g.opf_accuracy, ref_opf_accuracy, labels, preds)
    compare("opf_accuracy_per_label(other)", g.opf_accuracy_per_label, ref_opf_accuracy_per_label, labels, preds)

# (2) pre-computed distance files are byte-identical (tie heavy integer features too)
with tempfile.TemporaryDirectory() as tmp:
    for case, metric in enumerate(["log_squared_euclidean", "euclidean", "manhattan", "chi_squared"]):
        for ext in ("txt", "csv"):
            data = rng.integers(0, 3, (7, 3)).astype(float) if case % 2 else rng.random((6, 4))
            new_file, ref_file = os.path.join(tmp, f"new.{ext}"), os.path.join(tmp, f"ref.{ext}")
            g.pre_compute_distance(data, new_file, metric)
            ref_pre_compute_distance(data, ref_file, metric)
            with open(new_file, "rb") as f_new, open(ref_file, "rb") as f_ref:
                if f_new.read() != f_ref.read():
                    FAILURES.append(f"pre_compute_distance: file differs for {metric} / {ext}")

# (3) the specific input: classes of different sizes whose first occurrences are not in
#     ascending order of the identifiers. Per-label accuracy has to be each class's recall.
labels = [1, 1, 1, 0, 1, 2, 2]  # class sizes: 0 -> 1, 1 -> 4, 2 -> 2
preds = [1, 1, 0, 0, 2, 2, 1]
recall = np.array([1 / 1, 2 / 4, 1 / 2])

per_label = g.opf_accuracy_per_label(labels, preds)
if not np.array_equal(per_label, recall):
    FAILURES.append(f"opf_accuracy_per_label: {per_label} is not the recall {recall} of {labels} / {preds}")
if np.any(per_label < 0) or np.any(per_label > 1):
    FAILURES.append(f"opf_accuracy_per_label: {per_label} leaves [0, 1]")

if FAILURES:
    print(f"{len(FAILURES)} deviation(s) from the original behaviour")
    for line in FAILURES[:8]:
        print(" -", line)
    sys.exit(1)

print("OK - identical to the original behaviour")
