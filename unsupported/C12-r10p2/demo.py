"""Demo for property C12 (the k-NN graph and density estimate are exact).

Runs the library's KNNSubgraph against a verbatim copy of the ORIGINAL
create_arcs / calculate_pdf / eliminate_maxima_height on many seeded inputs
(ties, duplicates, lattices, pre-computed matrices with non-identity indexes,
asymmetric metrics, repeated calls, k > n-1, n > 256) and compares every
observable bit for bit.  Exits 0 when everything matches, 1 otherwise.
"""

import logging
import sys
import warnings

import numpy as np

import opfython.math.distance as distance
import opfython.utils.constants as c
from opfython.subgraphs.knn import KNNSubgraph

warnings.simplefilter("ignore")
logging.disable(logging.CRITICAL)


class RefKNNSubgraph(KNNSubgraph):
    """Verbatim copy of the original implementation (reference)."""

    def calculate_pdf(
        self,
        n_neighbours,
        distance_function,
        pre_computed_distance=False,
        pre_distances=None,
    ):
        self.constant = 2 * self.density / 9

        self.min_density = c.FLOAT_MAX
        self.max_density = -c.FLOAT_MAX

        pdf = np.zeros(self.n_nodes)
        for i in range(self.n_nodes):
            pdf[i] = 0
            n_pdf = 1

            for k in range(n_neighbours):
                j = int(self.nodes[i].adjacency[k])

                if pre_computed_distance:
                    distance = pre_distances[self.nodes[i].idx][self.nodes[j].idx]

                else:
                    distance = distance_function(
                        self.nodes[i].features, self.nodes[j].features
                    )

                pdf[i] += np.exp(-distance / self.constant)
                n_pdf += 1

            pdf[i] /= n_pdf

            if pdf[i] < self.min_density:
                self.min_density = pdf[i]
            if pdf[i] > self.max_density:
                self.max_density = pdf[i]

        if self.min_density == self.max_density:
            for i in range(self.n_nodes):
                self.nodes[i].density = c.MAX_DENSITY
                self.nodes[i].cost = c.MAX_DENSITY - 1
        else:
            for i in range(self.n_nodes):
                self.nodes[i].density = (
                    (c.MAX_DENSITY - 1)
                    * (pdf[i] - self.min_density)
                    / (self.max_density - self.min_density)
                ) + 1
                self.nodes[i].cost = self.nodes[i].density - 1

    def create_arcs(
        self,
        k,
        distance_function,
        pre_computed_distance=False,
        pre_distances=None,
    ):
        distances = np.zeros(k + 1)
        neighbours_idx = np.zeros(k + 1)
        max_distances = np.zeros(k)

        self.density = 0.0

        for i in range(self.n_nodes):
            distances.fill(c.FLOAT_MAX)

            for j in range(self.n_nodes):
                if j != i:
                    if pre_computed_distance:
                        distances[k] = pre_distances[self.nodes[i].idx][
                            self.nodes[j].idx
                        ]
                    else:
                        distances[k] = distance_function(
                            self.nodes[i].features, self.nodes[j].features
                        )

                    neighbours_idx[k] = j
                    cur_k = k

                    while cur_k > 0 and distances[cur_k] < distances[cur_k - 1]:
                        distances[cur_k], distances[cur_k - 1] = (
                            distances[cur_k - 1],
                            distances[cur_k],
                        )

                        neighbours_idx[cur_k], neighbours_idx[cur_k - 1] = (
                            neighbours_idx[cur_k - 1],
                            neighbours_idx[cur_k],
                        )

                        cur_k -= 1

            self.nodes[i].radius = 0.0
            self.nodes[i].n_plateaus = 0

            for l in range(k - 1, -1, -1):
                if distances[l] != c.FLOAT_MAX:
                    if distances[l] > self.density:
                        self.density = distances[l]
                    if distances[l] > self.nodes[i].radius:
                        self.nodes[i].radius = distances[l]
                    if distances[l] > max_distances[l]:
                        max_distances[l] = distances[l]

                    self.nodes[i].adjacency.insert(0, neighbours_idx[l])

        if self.density < 0.00001:
            self.density = 1

        return max_distances

    def eliminate_maxima_height(self, height):
        if height > 0:
            for i in range(self.n_nodes):
                self.nodes[i].cost = np.maximum(self.nodes[i].density - height, 0)


# ---------------------------------------------------------------------------
def bits(x):
    """Canonical, type-agnostic, bit-exact representation of a number."""
    x = float(x)
    return "nan" if x != x else x.hex()


def snapshot(g, ret=None):
    snap = {
        "density": bits(g.density),
        "constant": bits(g.constant),
        "min_density": bits(g.min_density),
        "max_density": bits(g.max_density),
        "ret": None if ret is None else [bits(v) for v in ret],
    }
    for i, node in enumerate(g.nodes):
        snap["node%d" % i] = (
            [bits(a) for a in node.adjacency],
            bits(node.radius),
            bits(node.density),
            bits(node.cost),
            node.n_plateaus,
        )
    return snap


def call(g, name, *args, **kwargs):
    try:
        return ("ok", getattr(g, name)(*args, **kwargs))
    except Exception as ex:  # pylint: disable=broad-except
        return ("exc", type(ex).__name__)


FAILURES = []


def compare(tag, new, ref, ret_new=None, ret_ref=None):
    if ret_new is not None or ret_ref is not None:
        if ret_new[0] != ret_ref[0] or (ret_new[0] == "exc" and ret_new != ret_ref):
            FAILURES.append("%s: outcome %r vs reference %r" % (tag, ret_new, ret_ref))
            return
    a = snapshot(new, ret_new[1] if ret_new and ret_new[0] == "ok" else None)
    b = snapshot(ref, ret_ref[1] if ret_ref and ret_ref[0] == "ok" else None)
    for key in b:
        if a[key] != b[key]:
            FAILURES.append("%s: %s differs: %r vs reference %r" % (tag, key, a[key], b[key]))
            return


def run_history(tag, X, I, steps, fn, pre=None):
    """Runs the same call history on the library class and on the reference."""
    Y = np.zeros(len(X), dtype=int)
    new, ref = KNNSubgraph(X, Y, I), RefKNNSubgraph(X, Y, I)
    use_pre = pre is not None
    for s, step in enumerate(steps):
        kind, arg = step
        if kind == "arcs":
            rn = call(new, "create_arcs", arg, fn, use_pre, pre)
            rr = call(ref, "create_arcs", arg, fn, use_pre, pre)
        elif kind == "pdf":
            rn = call(new, "calculate_pdf", arg, fn, use_pre, pre)
            rr = call(ref, "calculate_pdf", arg, fn, use_pre, pre)
            rn, rr = (rn[0], None if rn[0] == "ok" else rn[1]), (rr[0], None if rr[0] == "ok" else rr[1])
        elif kind == "height":
            rn = call(new, "eliminate_maxima_height", arg)
            rr = call(ref, "eliminate_maxima_height", arg)
            rn, rr = (rn[0], None if rn[0] == "ok" else rn[1]), (rr[0], None if rr[0] == "ok" else rr[1])
        elif kind == "destroy":
            new.destroy_arcs()
            ref.destroy_arcs()
            continue
        elif kind == "bound":
            # What UnsupervisedOPF._best_minimum_cut does between k values
            new.density = arg
            ref.density = arg
            continue
        compare("%s step %d %r" % (tag, s, step), new, ref, rn, rr)


def make_data(rng, kind, n, d):
    if kind == "gauss":
        return rng.normal(size=(n, d))
    if kind == "lattice":
        return rng.integers(0, 3, size=(n, d)).astype(float)
    if kind == "dups":
        base = rng.normal(size=(max(1, n // 3), d))
        return base[rng.integers(0, len(base), size=n)]
    if kind == "positive":
        return rng.random(size=(n, d)) + 0.05
    if kind == "same":
        return np.ones((n, d))
    raise ValueError(kind)


def main():
    metrics = {
        "euclidean": distance.euclidean_distance,
        "manhattan": distance.manhattan_distance,
        "chebyshev": distance.chebyshev_distance,
        "kullback_leibler": distance.kullback_leibler_distance,  # asymmetric
        "neyman": distance.neyman_distance,  # asymmetric
    }

    n_inputs = 0

    # (1) seeded sweep ------------------------------------------------------
    kinds = ["gauss", "lattice", "dups", "positive", "same"]
    for seed in range(40):
        rng = np.random.default_rng(1000 + seed)
        kind = kinds[seed % len(kinds)]
        n = int(rng.integers(2, 15))
        d = int(rng.integers(1, 4))
        X = make_data(rng, kind, n, d)
        k = int(rng.integers(1, n))  # 1 .. n-1
        h = [0.0, -1.0, 0.5, 2.5, 7, 400.25][seed % 6]
        if kind == "positive":
            name = ["kullback_leibler", "neyman"][seed % 2]
        else:
            name = ["euclidean", "manhattan", "chebyshev"][seed % 3]
        steps = [("arcs", k), ("pdf", k), ("height", h), ("height", 0.75)]
        run_history("sweep seed=%d %s/%s n=%d k=%d" % (seed, kind, name, n, k), X, None, steps, metrics[name])
        n_inputs += 1

    # (2) pre-computed (asymmetric, tie-heavy) matrices, non-identity indexes
    for seed in range(12):
        rng = np.random.default_rng(2000 + seed)
        n = int(rng.integers(3, 12))
        m = n + 5
        if seed % 3 == 0:
            pre = rng.integers(0, 4, size=(m, m)).astype(float)  # many ties, asymmetric
        elif seed % 3 == 1:
            pre = rng.random(size=(m, m)) * 10  # asymmetric
        else:
            pre = rng.integers(0, 3, size=(m, m))  # integer matrix
        I = rng.permutation(m)[:n]
        X = rng.normal(size=(n, 2))
        k = int(rng.integers(1, n))
        steps = [("arcs", k), ("pdf", k), ("height", 1.5), ("height", -3)]
        run_history("pre seed=%d n=%d k=%d" % (seed, n, k), X, I, steps, metrics["euclidean"], pre)
        n_inputs += 1

    # (3) repeated calls without destroy_arcs / clustering-style k sweep
    for seed in range(6):
        rng = np.random.default_rng(3000 + seed)
        n = int(rng.integers(5, 12))
        X = make_data(rng, ["gauss", "lattice", "dups"][seed % 3], n, 2)
        kmax = int(rng.integers(2, n))
        steps = [("arcs", kmax)]
        for k in range(1, kmax + 1):
            steps += [("pdf", k)]
        steps += [("destroy", None), ("arcs", 2), ("pdf", 2), ("arcs", 1), ("pdf", 1), ("height", 0.3)]
        run_history("repeat seed=%d n=%d kmax=%d" % (seed, n, kmax), X, None, steps, metrics["euclidean"])
        n_inputs += 1

    # (4) more neighbours requested than there are other samples (k > n-1)
    for seed in range(8):
        rng = np.random.default_rng(4000 + seed)
        n = int(rng.integers(1, 7))
        X = make_data(rng, ["gauss", "lattice"][seed % 2], n, 2) * 3.0
        k = n - 1 + int(rng.integers(1, 4))
        steps = [("arcs", k), ("pdf", n - 1), ("height", 0.5), ("pdf", k)]
        run_history("k>n-1 seed=%d n=%d k=%d" % (seed, n, k), X, None, steps, metrics["euclidean"])
        n_inputs += 1

    # (5) fractional / tiny / huge heights on a fixed graph
    rng = np.random.default_rng(5000)
    X = rng.normal(size=(9, 2))
    for h in [0.25, 0.999, 1, 1.0, 1.75, 999.5, 1e-9, np.float64(0.5), np.int64(3)]:
        run_history("height %r" % (h,), X, None, [("arcs", 3), ("pdf", 3), ("height", h)], metrics["euclidean"])
        n_inputs += 1

    # (6) graphs with more than 256 samples (identifiers above one byte)
    for seed, n in enumerate([260, 300]):
        rng = np.random.default_rng(6000 + seed)
        X = rng.normal(size=(n, 2))
        steps = [("arcs", 2), ("pdf", 2), ("height", 10.5)]
        run_history("large seed=%d n=%d" % (seed, n), X, None, steps, metrics["euclidean"])
        n_inputs += 1

    print("inputs checked: %d" % n_inputs)
    if FAILURES:
        print("MISMATCHES: %d" % len(FAILURES))
        for f in FAILURES[:15]:
            print("  " + f)
        return 1
    print("all observables identical to the original implementation")
    return 0


if __name__ == "__main__":
    sys.exit(main())
