"""Demo for C20 / p1: OPF accuracy after the NamedTuple modernisation.

Exit 0 when opfython.math.general behaves like the original implementation,
non-zero otherwise.
"""

import sys
import warnings

import numpy as np

from opfython.math import general

warnings.simplefilter("ignore")


# --------------------------------------------------------------------------
# Verbatim copies of the original functions (reference behaviour)
# --------------------------------------------------------------------------
def ref_confusion_matrix(labels, preds):
    labels = np.asarray(labels)
    preds = np.asarray(preds)

    n_class = np.max(labels) + 1

    c_matrix = np.zeros((n_class, n_class))
    for label, pred in zip(labels, preds):
        c_matrix[label][pred] += 1

    return c_matrix


def ref_normalize(array):
    mean = np.mean(array, axis=0)
    std = np.std(array, axis=0)

    norm_array = (array - mean) / std

    return norm_array


def ref_opf_accuracy(labels, preds):
    labels = np.asarray(labels)
    preds = np.asarray(preds)

    n_class = np.max(labels) + 1

    errors = np.zeros((n_class, 2))
    counts = np.bincount(labels)

    for label, pred in zip(labels, preds):
        if label != pred:
            errors[pred][0] += 1
            errors[label][1] += 1

    errors[:, 1] /= counts
    errors[:, 0] /= np.nansum(counts) - counts
    errors = np.nansum(errors, axis=1)

    accuracy = 1 - (np.sum(errors) / (2 * n_class))

    return accuracy


def ref_opf_accuracy_per_label(labels, preds):
    labels = np.asarray(labels)
    preds = np.asarray(preds)

    n_class = np.max(labels) + 1

    errors = np.zeros(n_class)
    _, counts = np.unique(labels, return_counts=True)

    for label, pred in zip(labels, preds):
        if label != pred:
            errors[label] += 1

    errors /= counts
    accuracy = 1 - errors

    return accuracy


def ref_purity(labels, preds):
    c_matrix = ref_confusion_matrix(labels, preds)
    _purity = np.sum(np.max(c_matrix, axis=0)) / len(labels)

    return _purity


# --------------------------------------------------------------------------
PAIRS = [
    ("confusion_matrix", ref_confusion_matrix, general.confusion_matrix),
    ("opf_accuracy", ref_opf_accuracy, general.opf_accuracy),
    ("opf_accuracy_per_label", ref_opf_accuracy_per_label, general.opf_accuracy_per_label),
    ("purity", ref_purity, general.purity),
]

failures = []


def outcome(fn, *args):
    try:
        return ("ok", fn(*args))
    except Exception as e:  # pylint: disable=broad-except
        return ("raise", type(e).__name__)


def same(a, b):
    if a[0] != b[0]:
        return False
    if a[0] == "raise":
        return a[1] == b[1]
    x, y = a[1], b[1]
    if type(x) is not type(y):
        return False
    x, y = np.asarray(x), np.asarray(y)
    return x.shape == y.shape and x.dtype == y.dtype and x.tobytes() == y.tobytes()


def check(tag, labels, preds):
    for name, ref, new in PAIRS:
        a = outcome(ref, labels, preds)
        b = outcome(new, labels, preds)
        if not same(a, b):
            failures.append("%s %s: expected %r got %r" % (tag, name, a, b))


def closed_form(labels, preds):
    """1 - (1/2K) * sum_c (FP_c / (N - n_c) + FN_c / n_c), straight from the definition."""
    labels = list(labels)
    preds = list(preds)
    k = max(labels) + 1
    n = len(labels)
    total = 0.0
    for c in range(k):
        n_c = sum(1 for y in labels if y == c)
        fp = sum(1 for y, p in zip(labels, preds) if p == c and y != c)
        fn = sum(1 for y, p in zip(labels, preds) if y == c and p != c)
        total += fp / (n - n_c) + fn / n_c
    return 1 - total / (2 * k)


def random_case(rng, k, n, flip, weights=None):
    labels = np.concatenate([np.arange(k), rng.choice(k, size=n - k, p=weights)])
    rng.shuffle(labels)
    preds = labels.copy()
    mask = rng.random(n) < flip
    preds[mask] = rng.integers(0, k, size=int(mask.sum()))
    return labels, preds


# 1) seeded comparison against the reference ---------------------------------
n_cases = 0
for seed in range(60):
    rng = np.random.default_rng(seed)
    k = int(rng.integers(2, 7))
    n = int(rng.integers(k, 60))
    flip = float(rng.choice([0.0, 0.1, 0.5, 1.0]))
    if seed % 3 == 0:
        weights = None  # roughly balanced
    else:
        weights = rng.dirichlet(np.ones(k) * 0.5)  # skewed class sizes
    labels, preds = random_case(rng, k, n, flip, weights)
    check("seed%d" % seed, labels, preds)
    check("seed%d-list" % seed, labels.tolist(), preds.tolist())
    acc = general.opf_accuracy(labels, preds)
    if abs(acc - closed_form(labels, preds)) > 1e-12:
        failures.append("seed%d: opf_accuracy %r != definition %r" % (seed, acc, closed_form(labels, preds)))
    if not -1e-12 <= acc <= 1 + 1e-12:
        failures.append("seed%d: opf_accuracy %r outside [0, 1]" % (seed, acc))
    n_cases += 2

# tie-heavy / degenerate shapes
TIE_CASES = [
    ([0, 0, 1, 1], [0, 0, 0, 0]),
    ([0, 0, 1, 1], [1, 1, 0, 0]),
    ([0, 1, 2, 0, 1, 2], [1, 2, 0, 1, 2, 0]),
    ([0, 1, 2, 0, 1, 2], [0, 0, 0, 0, 0, 0]),
    ([0] * 5 + [1] * 5, [0, 1] * 5),
    ([0, 1], [0, 1]),
    ([0, 1], [1, 0]),
    ([0], [0]),
    ([0, 0, 0], [0, 0, 0]),
    ([0, 2, 2], [0, 2, 0]),  # class 1 absent: nan handling
    ([1, 1], [1, 0]),  # class 0 absent
    ([0, 1, 2], [0, 1, 3]),  # prediction out of range
    ([0, 1, 1], [0, -1, 1]),  # negative prediction wraps
    ([], []),
    ([0, 1, 1], [0, 1]),  # length mismatch
    ([-1, 0], [0, 0]),
]
for i, (labels, preds) in enumerate(TIE_CASES):
    check("tie%d" % i, labels, preds)
    check("tie%d-arr" % i, np.array(labels, dtype=int), np.array(preds, dtype=int))
    n_cases += 2

# normalize is not touched, but is part of the property
for seed in range(10):
    rng = np.random.default_rng(1000 + seed)
    arr = rng.normal(size=(int(rng.integers(2, 12)), int(rng.integers(1, 5))))
    a, b = outcome(ref_normalize, arr), outcome(general.normalize, arr)
    if not same(a, b):
        failures.append("normalize seed%d differs" % seed)

# 2) the specific input: unbalanced class sizes -------------------------------
# Three samples of class 0, one sample of class 1, everything predicted as 0:
#   FP_0 = 1 over 1 sample of the other class -> 1
#   FN_1 = 1 over 1 sample of class 1         -> 1
#   accuracy = 1 - 2 / 4 = 0.5
labels = [0, 0, 0, 1]
preds = [0, 0, 0, 0]
acc = general.opf_accuracy(labels, preds)
print("opf_accuracy([0,0,0,1],[0,0,0,0]) =", acc, "(definition: 0.5)")
if acc != 0.5:
    failures.append("unbalanced 3:1 example: got %r, definition gives 0.5" % acc)

# Nine of class 0, one of class 1, the single class-1 sample is missed and one class-0 sample is wrong
labels = [0] * 9 + [1]
preds = [1] + [0] * 9
acc = general.opf_accuracy(labels, preds)
want = closed_form(labels, preds)  # 1 - (1/4) * (1/1 + 1/9 + 1/9 + 1/1)
print("opf_accuracy(9:1 example) =", acc, "(definition: %r)" % want)
if abs(acc - want) > 1e-12 or acc != ref_opf_accuracy(labels, preds):
    failures.append("unbalanced 9:1 example: got %r, definition gives %r" % (acc, want))

print("compared %d label/prediction inputs against the reference" % n_cases)
if failures:
    print("FAILURES (%d):" % len(failures))
    for f in failures[:15]:
        print("  ", f)
    sys.exit(1)
print("OK")
sys.exit(0)
