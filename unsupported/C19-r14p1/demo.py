"""C19 / p1 - save() / load() round trip after the `include_distances` / `keep_distances` API evolution.

Exit 0: every saved-and-reloaded model equals the original one (forest state,
configuration, predictions) and equals what the ORIGINAL save()/load() code
(inlined below, verbatim) produces.  Exit 1 otherwise.

Run as:  cd /tmp/wt/C19 && PYTHONPATH=/tmp/wt/C19 /venv/bin/python demo.py
"""

import logging
import os
import pickle
import sys
import atexit
import shutil
import tempfile
import warnings

import numpy as np

logging.disable(logging.CRITICAL)
warnings.filterwarnings("ignore")

from opfython.models import (  # noqa: E402
    KNNSupervisedOPF,
    SemiSupervisedOPF,
    SupervisedOPF,
    UnsupervisedOPF,
)

TMP = tempfile.mkdtemp(prefix="c19p1_")
atexit.register(shutil.rmtree, TMP, ignore_errors=True)
FAILURES = []


def fail(msg):
    FAILURES.append(msg)
    if len(FAILURES) <= 25:
        print("FAIL:", msg)


# --------------------------------------------------------------------------
# Reference: the original OPF.save / OPF.load bodies (verbatim, `self` -> arg)
# --------------------------------------------------------------------------
def ref_load(self, file_name):
    with open(file_name, "rb") as origin_file:
        opf = pickle.load(origin_file)

        self.__dict__.update(opf.__dict__)


def ref_save(self, file_name):
    with open(file_name, "wb") as dest_file:
        pickle.dump(self, dest_file)


# --------------------------------------------------------------------------
# Canonical, type-aware and bit-exact picture of a model
# --------------------------------------------------------------------------
def canon(o):
    if isinstance(o, np.ndarray):
        return ("nd", str(o.dtype), o.shape, np.ascontiguousarray(o).tobytes())
    if isinstance(o, np.generic):
        return ("ng", type(o).__name__, o.tobytes())
    if isinstance(o, float):
        return ("f", o.hex())
    if isinstance(o, (bool, int, str, type(None))):
        return (type(o).__name__, o)
    if isinstance(o, (list, tuple)):
        return (type(o).__name__, tuple(canon(x) for x in o))
    if isinstance(o, dict):
        return ("d", tuple((k, canon(o[k])) for k in sorted(o)))
    if hasattr(o, "py_func"):
        return ("fn", o.py_func.__module__, o.py_func.__name__)
    if callable(o):
        return ("fn", getattr(o, "__module__", None), getattr(o, "__qualname__", None))
    if hasattr(o, "__dict__"):
        return ("obj", type(o).__qualname__, canon(vars(o)))
    return ("repr", repr(o))


def first_diff(a, b, path="model"):
    """Human readable location of the first difference between two canon() values."""
    if a == b:
        return None
    if (
        isinstance(a, tuple)
        and isinstance(b, tuple)
        and len(a) == len(b)
        and a
        and a[0] == b[0]
    ):
        if a[0] == "d" and len(a) == 2:
            ka = [k for k, _ in a[1]]
            kb = [k for k, _ in b[1]]
            if ka != kb:
                return "%s: keys %s != %s" % (path, ka, kb)
            for (k, va), (_, vb) in zip(a[1], b[1]):
                d = first_diff(va, vb, path + "." + str(k))
                if d:
                    return d
        if a[0] in ("list", "tuple") and len(a[1]) == len(b[1]):
            for i, (va, vb) in enumerate(zip(a[1], b[1])):
                d = first_diff(va, vb, "%s[%d]" % (path, i))
                if d:
                    return d
        if a[0] == "obj" and a[1] == b[1]:
            return first_diff(a[2], b[2], path)
    sa, sb = repr(a), repr(b)
    return "%s: %s != %s" % (path, sa[:80], sb[:80])


# --------------------------------------------------------------------------
# Work-loads
# --------------------------------------------------------------------------
METRICS = [
    "log_squared_euclidean",
    "euclidean",
    "manhattan",
    "chi_squared",
    "canberra",
    "squared_euclidean",
    "kullback_leibler",  # asymmetric
    "bray_curtis",
]
KINDS = ["sup", "semi", "knn", "unsup"]


def make(kind, metric=None):
    kw = {} if metric is None else {"distance": metric}
    if kind == "sup":
        return SupervisedOPF(**kw)
    if kind == "semi":
        return SemiSupervisedOPF(**kw)
    if kind == "knn":
        return KNNSupervisedOPF(max_k=3, **kw)
    return UnsupervisedOPF(min_k=1, max_k=3, **kw)


def pool(seed, ties, n):
    rng = np.random.RandomState(1000 + seed)
    if ties:
        # small integer grid: many duplicated points and equal distances
        X = rng.randint(1, 4, size=(n, 2)).astype(np.float64)
    else:
        X = rng.rand(n, 3) + 0.05
    Y = rng.randint(1, 3, size=n)
    Y[0], Y[1] = 1, 2
    return rng, X, Y


def matrix(rng, X, ties):
    """A (deliberately asymmetric) pre-computed matrix that is NOT the model's metric."""
    n = len(X)
    M = np.abs(X[:, None, :] - X[None, :, :]).max(axis=2) * 3.0
    if ties:
        M = M + np.tril(np.ones((n, n)), -1)
    else:
        M = M + 0.25 * rng.rand(n, n)
    np.fill_diagonal(M, 0.0)
    return M


def scenario(kind, metric, pre, seed, ties):
    """Returns (fitted model, predict-args)."""
    n = 26
    rng, X, Y = pool(seed, ties, n)
    perm = rng.permutation(n)
    m = make(kind, metric)

    if pre:
        if kind == "knn":
            # the k-NN classifier wants an n_train x n_train matrix: every sample lives in it
            M = matrix(rng, X, ties)
            m.pre_computed_distance = True
            m.pre_distances = M
            I_tr = perm
            I_va = perm[::3]
            I_te = perm[1::2]
            m.fit(X[I_tr], Y[I_tr], X[I_va], Y[I_va], I_train=I_tr, I_val=I_va)
            return m, (X[I_te], I_te)
        M = matrix(rng, X, ties)
        m.pre_computed_distance = True
        m.pre_distances = M
        I_tr, I_un, I_te = perm[:12], perm[12:18], perm[18:]
        if kind == "sup":
            m.fit(X[I_tr], Y[I_tr], I_tr)
        elif kind == "semi":
            m.fit(X[I_tr], Y[I_tr], X[I_un], I_train=I_tr, I_unlabeled=I_un)
        else:
            m.fit(X[I_tr], Y[I_tr], I_tr)
            m.propagate_labels()
        return m, (X[I_te], I_te)

    I_tr, I_un, I_te = perm[:12], perm[12:18], perm[18:]
    if kind == "sup":
        m.fit(X[I_tr], Y[I_tr])
    elif kind == "semi":
        m.fit(X[I_tr], Y[I_tr], X[I_un])
    elif kind == "knn":
        m.fit(X[I_tr], Y[I_tr], X[I_un], Y[I_un])
    else:
        m.fit(X[I_tr], Y[I_tr])
        m.propagate_labels()
    return m, (X[I_te],)


def predict(m, args):
    out = m.predict(*args)
    if isinstance(out, tuple):
        return tuple(list(map(int, o)) for o in out)
    return list(map(int, out))


def receivers(kind, case_no, rng):
    """Freshly constructed models of the same kind, in different configurations."""
    yield "default-constructed", make(kind)

    other = make(kind, METRICS[(case_no + 3) % len(METRICS)])
    yield "constructed with another metric", other

    # a receiver that has been given its own distance file at construction
    own = os.path.join(TMP, "own_%d.txt" % case_no)
    np.savetxt(own, np.round(rng.rand(26, 26) * 5.0, 3), delimiter=" ")
    cls = type(other)
    if kind == "knn":
        yield "constructed with its own distance file", cls(
            max_k=2, pre_computed_distance=own
        )
    elif kind == "unsup":
        yield "constructed with its own distance file", cls(
            min_k=1, max_k=2, pre_computed_distance=own
        )
    else:
        yield "constructed with its own distance file", cls(pre_computed_distance=own)


def check_case(case_no, kind, metric, pre, seed, ties):
    tag = "#%d %s/%s/pre=%s/seed=%d/ties=%s" % (case_no, kind, metric, pre, seed, ties)
    m, args = scenario(kind, metric, pre, seed, ties)
    rng = np.random.RandomState(5000 + case_no)

    # predict once before saving (leaves relevance marks in the forest)
    p0 = predict(m, args)
    snap0 = canon(m)

    f_new = os.path.join(TMP, "new_%d.pkl" % case_no)
    f_ref = os.path.join(TMP, "ref_%d.pkl" % case_no)

    m.save(f_new)
    d = first_diff(snap0, canon(m))
    if d:
        fail("%s: save() altered the original: %s" % (tag, d))
    ref_save(m, f_ref)

    # what the original load() makes out of the original file
    r_ref = make(kind)
    ref_load(r_ref, f_ref)
    snap_ref = canon(r_ref)
    d = first_diff(snap0, snap_ref)
    if d:
        fail("%s: reference round trip differs (demo bug?): %s" % (tag, d))

    for what, r in receivers(kind, case_no, rng):
        r.load(f_new)
        d = first_diff(snap0, canon(r))
        if d:
            fail("%s: loaded (%s) != original: %s" % (tag, what, d))
        d = first_diff(snap_ref, canon(r))
        if d:
            fail("%s: loaded (%s) != original load(): %s" % (tag, what, d))
        p1 = predict(r, args)
        if p1 != p0:
            fail(
                "%s: predictions of loaded (%s) differ: %s vs %s" % (tag, what, p1, p0)
            )
        if predict(r_ref, args) != p1:
            fail("%s: predictions differ from the original load()" % tag)
        # positional call, as before
        r2 = make(kind)
        r2.load(f_new)
        if canon(r2) != canon(r):
            fail("%s: two loads of the same file differ" % tag)

    if predict(m, args) != p0:
        fail("%s: original changed its mind after save()" % tag)


def specific_history():
    """The call history that exposes the slip: a model fitted on pre-computed distances
    (non-identity indexes) is saved and loaded into a default-constructed model."""
    rng = np.random.RandomState(77)
    n = 30
    X = rng.rand(n, 2)
    Y = (X[:, 0] > 0.5).astype(int) + 1
    # distances that have nothing to do with the features: the forest lives in the matrix
    Z = rng.rand(n, 2)
    M = np.sqrt(((Z[:, None, :] - Z[None, :, :]) ** 2).sum(axis=2))
    path = os.path.join(TMP, "dist.txt")
    np.savetxt(path, M, delimiter=" ")

    perm = rng.permutation(n)
    I_tr, I_te = perm[:18], perm[18:]

    m = SupervisedOPF(distance="euclidean", pre_computed_distance=path)
    m.fit(X[I_tr], Y[I_tr], I_tr)
    before = predict(m, (X[I_te], I_te))

    f = os.path.join(TMP, "specific.pkl")
    m.save(f)

    r = SupervisedOPF()
    r.load(f)
    after = predict(r, (X[I_te], I_te))

    if r.pre_computed_distance is not True or r.pre_distances is None:
        fail("specific: loaded model lost its pre-computed distances")
    elif not np.array_equal(r.pre_distances, m.pre_distances):
        fail("specific: loaded model holds another distance matrix")
    if after != before:
        fail("specific: predictions differ after reload: %s vs %s" % (after, before))

    # ... and the other way round: a receiver built with a distance file must not keep it
    plain = SupervisedOPF(distance="euclidean")
    plain.fit(X[I_tr], Y[I_tr])
    before = predict(plain, (X[I_te],))
    plain.save(f)
    r = SupervisedOPF(pre_computed_distance=path)
    r.load(f)
    if r.pre_computed_distance is not False or r.pre_distances is not None:
        fail("specific: receiver kept its own pre-computed distances")
    after = predict(r, (X[I_te],))
    if after != before:
        fail("specific: predictions differ after reload (receiver with matrix)")


def main():
    case_no = 0
    for seed in range(6):
        for kind in KINDS:
            for pre in (False, True):
                metric = METRICS[(seed * 3 + case_no) % len(METRICS)]
                ties = (seed + case_no) % 2 == 0
                if ties and metric == "kullback_leibler":
                    metric = "manhattan"
                check_case(case_no, kind, metric, pre, seed, ties)
                case_no += 1

    specific_history()

    print("cases: %d, failures: %d" % (case_no, len(FAILURES)))
    return 1 if FAILURES else 0


if __name__ == "__main__":
    sys.exit(main())
