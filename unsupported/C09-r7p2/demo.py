"""C09 / p2 demo: UnsupervisedOPF.predict split in phases + `_arc_weight` helper.

Exit 0  : behaviour identical to the original implementation and predictions are
          independent of batch position / batch composition / earlier calls.
Exit !=0: otherwise.

Run as: cd /tmp/wt/C09 && PYTHONPATH=/tmp/wt/C09 /venv/bin/python demo.py
"""

import logging
import sys
import time
import warnings
from typing import List, Optional

logging.disable(logging.CRITICAL)

import numpy as np

warnings.filterwarnings("ignore", category=RuntimeWarning)

import opfython.utils.constants as c
import opfython.utils.exception as e
from opfython.models.unsupervised import UnsupervisedOPF
from opfython.subgraphs import KNNSubgraph
from opfython.utils import logging as _l

logger = _l.get_logger(__name__)


class RefUnsup(UnsupervisedOPF):
    """Reference: verbatim copies of the ORIGINAL `_normalized_cut` and `predict`."""

    def _normalized_cut(self, n_neighbours: int) -> int:
        """Performs a normalized cut over the subgraph using a `k` value (number of neighbours).

        Args:
            n_neighbours: Number of neighbours to be used.

        Returns:
            (int): The value of the normalized cut.

        """

        internal_cluster = np.zeros(self.subgraph.n_clusters)
        external_cluster = np.zeros(self.subgraph.n_clusters)

        cut = 0.0

        for i in range(self.subgraph.n_nodes):
            n_adjacents = self.subgraph.nodes[i].n_plateaus + n_neighbours

            for k in range(n_adjacents):
                j = int(self.subgraph.nodes[i].adjacency[k])

                if self.pre_computed_distance:
                    distance = self.pre_distances[self.subgraph.nodes[i].idx][
                        self.subgraph.nodes[j].idx
                    ]
                else:
                    distance = self.distance_fn(
                        self.subgraph.nodes[i].features, self.subgraph.nodes[j].features
                    )

                if distance > 0.0:
                    if (
                        self.subgraph.nodes[i].cluster_label
                        == self.subgraph.nodes[j].cluster_label
                    ):
                        internal_cluster[self.subgraph.nodes[i].cluster_label] += (
                            1 / distance
                        )
                    else:
                        external_cluster[self.subgraph.nodes[i].cluster_label] += (
                            1 / distance
                        )

        for l in range(self.subgraph.n_clusters):
            if internal_cluster[l] + external_cluster[l] > 0.0:
                cut += external_cluster[l] / (internal_cluster[l] + external_cluster[l])

        return cut

    def predict(self, X_val: np.array, I_val: Optional[np.array] = None) -> List[int]:
        """Predicts new data using the pre-trained classifier.

        Args:
            X_val: Array of validation features.
            I_val: Array of validation indexes.

        Returns:
            (List[int]): A list of predictions for each record of the data.

        """

        if not self.subgraph:
            raise e.BuildError("KNNSubgraph has not been properly created")

        if not self.subgraph.trained:
            raise e.BuildError("Classifier has not been properly clustered")

        logger.info("Predicting data ...")

        start = time.time()

        pred_subgraph = KNNSubgraph(X_val, I=I_val)

        best_k = self.subgraph.best_k

        distances = np.zeros(best_k + 1)
        neighbours_idx = np.zeros(best_k + 1)

        for i in range(pred_subgraph.n_nodes):
            cost = -c.FLOAT_MAX
            distances.fill(c.FLOAT_MAX)

            for j in range(self.subgraph.n_nodes):
                if self.pre_computed_distance:
                    distances[best_k] = self.pre_distances[
                        pred_subgraph.nodes[i].idx
                    ][self.subgraph.nodes[j].idx]
                else:
                    distances[best_k] = self.distance_fn(
                        pred_subgraph.nodes[i].features,
                        self.subgraph.nodes[j].features,
                    )

                neighbours_idx[best_k] = j

                cur_k = best_k
                while cur_k > 0 and distances[cur_k] < distances[cur_k - 1]:
                    distances[cur_k], distances[cur_k - 1] = (
                        distances[cur_k - 1],
                        distances[cur_k],
                    )

                    neighbours_idx[cur_k], neighbours_idx[cur_k - 1] = (
                        neighbours_idx[cur_k - 1],
                        neighbours_idx[cur_k],
                    )

                    cur_k -= 1

            density = 0.0
            for k in range(best_k):
                density += np.exp(-distances[k] / self.subgraph.constant)

            density /= best_k

            # Scale the density between minimum and maximum values
            density = (
                (c.MAX_DENSITY - 1)
                * (density - self.subgraph.min_density)
                / (self.subgraph.max_density - self.subgraph.min_density + c.EPSILON)
            ) + 1

            for k in range(best_k):
                if distances[k] != c.FLOAT_MAX:
                    neighbour = int(neighbours_idx[k])

                    temp_cost = np.minimum(self.subgraph.nodes[neighbour].cost, density)
                    if temp_cost > cost:
                        cost = temp_cost

                        # Propagates the predicted label from the neighbour
                        pred_subgraph.nodes[i].predicted_label = self.subgraph.nodes[
                            neighbour
                        ].predicted_label

                        # Propagates the cluster label from the neighbour
                        pred_subgraph.nodes[i].cluster_label = self.subgraph.nodes[
                            neighbour
                        ].cluster_label

        preds = [pred.predicted_label for pred in pred_subgraph.nodes]
        clusters = [pred.cluster_label for pred in pred_subgraph.nodes]

        end = time.time()

        predict_time = end - start

        logger.info("Data has been predicted.")
        logger.info("Prediction time: %s seconds.", predict_time)

        return preds, clusters


FAILURES = []


def fail(msg):
    FAILURES.append(msg)
    print("FAIL:", msg)


def blobs(rng, n, n_classes, n_feat, spread):
    centers = rng.uniform(1.0, 9.0, size=(n_classes, n_feat))
    Y = rng.integers(0, n_classes, size=n)
    X = centers[Y] + rng.normal(0, spread, size=(n, n_feat))
    return np.abs(X) + 0.05, Y + 1


def grid(rng, n, n_classes, n_feat):
    # tie-heavy: small integer coordinates, many duplicates and equal distances
    X = rng.integers(1, 5, size=(n, n_feat)).astype(float)
    Y = rng.integers(1, n_classes + 1, size=n)
    return X, Y


def model_state(opf):
    sg = opf.subgraph
    return (
        sg.best_k,
        sg.n_clusters,
        sg.constant,
        sg.min_density,
        sg.max_density,
        [n.cost for n in sg.nodes],
        [n.density for n in sg.nodes],
        [n.cluster_label for n in sg.nodes],
        [n.predicted_label for n in sg.nodes],
        [n.root for n in sg.nodes],
        [n.pred for n in sg.nodes],
        list(sg.idx_nodes),
    )


def make_pair(min_k, max_k, distance, D=None):
    ref = RefUnsup(min_k=min_k, max_k=max_k, distance=distance)
    cur = UnsupervisedOPF(min_k=min_k, max_k=max_k, distance=distance)
    if D is not None:
        for o in (ref, cur):
            o.pre_computed_distance = True
            o.pre_distances = D
    return ref, cur


def same_type(out):
    preds, clusters = out
    return all(type(v) is int for v in preds) and all(type(v) is int for v in clusters)


def check_property(tag, cur, Xte, Ite, rng):
    def run(sel):
        sel = np.asarray(sel)
        return cur.predict(Xte[sel], None if Ite is None else Ite[sel])

    n = len(Xte)
    whole = run(np.arange(n))
    single = [run([i]) for i in range(n)]
    single = ([s[0][0] for s in single], [s[1][0] for s in single])
    perm = rng.permutation(n)
    permuted = run(perm)
    inv = np.argsort(perm)
    unpermuted = ([permuted[0][j] for j in inv], [permuted[1][j] for j in inv])
    again = run(np.arange(n))
    if whole != single:
        fail(f"{tag}: batch prediction != one-by-one prediction")
    if unpermuted != whole:
        fail(f"{tag}: prediction changes when the batch is permuted")
    if again != whole:
        fail(f"{tag}: prediction changes on a repeated call")


def check_feature_case(tag, rng, X, Y, min_k, max_k, distance):
    n = len(X)
    n_tr = int(n * 0.6)
    Xtr, Ytr, Xte = X[:n_tr], Y[:n_tr], X[n_tr:]

    ref, cur = make_pair(min_k, max_k, distance)
    ref.fit(Xtr, Ytr)
    cur.fit(Xtr, Ytr)
    ref.propagate_labels()
    cur.propagate_labels()
    if model_state(ref) != model_state(cur):
        fail(f"{tag}: fitted model differs from original")
        return

    batches = [Xte, Xte[::-1], np.concatenate([Xte, Xtr[:5], Xte[:3]]), Xtr, Xte[:1]]
    for b, B in enumerate(batches):
        r, p = ref.predict(B), cur.predict(B)
        if r != p or not same_type(p):
            fail(f"{tag}: batch {b} differs from original")
        if model_state(ref) != model_state(cur):
            fail(f"{tag}: model changed by predict")

    check_property(tag, cur, Xte, None, rng)


def check_precomputed_case(tag, rng, N, min_k, max_k, kind):
    # A pool of N samples known only through a distance matrix; training and test
    # samples are arbitrary (non-identity, non-contiguous) rows of that pool.
    if kind == "sym":
        P = rng.uniform(0.5, 5.0, size=(N, 3))
        D = np.sqrt(((P[:, None, :] - P[None, :, :]) ** 2).sum(-1))
    elif kind == "asym":
        D = rng.uniform(0.1, 4.0, size=(N, N))
        np.fill_diagonal(D, 0.0)
    elif kind == "ties":
        D = rng.integers(1, 4, size=(N, N)).astype(float)
        np.fill_diagonal(D, 0.0)
    else:  # integer dtype matrix
        D = rng.integers(1, 6, size=(N, N))
        np.fill_diagonal(D, 0)
    labels = rng.integers(1, 4, size=N)
    feats = rng.uniform(1, 2, size=(N, 2))  # ignored by the pre-computed path

    order = rng.permutation(N)
    I_tr, I_te = order[: int(N * 0.6)], order[int(N * 0.6) :]

    ref, cur = make_pair(min_k, max_k, "euclidean", D)
    ref.fit(feats[I_tr], labels[I_tr], I_tr)
    cur.fit(feats[I_tr], labels[I_tr], I_tr)
    ref.propagate_labels()
    cur.propagate_labels()
    if model_state(ref) != model_state(cur):
        fail(f"{tag}: fitted model differs from original")
        return

    for b, I in enumerate([I_te, I_te[::-1], np.concatenate([I_te, I_tr[:4], I_te[:2]]), I_tr]):
        r, p = ref.predict(feats[I], I), cur.predict(feats[I], I)
        if r != p:
            fail(f"{tag}: batch {b} differs from original")

    check_property(tag, cur, feats[I_te], I_te, rng)


def specific_slip_case():
    """Hand-made batch in which a sample's cluster depends on its batch companions.

    Training samples on a line: a dense group around 1.0 (cluster A) and a sparse
    group around 3.0 (cluster B). With k = 2 the query `q` at 1.95 has its nearest
    neighbour in B and its second nearest in A. Being in a sparse spot, q's own density
    is below both neighbours' costs, so the nearest one (B) conquers it. A query `d`
    in the middle of the dense group has a high density; if q were (wrongly) judged with
    d's density, the neighbour with the larger cost (A) would win instead.
    """

    Xtr = np.array(
        [[0.90], [0.95], [1.00], [1.05], [1.10], [1.15], [1.20], [2.60], [3.00], [3.40], [3.80]]
    )
    Xtr = np.hstack([Xtr, np.ones_like(Xtr)])
    Ytr = np.array([1] * 7 + [2] * 4)
    q = np.array([[1.95, 1.0]])
    d = np.array([[1.05, 1.0]])

    ref, cur = make_pair(2, 2, "euclidean")
    ref.fit(Xtr, Ytr)
    cur.fit(Xtr, Ytr)
    ref.propagate_labels()
    cur.propagate_labels()

    alone_ref = ref.predict(q)
    alone = cur.predict(q)
    if alone != alone_ref:
        fail(f"specific: q alone {alone} differs from original {alone_ref}")

    for name, batch, pos in (
        ("[q, d]", np.vstack([q, d]), 0),
        ("[d, q]", np.vstack([d, q]), 1),
        ("[q, q, d]", np.vstack([q, q, d]), 1),
        ("[q, d, d, d]", np.vstack([q, d, d, d]), 0),
    ):
        r, p = ref.predict(batch), cur.predict(batch)
        if (r[0][pos], r[1][pos]) != (alone_ref[0][0], alone_ref[1][0]):
            fail(f"specific: reference itself is batch dependent for {name}")
        if (p[0][pos], p[1][pos]) != (alone[0][0], alone[1][0]):
            fail(
                f"specific: q predicted (label, cluster) = {(p[0][pos], p[1][pos])} in batch {name} "
                f"but {(alone[0][0], alone[1][0])} alone"
            )

    # history: q alone again after the batches above
    if cur.predict(q) != alone:
        fail("specific: q alone changed after earlier predict calls")


def main():
    t0 = time.time()
    n_cases = 0

    for seed in range(24):
        rng = np.random.default_rng(3000 + seed)
        min_k, max_k = [(1, 1), (2, 2), (1, 4), (3, 5)][seed % 4]
        distance = ["log_squared_euclidean", "euclidean", "manhattan", "chi_squared", "canberra", "squared_euclidean"][seed % 6]
        if seed % 3 == 2:
            X, Y = grid(rng, 45, 3, 2)
            tag = f"grid seed={seed} k=[{min_k},{max_k}] {distance}"
        else:
            X, Y = blobs(rng, 45, 4, 2, 0.7)
            if seed % 3 == 1:
                X[5:12] = X[0]  # duplicated rows with mixed labels
                X = np.round(X, 1)
            tag = f"blobs seed={seed} k=[{min_k},{max_k}] {distance}"
        check_feature_case(tag, rng, X, Y, min_k, max_k, distance)
        n_cases += 1

    for seed in range(16):
        rng = np.random.default_rng(4000 + seed)
        kind = ["sym", "asym", "ties", "int"][seed % 4]
        min_k, max_k = [(1, 1), (2, 3), (2, 2), (1, 4)][(seed // 4) % 4]
        check_precomputed_case(f"pre-computed {kind} seed={seed} k=[{min_k},{max_k}]", rng, 40, min_k, max_k, kind)
        n_cases += 1

    # very small training set
    rng = np.random.default_rng(11)
    X, Y = blobs(rng, 10, 2, 2, 0.5)
    check_feature_case("tiny k=[3,4]", rng, X, Y, 3, 4, "euclidean")
    n_cases += 1

    specific_slip_case()

    print(f"{n_cases} seeded cases + specific history, {time.time() - t0:.1f}s")
    if FAILURES:
        print(f"{len(FAILURES)} failure(s)")
        sys.exit(1)
    print("OK")


if __name__ == "__main__":
    main()
