"""C07 / p1 demo: scratch buffers in utils/decorator.avoid_zero_division.

Exits 0 when every observable result equals the original behaviour for every
call history, non-zero otherwise.

Run as: cd /tmp/wt/C07 && PYTHONPATH=/tmp/wt/C07 /venv/bin/python demo.py
"""

import logging
import sys
import threading
import types
import warnings
from functools import wraps

import numpy as np

logging.disable(logging.CRITICAL)
warnings.simplefilter("ignore")
np.seterr(all="ignore")

import opfython.utils.constants as c  # noqa: E402
from opfython.math.distance import DISTANCES  # noqa: E402
from opfython.models.supervised import SupervisedOPF  # noqa: E402
from opfython.models.unsupervised import UnsupervisedOPF  # noqa: E402

FAILURES = []
VERBOSE = [False]


def fail(msg):
    FAILURES.append(msg)
    if len(FAILURES) <= 12 or VERBOSE[0]:
        print("FAIL:", msg)


# --------------------------------------------------------------------------- #
# Reference: verbatim copy of the ORIGINAL decorator                          #
# --------------------------------------------------------------------------- #
def ref_avoid_zero_division(f):
    @wraps(f)
    def _avoid_zero_division(x, y):
        x = x + c.EPSILON
        y = y + c.EPSILON

        return f(x, y)

    return _avoid_zero_division


# Reference table: the raw kernels re-wrapped with the original decorator
REF = {}
GUARDED = []
for name, fn in DISTANCES.items():
    raw = getattr(fn, "__wrapped__", None)
    if raw is not None and isinstance(fn, types.FunctionType):
        REF[name] = ref_avoid_zero_division(raw)
        GUARDED.append(name)
    else:
        REF[name] = fn
assert len(DISTANCES) == 47 and len(GUARDED) >= 30, (len(DISTANCES), len(GUARDED))


def same(a, b):
    """Bit-identical value and identical type."""
    if type(a) is not type(b):
        return False
    a64, b64 = np.float64(a), np.float64(b)
    if np.isnan(a64) and np.isnan(b64):
        return True
    return a64 == b64 and np.signbit(a64) == np.signbit(b64)


def evaluate(table, name, x, y):
    try:
        return table[name](x, y)
    except Exception as err:  # same exception type counts as same behaviour
        return type(err)


def check_pair(tag, x, y, names=None):
    for name in names or DISTANCES:
        x0, y0 = x.copy(), y.copy()
        got = evaluate(DISTANCES, name, x, y)
        exp = evaluate(REF, name, x0.copy(), y0.copy())
        if isinstance(got, type) or isinstance(exp, type):
            if got is not exp:
                fail("%s %s: %r != %r" % (tag, name, got, exp))
        elif not same(got, exp):
            fail("%s %s: %r != original %r" % (tag, name, got, exp))
        if x.tobytes() != x0.tobytes() or y.tobytes() != y0.tobytes():
            fail("%s %s: caller array modified" % (tag, name))


# --------------------------------------------------------------------------- #
# Part 1: seeded inputs, all 47 metrics, interleaved call histories           #
# --------------------------------------------------------------------------- #
rng = np.random.default_rng(20260)
n_inputs = 0
for trial in range(36):
    dim = int(rng.integers(1, 9))
    x = rng.random(dim)
    y = rng.random(dim)
    if trial % 3 == 0:  # exact zeros / tie-heavy (quantised, many equal entries)
        x = np.round(x * 3) / 3
        y = np.round(y * 3) / 3
        x[rng.integers(0, dim)] = 0.0
        y[rng.integers(0, dim)] = 0.0
    if trial % 4 == 1:
        y = x.copy()  # equal vectors
    check_pair("t%d/f64" % trial, x, y)
    check_pair("t%d/f64-again" % trial, x, y, GUARDED)
    check_pair("t%d/same-object" % trial, x, x, GUARDED)
    n_inputs += 1

# strided views (rows / columns of a matrix, as Node.features are), 2-d operands
M = rng.random((6, 5))
M[2, 3] = 0.0
check_pair("rows", M[1], M[2])
check_pair("cols", M[:, 1], M[:, 3])
check_pair("rev", M[1][::-1], M[2][::-1])
check_pair("2d", M[:3], M[3:], GUARDED)

# other dtypes (each one on a length that no float64 call used before AND on
# lengths shared with float64 calls, in both orders)
for dim in (3, 5, 11):
    x = rng.random(dim)
    y = rng.random(dim)
    xi = (x * 10).astype(np.int64)
    yi = (y * 10).astype(np.int64)
    check_pair("i64/%d" % dim, xi, yi, GUARDED)
    check_pair("f64-after-int/%d" % dim, x, y, GUARDED)
    check_pair("f32/%d" % dim, x.astype(np.float32), y.astype(np.float32), GUARDED)
    check_pair("f64-after-f32/%d" % dim, x, y, GUARDED)
    check_pair("f32-after-f64/%d" % dim, x.astype(np.float32), y.astype(np.float32), GUARDED)
    check_pair("mixed/%d" % dim, x.astype(np.float32), y, GUARDED)
    check_pair("f64-after-mixed/%d" % dim, x, y, GUARDED)

# scalars, as in the decorator's unit test
from opfython.utils import decorator  # noqa: E402


@decorator.avoid_zero_division
def _echo(x, y):
    return x, y


if _echo(1, 1) != (1 + c.EPSILON, 1 + c.EPSILON) or _echo(0, 2.5) != (c.EPSILON, 2.5 + c.EPSILON):
    fail("scalar path differs")
e0 = _echo(np.float64(0.0), np.array(0.0))
if not (e0[0] == c.EPSILON and e0[1] == c.EPSILON and type(e0[1]) is type(np.array(0.0) + c.EPSILON)):
    fail("0-d path differs")

# another thread interleaved with the main thread
x = rng.random(4)
y = rng.random(4)
out = {}


def worker():
    out["w"] = [DISTANCES[n](y, x) for n in GUARDED]


t = threading.Thread(target=worker)
t.start()
t.join()
for n, v in zip(GUARDED, out["w"]):
    if not same(v, REF[n](y, x)):
        fail("thread %s" % n)
check_pair("after-thread", x, y, GUARDED)


# --------------------------------------------------------------------------- #
# Part 2: the history that exposes a scratch buffer of the wrong type         #
# --------------------------------------------------------------------------- #
def forest(opf):
    return [
        (n.pred, n.predicted_label, float(n.cost), n.status) for n in opf.subgraph.nodes
    ], list(opf.subgraph.idx_nodes)


def history_check(metric):
    g = np.random.default_rng(7)
    X = g.random((24, 4))
    X[g.random(X.shape) < 0.2] = 0.0
    Y = (np.arange(24) % 3).astype(int)
    Xt = g.random((9, 4))
    X0, Xt0 = X.copy(), Xt.copy()

    # expected: the original behaviour (reference metric)
    ref = SupervisedOPF(distance=metric)
    ref.distance_fn = REF[metric]
    ref.fit(X, Y)
    exp_forest, exp_preds = forest(ref), ref.predict(Xt)
    exp_dist = [REF[metric](X[i], X[i + 1]) for i in range(23)]

    # history: the same kind of work on single-precision data of the same width
    X32 = g.random((10, 4)).astype(np.float32)
    # (preceded by one evaluation on vectors of another width, so that the
    # single-precision vectors are the first ones of width 4 the scratch sees)
    DISTANCES[metric](g.random(5), g.random(5))
    for i in range(9):
        DISTANCES[metric](X32[i], X32[i + 1])
    try:  # (some metrics return np.float32, which Node.cost rejects - also originally)
        warm = SupervisedOPF(distance=metric)
        warm.fit(X32, (np.arange(10) % 2).astype(int))
        warm.predict(X32)
    except Exception:
        pass

    # now a fresh model / plain evaluations on the double-precision data
    got_dist = [DISTANCES[metric](X[i], X[i + 1]) for i in range(23)]
    for i, (a, b) in enumerate(zip(got_dist, exp_dist)):
        if not same(a, b):
            fail(
                "%s: d(X[%d], X[%d]) = %r after single-precision history, %r without"
                % (metric, i, i + 1, a, b)
            )
            break
    opf = SupervisedOPF(distance=metric)
    opf.fit(X, Y)
    if forest(opf) != exp_forest:
        fail("%s: forest of a fresh model depends on earlier single-precision fits" % metric)
    if opf.predict(Xt) != exp_preds:
        fail("%s: predictions depend on earlier single-precision fits" % metric)

    un = UnsupervisedOPF(max_k=3, distance=metric)
    un.fit(X)
    un_ref = UnsupervisedOPF(max_k=3, distance=metric)
    un_ref.distance_fn = REF[metric]
    un_ref.fit(X)
    if [(n.pred, n.cluster_label, float(n.cost)) for n in un.subgraph.nodes] != [
        (n.pred, n.cluster_label, float(n.cost)) for n in un_ref.subgraph.nodes
    ]:
        fail("%s: unsupervised forest depends on history" % metric)

    # and the other direction: single-precision values after a double history
    DISTANCES[metric](g.random(5), g.random(5))
    DISTANCES[metric](X[0], X[1])
    a32, b32 = X32[0], X32[1]
    if not same(DISTANCES[metric](a32, b32), REF[metric](a32, b32)):
        fail("%s: single-precision value depends on double-precision history" % metric)

    if X.tobytes() != X0.tobytes() or Xt.tobytes() != Xt0.tobytes():
        fail("%s: caller data modified" % metric)


VERBOSE[0] = True
for metric in ("canberra", "chi_squared", "cosine", "kullback_leibler", "jaccard", "vicis_wave_hedges"):
    try:
        history_check(metric)
    except Exception as err:
        fail("%s: %s raised only because of the call history" % (metric, type(err).__name__))

print("inputs: %d, failures: %d" % (n_inputs, len(FAILURES)))
sys.exit(1 if FAILURES else 0)
